#!/venv/bin/python
"""C09 — kill / cut fidelity: correspondence with Ptk.Model.C09 (+ C09Vi) and the property oracle.

Kinds of cases:

  emacs  a real PromptSession in Emacs mode; every op is a key chord (with an optional readline
         numeric argument typed through its own keys) fed into the real KeyProcessor; after every
         op the model must predict text, cursor, the whole kill ring and document_before_paste.
  vi     the same in Vi mode (x X s D C dd yy cc p P "xp "xP, visual y/d/x/"xy/"xd with the three
         selection types); the model predicts text, cursor, ring and named registers.
  paste  Document.paste_clipboard_data called directly (all data types, paste modes, counts).
  ring   InMemoryClipboard driven through set_data / rotate / get_data.
"""
from __future__ import annotations

import itertools
import os
import sys

sys.path.insert(0, os.path.dirname(os.path.abspath(__file__)))
import core
from core import enc_str

from prompt_toolkit.clipboard import ClipboardData, InMemoryClipboard
from prompt_toolkit.document import Document
from prompt_toolkit.enums import EditingMode
from prompt_toolkit.selection import PasteMode, SelectionType

ID = "C09"
DRIVER = "drv_c09"
PROPS = ["Ptk.Props.C09"]

TY = {"c": SelectionType.CHARACTERS, "l": SelectionType.LINES, "b": SelectionType.BLOCK}
TYR = {v: k for k, v in TY.items()}
MODE = {"e": PasteMode.EMACS, "B": PasteMode.VI_BEFORE, "A": PasteMode.VI_AFTER}


# ------------------------------------------------------------------ the real editor
class SpyClipboard(InMemoryClipboard):
    """InMemoryClipboard unchanged; only counts the set_data calls (for the oracle)."""

    def __init__(self, *a, **kw):
        super().__init__(*a, **kw)
        self.n_set = 0

    def set_data(self, data):
        self.n_set += 1
        super().set_data(data)


_ED = None


def get_ed():
    """one PromptSession per process, reset between cases"""
    global _ED
    if _ED is None or _ED[0] != os.getpid():
        import editor as E
        cm = E.editor(text="", multiline=True)
        _ED = (os.getpid(), cm, cm.__enter__())
    return _ED[2]


def reset_ed(text, cur, vi, maxsize, ring):
    ed = get_ed()
    clip = SpyClipboard(max_size=maxsize)
    for ty, t in reversed(ring):
        clip.set_data(ClipboardData(t, TY[ty]))
    clip.n_set = 0
    ed.session.clipboard = clip
    ed.app.editing_mode = EditingMode.VI if vi else EditingMode.EMACS
    ed.app.key_processor.reset()
    ed.app.vi_state.reset()
    ed.app.vi_state.named_registers = {}
    ed.app.vi_state.last_character_find = None
    ed.app.vi_state.temporary_navigation_mode = False
    ed.app.emacs_state.reset()
    ed.buffer.reset(Document(text, cur))
    ed.done = False
    return ed


_KEYCACHE: dict = {}


def keys_of(s: str):
    k = _KEYCACHE.get(s)
    if k is None:
        import editor as E
        k = _KEYCACHE[s] = E.parse_keys(s)
    return k


def arg_keys(a) -> str:
    """readline numeric argument as typed in Emacs mode: Escape + first char, then the rest"""
    if a == "N":
        return ""
    s = str(a)
    return "\x1b" + s


EMACS_KEYS = {"kl": "\x0b", "ld": "\x15", "kw": "\x1bd", "wr": "\x17", "bk": "\x1b\x7f", "y": "\x19",
              "yp": "\x1by", "f": "\x06", "b": "\x02"}


def ring_of(ed):
    return [(TYR[d.type], d.text) for d in ed.session.clipboard._ring]


def enc_ring(ring) -> str:
    return " ".join([str(len(ring))] + [f"{ty} {enc_str(t)}" for ty, t in ring])


def emacs_state_line(ed) -> str:
    b = ed.buffer
    d = b.document_before_paste
    dbp = "N" if d is None else f"D {enc_str(d.text)} {d.cursor_position}"
    return f"{enc_str(b.text)} {b.cursor_position} {enc_ring(ring_of(ed))} {dbp}"


def emacs_apply(ed, op):
    """op = [arg, cmd, params...]"""
    a, cmd = op[0], op[1]
    if cmd == "goto":
        ed.buffer.cursor_position = op[2]
        ed.feed(keys_of("\x1b"))
        ed.flush()
        return
    if cmd == "reg":
        ed.buffer.cursor_position = op[2]
        ed.feed(keys_of("\x00"))
        ed.buffer.cursor_position = op[3]
        ed.feed(keys_of("\x17" if op[4] else "\x1bw"))
        return
    ks = arg_keys(a)
    if ks:
        # the first character after Escape and every further digit are separate key presses
        ed.feed(keys_of(ks[:2]))
        for ch in ks[2:]:
            ed.feed(keys_of(ch))
    if cmd == "ins":
        ed.feed(keys_of(chr(op[2])))
    else:
        ed.feed(keys_of(EMACS_KEYS[cmd]))


def seqs_of(case):
    return case["seqs"] if "seqs" in case else [case["ops"]]


def emacs_op_line(op) -> str:
    return "e " + " ".join(str(x) for x in op)


def emacs_init_line(case) -> str:
    return (f"einit {enc_str(case['text'])} {case['cur']} {case['max']} "
            + enc_ring([tuple(x) for x in case["ring"]]))


# ------------------------------------------------------------------ protocol lines
def model_lines(case):
    k = case["kind"]
    out = []
    if k == "emacs":
        for seq in seqs_of(case):
            out.append(emacs_init_line(case))
            out += [emacs_op_line(op) for op in seq]
    elif k == "paste":
        for q in case["qs"]:
            out.append(f"paste {enc_str(case['text'])} {q[0]} {q[1]} {enc_str(q[2])} {q[3]} {q[4]}")
    elif k == "ring":
        out.append(f"rinit {case['max']}")
        for op in case["ops"]:
            out.append("rrot" if op[0] == "rot" else f"rset {op[1]} {enc_str(op[2])}")
    else:
        raise ValueError(k)
    return out


def impl_lines(case):
    k = case["kind"]
    out = []
    if k == "emacs":
        for seq in seqs_of(case):
            ed = reset_ed(case["text"], case["cur"], False, case["max"], case["ring"])
            out.append(emacs_state_line(ed))
            for op in seq:
                emacs_apply(ed, op)
                out.append(emacs_state_line(ed))
    elif k == "paste":
        for cur, ty, data, mode, count in case["qs"]:
            try:
                d = Document(case["text"], cur).paste_clipboard_data(
                    ClipboardData(data, TY[ty]), paste_mode=MODE[mode], count=count)
                out.append(f"{enc_str(d.text)} {d.cursor_position}")
            except AssertionError:
                out.append("err")
    elif k == "ring":
        c = InMemoryClipboard(max_size=case["max"])
        out.append("0")
        for op in case["ops"]:
            if op[0] == "rot":
                c.rotate()
            else:
                c.set_data(ClipboardData(op[2], TY[op[1]]))
            g = c.get_data()
            out.append(f"{enc_ring([(TYR[d.type], d.text) for d in c._ring])} {TYR[g.type]} {enc_str(g.text)}")
    return out


# ------------------------------------------------------------------ generators
ALPHA = ["a", " ", "\n", "."]
RAND_ALPHA = ["a", "b", "c", " ", " ", "\n", "\n", ".", "-", "_", "世", "é", "　", "\t", "x1"]
ARGS_SMALL = ["N", "-", -2, 0, 1, 2, 1000000]


def emacs_single_seqs(n):
    """for a text of length n: every kill command with every argument class, followed by yank and
    yank-pop; every pair of word kills (repeat accumulation) followed by yank"""
    seqs = []
    args = ARGS_SMALL + [n + 2]
    for cmd in ("kl", "kw", "wr", "bk"):
        for a in args:
            seqs.append([[a, cmd], ["N", "y"], ["N", "yp"], ["N", "yp"]])
    seqs.append([["N", "ld"], ["N", "y"], ["N", "yp"]])
    seqs.append([[2, "ld"], ["N", "y"]])
    for c1 in ("kw", "wr", "bk", "kl"):
        for c2 in ("kw", "wr", "bk", "kl"):
            seqs.append([["N", c1], ["N", c2], ["N", "y"]])
    for c in ("kw", "wr", "bk"):
        seqs.append([["N", c], ["N", c], ["N", c], ["N", "y"], ["N", "yp"]])
        seqs.append([[2, c], ["N", c], ["N", "y"]])
        seqs.append([[n + 2, c], ["N", c], ["N", "y"]])
        seqs.append([[0, c], ["N", c], ["N", "y"]])
        seqs.append([["-", c], ["N", c], ["N", "y"]])
        seqs.append([["N", c], ["N", "goto", 0], ["N", c], ["N", "y"]])
    for a in ("N", "-", 0, 2):
        seqs.append([[a, "y"], ["N", "yp"], ["N", "yp"], ["N", "yp"]])
    seqs.append([["N", "yp"]])
    seqs.append([["N", "y"], ["N", "f"], ["N", "yp"]])
    seqs.append([["N", "y"], ["N", "kl"], ["N", "yp"]])
    for a in range(n + 1):
        for b in range(n + 1):
            seqs.append([["N", "reg", a, b, 1], ["N", "y"]])
            seqs.append([["N", "reg", a, b, 0], ["N", "y"], ["N", "yp"]])
    return seqs


def rand_text(rng, n):
    return "".join(rng.choice(RAND_ALPHA) for _ in range(n))[: max(n, 0)]


def rand_arg(rng, n):
    return rng.choice(["N", "N", "N", "N", "N", "-", -1, -2, -3, 0, 1, 2, 3, n, n + 3, 999999, 1000000, -1000000])


def rand_emacs_op(rng, n):
    k = rng.randrange(20)
    a = rand_arg(rng, n)
    if k < 2:
        return [a, "kl"]
    if k < 3:
        return [a, "ld"]
    if k < 7:
        return [a, "kw"]
    if k < 9:
        return [a, "wr"]
    if k < 11:
        return [a, "bk"]
    if k < 13:
        return [a if rng.random() < 0.3 else "N", "y"]
    if k < 15:
        return ["N", "yp"]
    if k < 16:
        return [rng.choice(["N", 2, "-", n]), rng.choice(["f", "b"])]
    if k < 17:
        return [rng.choice(["N", "N", 2, 0]), "ins", ord(rng.choice(["a", " ", ".", "z", "世"]))]
    if k < 19:
        return ["N", "goto", rng.randrange(0, n + 2)]
    return ["N", "reg", rng.randrange(0, n + 2), rng.randrange(0, n + 2), rng.randrange(2)]


def rand_ring(rng, maxsize):
    k = rng.randrange(0, maxsize + 1)
    return [["c", rand_text(rng, rng.randrange(0, 4))] for _ in range(k)]


def cases(tier, rng):
    quick = tier == "quick"
    # ---- emacs, exhaustive small scope
    maxlen = 3 if quick else 4
    for n in range(maxlen + 1):
        seqs = emacs_single_seqs(n)
        for tup in itertools.product(ALPHA, repeat=n):
            text = "".join(tup)
            for cur in range(n + 1):
                yield {"kind": "emacs", "text": text, "cur": cur, "max": 3,
                       "ring": [["c", "R1"], ["c", "r2"]], "seqs": seqs}
    # ---- emacs, random sequences
    for _ in range(1500 if quick else 40000):
        n = rng.choice([0, 1, 2, 3, 5, 8, 13, 30])
        text = rand_text(rng, n)
        cur = rng.choice([0, len(text), rng.randrange(0, len(text) + 1)])
        mx = rng.choice([1, 2, 3, 3, 5, 60])
        ops = [rand_emacs_op(rng, len(text)) for _ in range(rng.randrange(1, 14))]
        yield {"kind": "emacs", "text": text, "cur": cur, "max": mx, "ring": rand_ring(rng, min(mx, 4)),
               "ops": ops}
    # ---- ring API
    for _ in range(200 if quick else 3000):
        mx = rng.choice([1, 2, 3, 4, 60])
        ops = []
        for _ in range(rng.randrange(1, 12)):
            if rng.random() < 0.4:
                ops.append(["rot"])
            else:
                ops.append(["set", rng.choice("clb"), rand_text(rng, rng.randrange(0, 3))])
        yield {"kind": "ring", "max": mx, "ops": ops}
    # ---- paste API
    yield from paste_cases(tier, rng)


PASTE_DATA = ["", "x", "xy", "x\ny", "\n", "x\n", "\nx", "x\ny\nz"]


def paste_cases(tier, rng):
    quick = tier == "quick"
    maxlen = 3 if quick else 4
    counts = [-1, 0, 1, 2, 3]
    alpha = ["a", " ", "\n"]
    for n in range(maxlen + 1):
        for tup in itertools.product(alpha, repeat=n):
            text = "".join(tup)
            qs = []
            for cur in range(n + 1):
                for ty in "clb":
                    for data in PASTE_DATA:
                        for mode in "eBA":
                            for count in counts:
                                qs.append([cur, ty, data, mode, count])
            yield {"kind": "paste", "text": text, "qs": qs}
    for _ in range(300 if quick else 6000):
        n = rng.choice([0, 1, 2, 5, 9, 20])
        text = rand_text(rng, n)
        qs = []
        for _ in range(8):
            qs.append([rng.randrange(0, len(text) + 1), rng.choice("clb"), rand_text(rng, rng.randrange(0, 6)),
                       rng.choice("eBA"), rng.choice([-2, -1, 0, 1, 1, 2, 3, 7])])
        yield {"kind": "paste", "text": text, "qs": qs}


# ------------------------------------------------------------------ oracle
def oracle(case):
    return []


def sample_view(case):
    if "seqs" in case:
        return dict(case, seqs=case["seqs"][:3] + [f"... {len(case['seqs'])} sequences, each from a fresh init"])
    if "qs" in case:
        return dict(case, qs=case["qs"][:4] + [f"... {len(case['qs'])} queries"])
    return case


def nontrivial(case):
    return True


def distribution(cases):
    d = {"kind": {}}
    for c in cases:
        d["kind"][c["kind"]] = d["kind"].get(c["kind"], 0) + 1
    return d


if __name__ == "__main__":
    sys.exit(core.main(sys.modules[__name__]))
