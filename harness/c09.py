#!/venv/bin/python
"""C09 — kill / cut fidelity: correspondence with Ptk.Model.C09 (+ C09Vi) and the property oracle.

Kinds of cases:

  emacs  a real PromptSession in Emacs mode; every op is a key chord (with an optional readline
         numeric argument typed through its own keys) fed into the real KeyProcessor; after every
         op the model must predict text, cursor, the whole kill ring and document_before_paste.
         Ops: kl ld kw kwc(c-delete) dc(delete-char) wr bk y yp f b ins goto reg (C-@ .. C-w / M-w), regt (a selection of any
         SelectionType started through Buffer.start_selection, then C-w / M-w), shift (s-left / s-right
         presses, then C-w / M-w / backspace / C-y / a character).
  vi     the same in Vi mode (x X s D C dd yy Y cc S p P "xp "xP, visual y/d/x/"xy/"xd with the three
         selection types); the model predicts text, cursor, ring and named registers.
  paste  Document.paste_clipboard_data called directly (all data types, paste modes, counts).
  cut    Document.selection_ranges and Document.cut_selection called directly (all selection types, both
         editing modes, incl. the empty text and empty lines; the ranges themselves are compared, signed),
         followed by paste_clipboard_data(VI_BEFORE) of the cut data at the cursor it left.
  ring   InMemoryClipboard driven through set_data / rotate / get_data.
  pyclip the real PyperclipClipboard on top of a one-string stand-in for the pyperclip module
         (set_data / get_data / rotate, and other programs overwriting the system clipboard).
  dyn    DynamicClipboard switching between InMemoryClipboards and None (DummyClipboard).
"""
from __future__ import annotations

import itertools
import os
import sys

sys.path.insert(0, os.path.dirname(os.path.abspath(__file__)))
import core
from core import enc_str

from prompt_toolkit.clipboard import ClipboardData, InMemoryClipboard
from prompt_toolkit.document import Document
from prompt_toolkit.enums import EditingMode
from prompt_toolkit.selection import PasteMode, SelectionState, SelectionType


class _SystemClipboard:
    """the system clipboard as one string cell: stands in for the `pyperclip` module (not installed
    here; clipboard/pyperclip.py only calls `pyperclip.copy(text)` and `pyperclip.paste()`)"""

    def __init__(self):
        self.cell = ""

    def copy(self, text):
        self.cell = text

    def paste(self):
        return self.cell


def pyperclip_clipboard(cell: _SystemClipboard):
    """a real PyperclipClipboard whose `pyperclip` module is the given cell"""
    import importlib
    import types
    fake = types.ModuleType("pyperclip")
    fake.copy = cell.copy
    fake.paste = cell.paste
    old = sys.modules.get("pyperclip")
    sys.modules["pyperclip"] = fake
    try:
        mod = importlib.import_module("prompt_toolkit.clipboard.pyperclip")
        mod = importlib.reload(mod)
    finally:
        if old is None:
            sys.modules.pop("pyperclip", None)
        else:
            sys.modules["pyperclip"] = old
    return mod.PyperclipClipboard()

ID = "C09"
DRIVER = "drv_c09"
PROPS = ["Ptk.Props.C09", "Ptk.Props.C09Vi", "Ptk.Props.C09Cut", "Ptk.Props.C09Paste", "Ptk.Props.C09Ring",
         "Ptk.Props.C09Ext"]
TECHNIQUE = "Lean 4 proof over an executable model + differential correspondence + property oracle"
LEVEL_TEXT = ("Lean 4 theorems over an executable model of the kill ring (InMemoryClipboard), Buffer.delete / "
              "delete_before_cursor, the Emacs kill / yank / yank-pop / region commands with event.arg and "
              "event.is_repeat (incl. c-delete, C-w / M-w on CHARACTERS / LINES / BLOCK selections, shift selection), "
              "Document.paste_clipboard_data (3 data types x 3 paste modes x count), Document.selection_ranges / "
              "cut_selection (3 selection types, Vi and Emacs mode), the Vi register commands (x X s D C cc S dd yy Y "
              "p P \"rp, visual x/y/d with named registers), PyperclipClipboard over an abstract system-clipboard cell "
              "and DynamicClipboard: every kill puts exactly the removed characters on the ring and the removed text put "
              "back at the kill point is the old text; consecutive word kills accumulate in text order (runs of any "
              "length; per key: M-d and c-delete are different keys), kill-line / unix-line-discard never accumulate "
              "(n presses = n entries); yank right after kill restores the text; the column-0 unix-line-discard "
              "exception; the ring is a bounded LIFO of exactly the last max_size entries, rotate is a permutation with "
              "rotate^len = id; yank n repeats the top entry n times, yank-pop = yank of the next entry at the original "
              "spot, a full cycle closes, and it does nothing unless it follows a yank; a BLOCK cut removes exactly the "
              "cells of the block (lines shorter than the left column have none), a LINES cut whole lines; pasting the "
              "cut data back at the cut point restores the text (BLOCK: when every line of the block reaches the left "
              "column; LINES: exactly when a newline terminates the last selected line, otherwise text + one newline); "
              "paste inserts the data count times unchanged (BLOCK: padding with spaces exactly for lines shorter than "
              "the paste column) and neither paste nor cut can raise; what survives the system clipboard round trip; "
              "the invariant of every history of the extended Emacs model.  The model is tied to /repo on every run "
              "by generated pins (word regexes, register names, the command behind every key the harness types), by a "
              "differential correspondence through the real KeyProcessor (Emacs and Vi mode) and the real Document / "
              "clipboard API, and by a property oracle on the real objects")
LEVEL_NOTE = ("trusted: Lean kernel, axioms propext/Classical.choice/Quot.sound only; the hand-written model "
              "(validated by the correspondence, not proved equal to the Python); CPython str / deque semantics; "
              "regex \\s and str.isspace are parameters of the theorems (tables regenerated from the interpreter for "
              "the driver); the `pyperclip` module is replaced by a one-string cell (the real PyperclipClipboard class "
              "runs on top of it)")
RULE = ("emacs: for every text over {a, space, newline, .} up to the tier's length and every cursor, from a fresh "
        "editor with a preloaded ring: every kill command (incl. c-delete) x every argument class (none, M--, negative, "
        "0, positive, oversized, >= 10^6) followed by yank and yank-pop, every pair of kill commands, triple word kills "
        "and triple line kills, M-d / c-delete mixes, kills after a failing kill, yank with arguments + yank-pop "
        "cycles, C-y + every kill / delete-char / self-insert / motion + M-y (yank-pop must do nothing), every region (mark, point) kill/copy for the three selection types, every "
        "shift selection (anchor, 1-3 presses left / right) followed by C-w / M-w / backspace / C-y / a character; "
        "then seeded random sessions (<= 13 chords incl. cursor moves, self-insert, goto, regions, ring bound 1..60, "
        "unicode); vi: for every text over {a, space, newline}: x X s dd yy with counts, D C cc S Y, p P with counts, "
        "every visual selection (v / V / C-v, every anchor and cursor) followed by x / d / y / \"ay / \"qd and "
        "pastes; then seeded random sessions incl. valid and invalid register names; cut: Document.cut_selection "
        "for every text over {a, b, newline} x cursor x anchor x 3 selection types x 2 editing modes, followed by "
        "paste_clipboard_data(VI_BEFORE) at the cut cursor, + random texts; paste: every text, cursor, data type, data "
        "string, paste mode and count in a small scope + random; ring / pyclip / dyn: exhaustive small op "
        "sequences + random set_data / rotate / external-copy / switch sequences; a case is non-trivial when its "
        "text is non-empty or it has at least 3 ops")
EXHAUSTIVE = True
EXHAUSTIVE_SCOPE = {
    "quick": "emacs: alphabet {a,space,\\n,.} len<=2 and {a,space,\\n} len 3, all cursors, 106-218 key sequences each; "
             "vi: alphabet {a,space,\\n} len<=3, all cursors, 55-136 sequences each (visual: all anchors x cursors, "
             "3 selection types); cut: alphabet {a,b,\\n} len<=4 x all cursors x all anchors x 3 types x 2 modes; "
             "paste: alphabet {a,space,\\n} len<=3 x all cursors x 3 types x 6 data x 3 modes x counts -1..2; "
             "pyclip: 3 types x 6 texts x 6 external texts",
    "thorough": "emacs: alphabet {a,space,\\n,.} len<=4, all cursors, ~300 key sequences each; vi: alphabet "
                "{a,space,\\n} len<=4, all cursors, all visual selections x 5 follow-ups; cut: len<=5; paste: len<=4 x "
                "8 data x counts -1..3"}
TRUSTED = ["harness/c09.py drives one real PromptSession per worker through app.key_processor (keys parsed by the real "
           "Vt100Parser) and compares text, cursor, the whole kill ring, document_before_paste / named registers "
           "after every op; cursor jumps ('goto', region / visual / shift-selection anchors) are made through "
           "Buffer.cursor_position, typed regions start through Buffer.start_selection",
           "the clipboard is an InMemoryClipboard subclass that only counts set_data calls",
           "the pyperclip module is a stand-in with one string cell (copy / paste); PyperclipClipboard itself is the "
           "real class, re-imported on top of it",
           "Ptk/Model/C09.lean, C09Vi.lean, C09Ext.lean are hand translations of the anchored code "
           "(correspondence-checked)",
           "harness/gen_c09.py re-extracts the two word regex patterns, the default max_size, vi_register_names and "
           "the command / handler bound to every key the harness types (all pinned in the model files), and probes "
           "two behaviours for which repairs are pending (kill-word with a negative argument, delete with an "
           "unknown register name)"]
ASSUMPTIONS = ["CPython str slicing / deque semantics", "regex \\s and str.isspace tables regenerated from the running "
               "interpreter",
               "one focused buffer, not read-only, no completion menu / search / macro recording active",
               "the system clipboard is a single string cell that other programs may overwrite between any two calls"]
PARTIAL_SCOPE = ["Vi operators with motions (dw, yw, \"ayw ...) are property C08; here registers are filled through "
                 "x X s D C cc S dd yy Y and visual selections (INCLUSIVE / LINEWISE / BLOCK text objects)",
                 "yank-nth-arg / yank-last-arg (history words, not the kill ring), macro registers (q / @) and the "
                 "real system clipboard behind pyperclip are not modelled; shift selection is modelled for runs of "
                 "s-left / s-right in one direction followed by one action (s-up / s-down / s-home / c-s-* and mixed "
                 "directions: not modelled)",
                 "paste-back theorems for a BLOCK cut assume that every line of the block reaches its left column "
                 "(otherwise cells of lower lines move up: counter-example proved in Lean and replayed); blocks with "
                 "shorter lines are covered by cutSelection_block (what is cut), the correspondence and the oracle",
                 "observed, not part of C09 (modelled as they are): kill-word with a negative argument kills "
                 "text_after_cursor[:-k] forward (repair proposed by C01; the model follows the probe "
                 "Gen.C09.killWordNegFixed, so the check is green before and after it lands); cc / S store the whole line but delete only after the indentation and "
                 "ignore the count; a cut of a BLOCK that starts in an empty FIRST line of the text leaves the cursor on "
                 "the second row (`last_to == 0` is mistaken for 'first range'): C-v j x P on '\\nab' gives '\\nb\\na'; "
                 "a delete operator with an invalid register name (\"Ad) deletes the text and stores it nowhere (repair "
                 "proposed by C08; probe Gen.C09.unknownRegDeleteFixed); "
                 "a LINES selection cut in EMACS mode (Buffer.start_selection(LINES), API only) excludes the upper bound: "
                 "it leaves the last character of a selection that reaches the end of the text and can duplicate a "
                 "character when the selection is on an empty last line; M-d followed by c-delete does not accumulate "
                 "(different Binding objects)"]

ANCHORS = ["src/prompt_toolkit/key_binding/bindings/named_commands.py",
           "src/prompt_toolkit/key_binding/bindings/emacs.py",
           "src/prompt_toolkit/key_binding/bindings/vi.py",
           "src/prompt_toolkit/clipboard/in_memory.py",
           "src/prompt_toolkit/clipboard/base.py",
           "src/prompt_toolkit/buffer.py",
           "src/prompt_toolkit/document.py"]

# functions of /repo whose bodies the Lean model follows line by line AND that the correspondence exercises
MODELLED = {
    "src/prompt_toolkit/clipboard/in_memory.py": [
        "InMemoryClipboard.set_data", "InMemoryClipboard.get_data", "InMemoryClipboard.rotate"],
    "src/prompt_toolkit/clipboard/base.py": [
        "Clipboard.set_text", "Clipboard.rotate", "DummyClipboard.set_data", "DummyClipboard.set_text",
        "DummyClipboard.rotate", "DummyClipboard.get_data", "DynamicClipboard._clipboard",
        "DynamicClipboard.set_data", "DynamicClipboard.set_text", "DynamicClipboard.rotate",
        "DynamicClipboard.get_data"],
    "src/prompt_toolkit/clipboard/pyperclip.py": [
        "PyperclipClipboard.__init__", "PyperclipClipboard.set_data", "PyperclipClipboard.get_data"],
    "src/prompt_toolkit/document.py": [
        "Document.selection_ranges", "Document.cut_selection", "Document.paste_clipboard_data",
        "Document.find_next_word_ending", "Document.find_previous_word_ending",
        "Document.find_start_of_previous_word", "Document.get_start_of_line_position",
        "Document.get_end_of_line_position", "Document.get_cursor_left_position",
        "Document.get_cursor_right_position"],
    "src/prompt_toolkit/buffer.py": [
        "Buffer.delete", "Buffer.delete_before_cursor", "Buffer.copy_selection", "Buffer.cut_selection",
        "Buffer.paste_clipboard_data"],
    "src/prompt_toolkit/key_binding/bindings/named_commands.py": [
        "delete_char", "kill_line", "kill_word", "unix_word_rubout", "backward_kill_word", "unix_line_discard", "yank", "yank_pop",
        "forward_char", "backward_char"],
    "src/prompt_toolkit/key_binding/bindings/emacs.py": [
        "load_emacs_bindings._start_selection", "load_emacs_bindings._cut", "load_emacs_bindings._copy",
        "load_emacs_shift_selection_bindings.unshift_move", "load_emacs_shift_selection_bindings._start_selection",
        "load_emacs_shift_selection_bindings._extend_selection",
        "load_emacs_shift_selection_bindings._replace_selection", "load_emacs_shift_selection_bindings._delete",
        "load_emacs_shift_selection_bindings._yank"],
    "src/prompt_toolkit/key_binding/bindings/vi.py": [
        "TextObject.operator_range", "TextObject.cut", "load_vi_bindings._delete", "load_vi_bindings._delete_before_cursor",
        "load_vi_bindings._substitute", "load_vi_bindings._delete_until_end_of_line",
        "load_vi_bindings._change_until_end_of_line", "load_vi_bindings._change_current_line",
        "load_vi_bindings._delete_line", "load_vi_bindings._yank_line", "load_vi_bindings._cut",
        "load_vi_bindings._paste", "load_vi_bindings._paste_before", "load_vi_bindings._paste_register",
        "load_vi_bindings._paste_register_before", "load_vi_bindings._yank", "load_vi_bindings._yank_to_register",
        "load_vi_bindings.create_delete_and_change_operators.delete_or_change_operator"],
    "src/prompt_toolkit/key_binding/key_processor.py": [
        "KeyProcessor._fix_vi_cursor_position", "KeyPressEvent.arg"],
}

TY = {"c": SelectionType.CHARACTERS, "l": SelectionType.LINES, "b": SelectionType.BLOCK}
TYR = {v: k for k, v in TY.items()}
MODE = {"e": PasteMode.EMACS, "B": PasteMode.VI_BEFORE, "A": PasteMode.VI_AFTER}


# ------------------------------------------------------------------ the real editor
class SpyClipboard(InMemoryClipboard):
    """InMemoryClipboard unchanged; only counts the set_data calls (for the oracle)."""

    def __init__(self, *a, **kw):
        super().__init__(*a, **kw)
        self.n_set = 0

    def set_data(self, data):
        self.n_set += 1
        super().set_data(data)


_ED = None


def get_ed():
    """one PromptSession per process, reset between cases"""
    global _ED
    if _ED is None or _ED[0] != os.getpid():
        import editor as E
        cm = E.editor(text="", multiline=True)
        _ED = (os.getpid(), cm, cm.__enter__())
    return _ED[2]


def in_loop(fn):
    """run fn() inside the editor's event loop (handlers may create background tasks)"""
    import asyncio
    ed = get_ed()

    async def go():
        r = fn()
        await asyncio.sleep(0)
        return r

    return ed._loop.run_until_complete(go())


def feed(ed, keys):
    import editor as E
    E.Editor.feed(ed, keys)


def flush(ed):
    import editor as E
    E.Editor.flush(ed)


def reset_ed(text, cur, vi, maxsize, ring):
    ed = get_ed()
    clip = SpyClipboard(max_size=maxsize)
    for ty, t in reversed(ring):
        clip.set_data(ClipboardData(t, TY[ty]))
    clip.n_set = 0
    ed.session.clipboard = clip
    ed.app.editing_mode = EditingMode.VI if vi else EditingMode.EMACS
    ed.app.key_processor.reset()
    ed.app.vi_state.reset()
    ed.app.vi_state.named_registers = {}
    ed.app.vi_state.last_character_find = None
    ed.app.vi_state.temporary_navigation_mode = False
    ed.app.emacs_state.reset()
    ed.buffer.reset(Document(text, cur))
    ed.done = False
    return ed


_KEYCACHE: dict = {}


def keys_of(s: str):
    k = _KEYCACHE.get(s)
    if k is None:
        import editor as E
        k = _KEYCACHE[s] = E.parse_keys(s)
    return k


def arg_keys(a) -> str:
    """readline numeric argument as typed in Emacs mode: Escape + first char, then the rest"""
    if a == "N":
        return ""
    s = str(a)
    return "\x1b" + s


EMACS_KEYS = {"kl": "\x0b", "ld": "\x15", "kw": "\x1bd", "wr": "\x17", "bk": "\x1b\x7f", "y": "\x19",
              "yp": "\x1by", "f": "\x06", "b": "\x02", "kwc": "\x1b[3;5~", "dc": "\x1b[3~"}
SHIFT_ACT_KEYS = {"cw": "\x17", "mw": "\x1bw", "bs": "\x7f", "cy": "\x19"}


def ring_of(ed):
    return [(TYR[d.type], d.text) for d in ed.session.clipboard._ring]


def enc_ring(ring) -> str:
    return " ".join([str(len(ring))] + [f"{ty} {enc_str(t)}" for ty, t in ring])


def emacs_apply(ed, op):
    """op = [arg, cmd, params...]"""
    a, cmd = op[0], op[1]
    if cmd == "goto":
        ed.buffer.cursor_position = op[2]
        feed(ed, keys_of("\x1b"))
        flush(ed)
        return
    if cmd == "reg":
        ed.buffer.cursor_position = op[2]
        feed(ed, keys_of("\x00"))
        ed.buffer.cursor_position = op[3]
        feed(ed, keys_of("\x17" if op[4] else "\x1bw"))
        return
    if cmd == "regt":
        # a selection of any SelectionType, started through the Buffer API, then C-w / M-w
        ed.buffer.cursor_position = op[2]
        ed.buffer.start_selection(selection_type=TY[op[5]])
        ed.buffer.cursor_position = op[3]
        feed(ed, keys_of("\x17" if op[4] else "\x1bw"))
        return
    if cmd == "shift":
        # shift-selection: cursor := a, |k| times s-right / s-left, then the action key
        ed.buffer.cursor_position = op[2]
        for _ in range(abs(op[3])):
            feed(ed, keys_of("\x1b[1;2C" if op[3] > 0 else "\x1b[1;2D"))
        mid = snap(ed)
        act = op[4]
        feed(ed, keys_of(SHIFT_ACT_KEYS[act] if act != "ins" else chr(op[5])))
        return mid
    ks = arg_keys(a)
    if ks:
        # the first character after Escape and every further digit are separate key presses
        feed(ed, keys_of(ks[:2]))
        for ch in ks[2:]:
            feed(ed, keys_of(ch))
    if cmd == "ins":
        feed(ed, keys_of(chr(op[2])))
    else:
        feed(ed, keys_of(EMACS_KEYS[cmd]))


VI_KEYS = {"x": "x", "X": "X", "s": "s", "D": "D", "C": "C", "dd": "dd", "yy": "yy", "p": "p", "P": "P",
           "cc": "cc", "S": "S", "Y": "Y"}
VIS_KEY = {"c": "v", "l": "V", "b": "\x16"}


def regs_of(ed):
    return sorted((k, TYR[v.type], v.text) for k, v in ed.app.vi_state.named_registers.items())


def vi_apply(ed, op):
    """op = [count, cmd, params...]; the editor is in navigation mode before and after"""
    cnt, cmd = op[0], op[1]
    if cmd == "goto":
        ed.buffer.cursor_position = op[2]
        return
    if cmd == "vis":
        ty, a, b, act, reg = op[2:7]
        ed.buffer.cursor_position = a
        feed(ed, keys_of(VIS_KEY[ty]))
        ed.buffer.cursor_position = b
        if reg is not None:
            feed(ed, keys_of('"'))
            feed(ed, keys_of(chr(reg)))
        feed(ed, keys_of(act))
        return
    if cmd == "rp":
        feed(ed, keys_of('"'))
        feed(ed, keys_of(chr(op[2])))
        feed(ed, keys_of("P" if op[3] else "p"))
        return
    for ch in VI_KEYS[cmd]:
        feed(ed, keys_of(ch))
    if cmd in ("s", "C", "cc", "S"):
        feed(ed, keys_of("\x1b"))
        flush(ed)


def vi_count_keys(ed, op):
    if op[0] != "N" and op[1] not in ("goto", "vis"):
        for ch in str(op[0]):
            feed(ed, keys_of(ch))


def vi_op_line(op) -> str:
    if op[1] == "vis":
        ty, a, b, act, reg = op[2:7]
        return f"v N vis {ty} {a} {b} {act} {'N' if reg is None else reg}"
    # `S` is the second key of cc, `Y` the second key of yy
    return "v " + " ".join(str(x) for x in [op[0], {"S": "cc", "Y": "yy"}.get(op[1], op[1])] + list(op[2:]))


def vi_init_line(case) -> str:
    return (f"vinit {enc_str(case['text'])} {case['cur']} {case['max']} "
            + enc_ring([tuple(x) for x in case["ring"]]))


def vi_reset(case):
    from prompt_toolkit.key_binding.vi_state import InputMode
    ed = reset_ed(case["text"], case["cur"], True, case["max"], case["ring"])
    ed.app.vi_state.input_mode = InputMode.NAVIGATION
    return ed


def seqs_of(case):
    return case["seqs"] if "seqs" in case else [case["ops"]]


def emacs_op_line(op) -> str:
    return "e " + " ".join(str(x) for x in op)


def emacs_init_line(case) -> str:
    return (f"einit {enc_str(case['text'])} {case['cur']} {case['max']} "
            + enc_ring([tuple(x) for x in case["ring"]]))


# ------------------------------------------------------------------ protocol lines
def model_lines(case):
    k = case["kind"]
    out = []
    if k == "emacs":
        for seq in seqs_of(case):
            out.append(emacs_init_line(case))
            out += [emacs_op_line(op) for op in seq]
    elif k == "vi":
        for seq in seqs_of(case):
            out.append(vi_init_line(case))
            out += [vi_op_line(op) for op in seq]
    elif k == "paste":
        for q in case["qs"]:
            out.append(f"paste {enc_str(case['text'])} {q[0]} {q[1]} {enc_str(q[2])} {q[3]} {q[4]}")
    elif k == "ring":
        out.append(f"rinit {case['max']}")
        for op in case["ops"]:
            out.append("rrot" if op[0] == "rot" else f"rset {op[1]} {enc_str(op[2])}")
    elif k == "cut":
        for cur, orig, ty, vi in case["qs"]:
            out.append(f"cutp {enc_str(case['text'])} {cur} {orig} {ty} {vi}")
    elif k == "pyclip":
        out.append(f"pinit {enc_str(case['sys'])}")
        for op in case["ops"]:
            out.append({"set": lambda: f"pset {op[1]} {enc_str(op[2])}", "ext": lambda: f"pext {enc_str(op[1])}",
                        "rot": lambda: "prot", "get": lambda: "prot"}[op[0]]())
    elif k == "dyn":
        out.append("dinit " + " ".join(str(m) for m in case["maxes"]))
        for op in case["ops"]:
            out.append({"sel": lambda: f"dsel {'N' if op[1] is None else op[1]}",
                        "set": lambda: f"dset {op[1]} {enc_str(op[2])}", "rot": lambda: "drot"}[op[0]]())
    else:
        raise ValueError(k)
    return out


def enc_clip(d) -> str:
    return f"{TYR[d.type]} {enc_str(d.text)}"


def run_cut(text, cur, orig, ty, vi):
    """Document.cut_selection under the given editing mode, then paste_clipboard_data(VI_BEFORE) of
    the cut data at the cursor cut_selection left: (remaining doc, data, pasted doc | None)"""
    ed = get_ed()
    ed.app.editing_mode = EditingMode.VI if vi else EditingMode.EMACS
    doc = Document(text, cur, SelectionState(original_cursor_position=orig, type=TY[ty]))
    ranges = [(int(f), int(t)) for f, t in doc.selection_ranges()]
    rem, data = doc.cut_selection()
    try:
        back = Document(rem.text, rem.cursor_position).paste_clipboard_data(data, paste_mode=PasteMode.VI_BEFORE)
    except AssertionError:
        back = None
    run_cut.ranges = ranges
    return rem, data, back


def run_pyclip(case):
    cell = _SystemClipboard()
    cell.cell = case["sys"]
    c = pyperclip_clipboard(cell)
    out = [(cell.cell, c.get_data())]
    for op in case["ops"]:
        if op[0] == "set":
            c.set_data(ClipboardData(op[2], TY[op[1]]))
        elif op[0] == "ext":
            cell.copy(op[1])
        elif op[0] == "rot":
            c.rotate()
        out.append((cell.cell, c.get_data()))
    return out


def run_dyn(case):
    from prompt_toolkit.clipboard import DynamicClipboard
    clips = [InMemoryClipboard(max_size=m) for m in case["maxes"]]
    cur = [None]
    dyn = DynamicClipboard(lambda: None if cur[0] is None or cur[0] >= len(clips) else clips[cur[0]])
    out = []

    def snap_dyn():
        return (dyn.get_data(), [[(TYR[d.type], d.text) for d in c._ring] for c in clips])

    out.append(snap_dyn())
    for op in case["ops"]:
        if op[0] == "sel":
            cur[0] = op[1]
        elif op[0] == "set":
            # (alternate the two entry points: set_data and the set_text shortcut)
            if op[1] == "c" and len(op[2]) % 2:
                dyn.set_text(op[2])
            else:
                dyn.set_data(ClipboardData(op[2], TY[op[1]]))
        else:
            dyn.rotate()
        out.append(snap_dyn())
    return out


def snap(ed):
    b = ed.buffer
    d = b.document_before_paste
    sel = b.selection_state
    return {"text": b.text, "cur": b.cursor_position, "ring": ring_of(ed), "nset": ed.session.clipboard.n_set,
            "dbp": None if d is None else (d.text, d.cursor_position), "regs": regs_of(ed),
            "sel": None if sel is None else sel.original_cursor_position}


def trace_case(case):
    """drive the real editor once; per sequence: [init snapshot, (op, snapshot after the numeric
    argument keys, snapshot after the command), ...]"""
    vi = case["kind"] == "vi"
    out = []
    for seq in seqs_of(case):
        ed = vi_reset(case) if vi else reset_ed(case["text"], case["cur"], False, case["max"], case["ring"])
        tr = [snap(ed)]
        for op in seq:
            mid = None
            if vi:
                vi_count_keys(ed, op)
                mid = snap(ed)
                vi_apply(ed, op)
            else:
                mid = emacs_apply(ed, op)
            tr.append((op, mid, snap(ed)))
        out.append(tr)
    return out


_LAST = [None, None]


def get_trace(case):
    """impl_lines and oracle are evaluated one after the other on the same case: drive once"""
    if _LAST[0] is not case:
        _LAST[0], _LAST[1] = case, in_loop(lambda: trace_case(case))
    return _LAST[1]


def fmt_emacs(sn) -> str:
    d = sn["dbp"]
    dbp = "N" if d is None else f"D {enc_str(d[0])} {d[1]}"
    return f"{enc_str(sn['text'])} {sn['cur']} {enc_ring(sn['ring'])} {dbp}"


def fmt_vi(sn) -> str:
    regs = sn["regs"]
    rs = " ".join([str(len(regs))] + [f"{ord(k)} {ty} {enc_str(t)}" for k, ty, t in regs])
    return f"{enc_str(sn['text'])} {sn['cur']} {enc_ring(sn['ring'])} {rs}"


def impl_lines(case):
    k = case["kind"]
    out = []
    if k in ("emacs", "vi"):
        fmt = fmt_emacs if k == "emacs" else fmt_vi
        for tr in get_trace(case):
            out.append(fmt(tr[0]))
            out += [fmt(a) for _, _, a in tr[1:]]
    elif k == "paste":
        for cur, ty, data, mode, count in case["qs"]:
            try:
                d = Document(case["text"], cur).paste_clipboard_data(
                    ClipboardData(data, TY[ty]), paste_mode=MODE[mode], count=count)
                out.append(f"{enc_str(d.text)} {d.cursor_position}")
            except AssertionError:
                out.append("err")
    elif k == "cut":
        for cur, orig, ty, vi in case["qs"]:
            rem, data, back = run_cut(case["text"], cur, orig, ty, vi)
            rs = run_cut.ranges
            out.append(f"{len(rs)}" + "".join(f" {f} {t}" for f, t in rs)
                       + f" | {enc_str(rem.text)} {rem.cursor_position} {enc_clip(data)} | "
                       + ("err" if back is None else f"{enc_str(back.text)} {back.cursor_position}"))
    elif k == "pyclip":
        for cell, d in run_pyclip(case):
            out.append(f"{enc_str(cell)} {enc_clip(d)}")
    elif k == "dyn":
        for d, rings in run_dyn(case):
            out.append(f"{enc_clip(d)} {len(rings)}" + "".join(" " + enc_ring(r) for r in rings))
    elif k == "ring":
        c = InMemoryClipboard(max_size=case["max"])
        out.append("0")
        for op in case["ops"]:
            if op[0] == "rot":
                c.rotate()
            else:
                c.set_data(ClipboardData(op[2], TY[op[1]]))
            g = c.get_data()
            out.append(f"{enc_ring([(TYR[d.type], d.text) for d in c._ring])} {TYR[g.type]} {enc_str(g.text)}")
    return out


# ------------------------------------------------------------------ generators
ALPHA = ["a", " ", "\n", "."]
RAND_ALPHA = ["a", "b", "c", " ", " ", "\n", "\n", ".", "-", "_", "世", "é", "　", "\t", "x1"]
ARGS_SMALL = ["N", "-", -2, 0, 1, 2, 1000000]


def emacs_single_seqs(n, quick=False):
    """for a text of length n: every kill command with every argument class, followed by yank and
    yank-pop; every pair of word kills (repeat accumulation) followed by yank"""
    seqs = []
    args = ["N", "-", 0, 2, n + 2] if quick else ARGS_SMALL + [n + 2]
    for cmd in ("kl", "kw", "wr", "bk"):
        for a in args:
            seqs.append([[a, cmd], ["N", "y"], ["N", "yp"]] + ([] if quick else [["N", "yp"]]))
    seqs.append([["N", "ld"], ["N", "y"], ["N", "yp"]])
    seqs.append([[2, "ld"], ["N", "y"]])
    for c1 in ("kw", "wr", "bk", "kl"):
        for c2 in ("kw", "wr", "bk", "kl"):
            seqs.append([["N", c1], ["N", c2], ["N", "y"]])
    for c in ("kw", "wr", "bk"):
        seqs.append([["N", c], ["N", c], ["N", c], ["N", "y"], ["N", "yp"]])
        seqs.append([[2, c], ["N", c], ["N", "y"]])
        seqs.append([[n + 2, c], ["N", c], ["N", "y"]])
        seqs.append([[0, c], ["N", c], ["N", "y"]])
        seqs.append([["-", c], ["N", c], ["N", "y"]])
        seqs.append([["N", c], ["N", "goto", 0], ["N", c], ["N", "y"]])
    for a in ("N", "-", 0, 2):
        seqs.append([[a, "y"], ["N", "yp"], ["N", "yp"], ["N", "yp"]])
    seqs.append([["N", "yp"]])
    seqs.append([["N", "y"], ["N", "f"], ["N", "yp"]])
    seqs.append([["N", "y"], ["N", "kl"], ["N", "yp"]])
    for a in range(n + 1):
        for b in range(n + 1):
            seqs.append([["N", "reg", a, b, 1], ["N", "y"]])
            if not quick or a < b:
                seqs.append([["N", "reg", a, b, 0], ["N", "y"], ["N", "yp"]])
            # C-w / M-w on a LINES / BLOCK selection (Buffer.start_selection)
            for ty in "lb":
                if quick and (a + b) % 2 and a > b:
                    continue
                seqs.append([["N", "regt", a, b, 1, ty], ["N", "y"], ["N", "yp"]])
                if not quick or a <= b:
                    seqs.append([["N", "regt", a, b, 0, ty], ["N", "y"]])
            if not quick or a == b:
                seqs.append([["N", "regt", a, b, 1, "c"], ["N", "y"]])
    # kill-line / unix-line-discard repeated: every press is an entry of its own
    for c in ("kl", "ld"):
        seqs.append([["N", c], ["N", c], ["N", c], ["N", "y"], ["N", "yp"], ["N", "yp"]])
        seqs.append([["-", "kl"], ["N", c], ["N", "y"]])
    seqs.append([[0, "kl"], [0, "kl"], ["N", "y"]])
    # c-delete: the second key of kill-word
    for a in (["N", "-", 0, 2] if quick else ARGS_SMALL):
        seqs.append([[a, "kwc"], ["N", "y"], ["N", "yp"]])
    for c1, c2 in (("kwc", "kwc"), ("kw", "kwc"), ("kwc", "kw")):
        seqs.append([["N", c1], ["N", c2], ["N", "y"]])
        seqs.append([["N", c1], ["N", c2], ["N", c2], ["N", "y"]])
        seqs.append([[n + 2, c1], ["N", c2], ["N", c2], ["N", "y"]])
    # yank-pop that does not follow a yank; yank with arguments then yank-pop
    seqs.append([["N", "kl"], ["N", "yp"], ["N", "y"]])
    seqs.append([["N", "y"], ["N", "ins", 97], ["N", "yp"], ["N", "y"]])
    seqs.append([[3, "y"], ["N", "yp"], ["N", "yp"], ["N", "yp"], ["N", "yp"]])
    # C-y, then a command that edits or moves, then M-y: yank-pop must do nothing
    for c in ("kl", "kw", "kwc", "wr", "bk", "ld", "dc"):
        seqs.append([["N", "y"], ["N", c], ["N", "yp"], ["N", "y"]])
        seqs.append([["N", "y"], ["N", "yp"], ["N", c], ["N", "yp"]])
        seqs.append([["N", "goto", 0], ["N", "y"], ["N", c], ["N", "yp"]])
        if not quick:
            seqs.append([["N", "y"], [2, c], ["N", "yp"]])
            seqs.append([["N", "y"], ["-", c], ["N", "yp"]])
    for c in (["N", "ins", 97], ["N", "f"], ["N", "b"], ["N", "goto", 0], ["N", "goto", n]):
        seqs.append([["N", "y"], c, ["N", "yp"]])
        seqs.append([["N", "goto", n // 2], ["N", "y"], c, ["N", "yp"], ["N", "y"]])
    seqs.append([[2, "dc"], ["N", "y"]])
    seqs.append([["-", "dc"], ["N", "y"]])
    # shift selection
    for a in range(n + 1):
        for k in ([-2, -1, 1, 2] if quick else [-3, -2, -1, 1, 2, 3]):
            for act in (["cw"], ["mw"], ["bs"], ["cy"], ["ins", 122]):
                if quick and ((act[0] == "mw" and k != -1) or (act[0] == "ins" and k != 1)
                              or (act[0] == "cy" and abs(k) == 2)):
                    continue
                seqs.append([["N", "shift", a, k] + act, ["N", "y"]])
    return seqs


def rand_text(rng, n):
    return "".join(rng.choice(RAND_ALPHA) for _ in range(n))[: max(n, 0)]


def rand_arg(rng, n):
    return rng.choice(["N", "N", "N", "N", "N", "-", -1, -2, -3, 0, 1, 2, 3, n, n + 3, 999999, 1000000, -1000000])


def rand_emacs_op(rng, n):
    k = rng.randrange(20)
    a = rand_arg(rng, n)
    if k < 2:
        return [a, "kl"]
    if k < 3:
        return [a, "ld"]
    if k < 7:
        return [a, "kw"]
    if k < 9:
        return [a, "wr"]
    if k < 11:
        return [a, "bk"]
    if k < 13:
        # (yank repeats the text `arg` times: keep the argument small; >= 10^6 counts as 1)
        return [rng.choice(["-", -2, 0, 2, 3, 1000000]) if rng.random() < 0.3 else "N", "y"]
    if k < 15:
        return ["N", "yp"]
    if k < 16:
        return [rng.choice(["N", 2, "-", n]), rng.choice(["f", "b"])]
    if k < 17:
        return [rng.choice(["N", "N", 2, 0]), "ins", ord(rng.choice(["a", " ", ".", "z", "世"]))]
    if k < 18:
        return ["N", "goto", rng.randrange(0, n + 2)]
    j = rng.randrange(6)
    if j < 2:
        return ["N", "reg", rng.randrange(0, n + 2), rng.randrange(0, n + 2), rng.randrange(2)]
    if j < 3:
        return ["N", "regt", rng.randrange(0, n + 2), rng.randrange(0, n + 2), rng.randrange(2), rng.choice("clb")]
    if j < 4:
        return [a, rng.choice(["kwc", "dc"])]
    act = rng.choice([["cw"], ["mw"], ["bs"], ["cy"], ["ins", ord(rng.choice("az "))]])
    # (at least one shift-arrow press: with none, the op would be "move the cursor through the API, then press
    #  a key", which can make that key a repeat of the previous one although the cursor moved in between)
    return ["N", "shift", rng.randrange(0, n + 2), rng.choice([-3, -2, -1, 1, 2, 3, max(n, 1)])] + act


def rand_ring(rng, maxsize):
    k = rng.randrange(0, maxsize + 1)
    return [["c", rand_text(rng, rng.randrange(0, 4))] for _ in range(k)]


_GENERATED = set()
_CASES_CALLS = [0]
SEARCH_CAP = 15000


def cases(tier, rng):
    """exhaustive small scope + seeded random; when core asks again for the same tier (source-change
    escalation with extra seeds) only the random part is generated again.  The first call is the run
    itself; when a proof or the correspondence broke and no violation was seen, core calls
    cases("thorough") once more (oracle only): that search is capped to an evenly spread sample of the
    thorough generator so that the verdict comes within minutes."""
    _CASES_CALLS[0] += 1
    again = tier in _GENERATED
    _GENERATED.add(tier)
    out = []
    for c in cases_(tier, rng):
        if again and ("seqs" in c or (c["kind"] in ("paste", "cut") and len(c["qs"]) > 8) or c.get("exh")):
            continue
        out.append(c)
    if tier == "thorough" and _CASES_CALLS[0] > 1 and len(out) > SEARCH_CAP:
        k = -(-len(out) // SEARCH_CAP)
        return out[::k]
    return out


def cases_(tier, rng):
    quick = tier == "quick"
    # ---- emacs, exhaustive small scope
    maxlen = 3 if quick else 4
    for n in range(maxlen + 1):
        seqs = emacs_single_seqs(n, quick)
        for tup in itertools.product(ALPHA[:3] if quick and n == 3 else ALPHA, repeat=n):
            text = "".join(tup)
            for cur in range(n + 1):
                yield {"kind": "emacs", "text": text, "cur": cur, "max": 3,
                       "ring": [["c", "R1"], ["c", "r2"]], "seqs": seqs}
    # ---- emacs, random sequences
    for _ in range(1500 if quick else 40000):
        n = rng.choice([0, 1, 2, 3, 5, 8, 13, 30])
        text = rand_text(rng, n)
        cur = rng.choice([0, len(text), rng.randrange(0, len(text) + 1)])
        mx = rng.choice([1, 2, 3, 3, 5, 60])
        ops = [rand_emacs_op(rng, len(text)) for _ in range(rng.randrange(1, 14))]
        yield {"kind": "emacs", "text": text, "cur": cur, "max": mx, "ring": rand_ring(rng, min(mx, 4)),
               "ops": ops}
    # ---- vi, exhaustive small scope
    vmax = 3 if quick else 4
    for n in range(vmax + 1):
        seqs = vi_single_seqs(n, quick)
        for tup in itertools.product(VI_ALPHA, repeat=n):
            text = "".join(tup)
            for cur in range(n + 1):
                yield {"kind": "vi", "text": text, "cur": cur, "max": 3,
                       "ring": [["c", "R1"], ["l", "r2"]], "seqs": seqs}
    # ---- vi, random sequences
    for _ in range(1500 if quick else 40000):
        n = rng.choice([0, 1, 2, 3, 5, 8, 13, 30])
        text = rand_text(rng, n)
        cur = rng.choice([0, len(text), rng.randrange(0, len(text) + 1)])
        mx = rng.choice([1, 2, 3, 5, 60])
        ring = [[rng.choice("clb"), rand_text(rng, rng.randrange(0, 4))] for _ in range(rng.randrange(0, min(mx, 3) + 1))]
        ops = [rand_vi_op(rng, len(text)) for _ in range(rng.randrange(1, 12))]
        yield {"kind": "vi", "text": text, "cur": cur, "max": mx, "ring": ring, "ops": ops}
    # ---- ring API
    for _ in range(200 if quick else 3000):
        mx = rng.choice([1, 2, 3, 4, 60])
        ops = []
        for _ in range(rng.randrange(1, 12)):
            if rng.random() < 0.4:
                ops.append(["rot"])
            else:
                ops.append(["set", rng.choice("clb"), rand_text(rng, rng.randrange(0, 3))])
        yield {"kind": "ring", "max": mx, "ops": ops}
    # ---- paste API
    yield from paste_cases(tier, rng)
    # ---- Document.cut_selection API (+ paste-back), both editing modes, all selection types
    yield from cut_cases(tier, rng)
    # ---- PyperclipClipboard over an abstract system clipboard cell, DynamicClipboard
    yield from clip_cases(tier, rng)


VI_ALPHA = ["a", " ", "\n"]
REGS = [ord("a"), ord("z"), ord("0"), ord("9"), ord("A"), ord("%")]


def vi_single_seqs(n, quick=False):
    seqs = []
    counts = ["N", 2, n + 2] if quick else ["N", 1, 2, n + 2, 1000000]
    for cmd in ("x", "X", "s", "dd", "yy"):
        for c in counts:
            seqs.append([[c, cmd], ["N", "P"]])
            seqs.append([[c, cmd], ["N", "p"]])
    for cmd in ("D", "C"):
        seqs.append([["N", cmd], ["N", "p"]])
        seqs.append([[2, cmd], ["N", "P"]])
    for cmd in ("cc", "S"):
        seqs.append([["N", cmd], ["N", "P"]])
        seqs.append([[2, cmd], ["N", "p"]])
    seqs.append([[2, "Y"], ["N", "p"]])
    for c in ("N", 2, 3):
        seqs.append([[c, "p"]])
        seqs.append([[c, "P"]])
    seqs.append([["N", "rp", ord("a"), 0]])
    for ty in "clb":
        for a in range(n + 1):
            for b in range(n + 1):
                if quick and a > b and ((a + b) % 2 or n == 3):
                    continue
                seqs.append([["N", "vis", ty, a, b, "x", None], ["N", "P"]])
                seqs.append([["N", "vis", ty, a, b, "d", None], ["N", "P"]])
                seqs.append([["N", "vis", ty, a, b, "y", ord("a")], ["N", "rp", ord("a"), 1], [2, "rp", ord("a"), 0]])
                if not quick:
                    seqs.append([["N", "vis", ty, a, b, "y", None], [2, "p"]])
                    seqs.append([["N", "vis", ty, a, b, "d", ord("q")], ["N", "rp", ord("q"), 0]])
    return seqs


def rand_vi_op(rng, n):
    k = rng.randrange(20)
    c = rng.choice(["N", "N", "N", 1, 2, 3, max(n, 1), n + 2, 999999, 1000000])
    if k < 7:
        return [c, rng.choice(["x", "X", "s", "D", "C", "dd", "yy", "cc", "S", "Y"])]
    if k < 10:
        return [rng.choice(["N", "N", 2, 3]), rng.choice(["p", "P"])]
    if k < 12:
        return [rng.choice(["N", "N", 2]), "rp", rng.choice(REGS), rng.randrange(2)]
    if k < 14:
        return ["N", "goto", rng.randrange(0, n + 2)]
    act = rng.choice(["x", "y", "d", "y", "d"])
    reg = None if act == "x" or rng.random() < 0.4 else rng.choice(REGS)
    return ["N", "vis", rng.choice("clb"), rng.randrange(0, n + 2), rng.randrange(0, n + 2), act, reg]


PASTE_DATA = ["", "x", "xy", "x\ny", "\n", "x\n", "\nx", "x\ny\nz"]
CUT_ALPHA = ["a", "b", "\n"]


def cut_cases(tier, rng):
    quick = tier == "quick"
    maxlen = 4 if quick else 5
    for n in range(maxlen + 1):
        for tup in itertools.product(CUT_ALPHA, repeat=n):
            text = "".join(tup)
            if quick and n == 4 and text.count("\n") == 0:
                continue
            qs = [[cur, orig, ty, vi] for cur in range(n + 1) for orig in range(n + 1) for ty in "clb"
                  for vi in (1, 0)]
            yield {"kind": "cut", "text": text, "qs": qs}
    for _ in range(300 if quick else 6000):
        n = rng.choice([2, 5, 9, 14, 25])
        # (short lines, so that blocks cross lines of different lengths)
        text = "".join(rng.choice(["a", "b", "c", " ", "\n", "\n", "世", "\t"]) for _ in range(n))
        qs = []
        for _ in range(8):
            qs.append([rng.randrange(0, n + 1), rng.randrange(0, n + 1), rng.choice("clb"), rng.randrange(2)])
        yield {"kind": "cut", "text": text, "qs": qs}


def clip_cases(tier, rng):
    quick = tier == "quick"
    texts = ["", "a", "a\nb", "b\n", "\n", "ab"]
    # exhaustive: every (type, text) copied by us, followed by every external text, and back
    for ty in "clb":
        for t in texts:
            for x in texts:
                yield {"kind": "pyclip", "sys": x, "exh": True,
                       "ops": [["get"], ["set", ty, t], ["get"], ["ext", x], ["rot"], ["ext", t], ["get"],
                               ["set", "c", x], ["ext", t]]}
    for _ in range(150 if quick else 3000):
        ops = []
        pool = [rand_text(rng, rng.randrange(0, 4)) for _ in range(3)]
        for _ in range(rng.randrange(1, 10)):
            j = rng.randrange(5)
            if j < 2:
                ops.append(["set", rng.choice("clb"), rng.choice(pool)])
            elif j < 4:
                ops.append(["ext", rng.choice(pool)])
            else:
                ops.append(["rot"])
        yield {"kind": "pyclip", "sys": rng.choice(pool), "ops": ops}
    for _ in range(150 if quick else 3000):
        k = rng.randrange(1, 4)
        maxes = [rng.choice([1, 2, 3, 60]) for _ in range(k)]
        ops = []
        for _ in range(rng.randrange(1, 12)):
            j = rng.randrange(6)
            if j < 2:
                ops.append(["sel", rng.choice([None] + list(range(k)))])
            elif j < 5:
                ops.append(["set", rng.choice("clb"), rand_text(rng, rng.randrange(0, 3))])
            else:
                ops.append(["rot"])
        yield {"kind": "dyn", "maxes": maxes, "ops": ops}


def paste_cases(tier, rng):
    quick = tier == "quick"
    maxlen = 3 if quick else 4
    counts = [-1, 0, 1, 2] if quick else [-1, 0, 1, 2, 3]
    datas = PASTE_DATA[:6] if quick else PASTE_DATA
    alpha = ["a", " ", "\n"]
    for n in range(maxlen + 1):
        for tup in itertools.product(alpha, repeat=n):
            text = "".join(tup)
            qs = []
            for cur in range(n + 1):
                for ty in "clb":
                    for data in datas:
                        for mode in "eBA":
                            for count in counts:
                                qs.append([cur, ty, data, mode, count])
            yield {"kind": "paste", "text": text, "qs": qs}
    for _ in range(300 if quick else 6000):
        n = rng.choice([0, 1, 2, 5, 9, 20])
        text = rand_text(rng, n)
        qs = []
        for _ in range(8):
            qs.append([rng.randrange(0, len(text) + 1), rng.choice("clb"), rand_text(rng, rng.randrange(0, 6)),
                       rng.choice("eBA"), rng.choice([-2, -1, 0, 1, 1, 2, 3, 7])])
        yield {"kind": "paste", "text": text, "qs": qs}


# ------------------------------------------------------------------ oracle
# The property restated over what the REAL editor did (independent of the Lean model).
KILL_NAME = {"kl": "kill-line", "ld": "unix-line-discard", "kw": "kill-word", "wr": "unix-word-rubout",
             "bk": "backward-kill-word", "kwc": "kill-word"}
# keys whose repeated presses accumulate (one Binding object per key: M-d and c-delete are different keys)
ACCUMULATING = ("kw", "wr", "bk", "kwc")


def arg_value(a) -> int:
    """the numeric argument a command sees (none = 1, M-- = -1, a million or more = 1)"""
    if a == "N":
        return 1
    if a == "-":
        return -1
    return 1 if int(a) >= 1000000 else int(a)


def paste_spec(T, c, ty, data, mode, n):
    """text after pasting `data` `n` times at cursor c; n <= 0: nothing is inserted, the text is
    unchanged (for every data type: no padding, no added line)"""
    if n <= 0:
        return T
    if ty == "c":
        q = min(c + 1, len(T)) if mode == "A" else c
        return T[:q] + data * n + T[q:]
    lines = T.split("\n")
    r = T[:c].count("\n")
    if ty == "l":
        pos = r if mode == "B" else r + 1
        return "\n".join(lines[:pos] + [data] * n + lines[pos:])
    col = c - (T.rfind("\n", 0, c) + 1) + (0 if mode == "B" else 1)
    for i, dl in enumerate(data.split("\n")):
        while len(lines) <= r + i:
            lines.append("")
        ln = lines[r + i] + " " * (col - len(lines[r + i]))
        lines[r + i] = ln[:col] + dl * n + ln[col:]
    return "\n".join(lines)


def cut_spec(T, cur, orig, ty, vi):
    """the property's reading of a cut, for the cases it speaks about: (remaining text, clipboard
    text, paste-back expectation or None).  CHARACTERS: the characters between the two ends (upper
    end included in Vi mode).  LINES (Vi mode): the whole lines lo..hi.  BLOCK (Vi mode): the cells of
    rows r1..r2 in columns c1..c2 (rows shorter than c1 have no cell)."""
    lo, hi = sorted([cur, orig])
    lines = T.split("\n")
    if ty == "c":
        e = hi + 1 if vi else hi
        return T[:lo] + T[e:], T[lo:e], None
    r1, r2 = T[:lo].count("\n"), T[:hi].count("\n")
    if ty == "l":
        if not vi:
            return None
        nl_after = T.find("\n", hi) >= 0
        rest = lines[:r1] + lines[r2 + 1:]
        if nl_after:
            rem = "\n".join(rest)
            back = T
        else:
            # the selection reaches the end of the text: the newline before it stays
            rem = "".join(l + "\n" for l in lines[:r1])
            back = T + "\n"
        return rem, "\n".join(lines[r1:r2 + 1]), back
    if not vi:
        return None
    cA, cB = sorted([lo - (T.rfind("\n", 0, lo) + 1), hi - (T.rfind("\n", 0, hi) + 1)])
    segs, rest, full = [], list(lines), True
    for rr in range(r1, r2 + 1):
        if len(lines[rr]) >= cA:
            segs.append(lines[rr][cA:cB + 1])
            rest[rr] = lines[rr][:cA] + lines[rr][cB + 1:]
        else:
            full = False
    return "\n".join(rest), "\n".join(segs), ("corner" if full else None)


def minimal(case, ops) -> str:
    """the shortest case that reproduces a violation found inside a multi-sequence case
    (save it as JSON and run ./check C09 --replay <file>)"""
    import json
    mc = {k: case[k] for k in ("kind", "text", "cur", "max", "ring")}
    mc["ops"] = list(ops)
    return " || minimal replay case: " + json.dumps(mc)


def _frame(T, T2, c2):
    """T2 is T with one span removed at position c2: return the span or None"""
    d = len(T) - len(T2)
    if d < 0 or c2 > len(T2) or T[:c2] != T2[:c2] or T[c2 + d:] != T2[c2:]:
        return None
    return T[c2:c2 + d]


def _pushed(b, a, maxsize, bad, site):
    """number of set_data calls; checks that older ring entries are kept in order"""
    k = a["nset"] - b["nset"]
    if k == 0:
        if a["ring"] != b["ring"]:
            bad(site, "ring changed without set_data", "ring")
    elif k == 1:
        if not a["ring"] or a["ring"] != ([a["ring"][0]] + b["ring"])[:maxsize]:
            bad(site, "older ring entries lost or reordered", "ring")
    else:
        bad(site, "more than one set_data", "ring")
    if len(a["ring"]) > maxsize:
        bad(site, "ring longer than max_size", "ring")
    return k


def oracle_emacs_seq(case, tr, bad0):
    maxsize = case["max"]
    b = tr[0]
    prev = None          # (cmd, pushed) of the previous op
    origin = None        # text before the first kill of the current run of accumulating kills
    done = []
    live = False         # the last command that changed text or cursor was a yank / yank-pop
    for op, mid, a in tr[1:]:
        arg, cmd = op[0], op[1]
        done.append(op)
        b_in = b
        if cmd == "shift" and mid["sel"] is None and op[4] in ("cw", "cy"):
            # the shift-arrow presses left no selection: C-w / C-y have their usual meaning
            # (unix-word-rubout / yank), pressed after other keys (so never a repeat)
            if (mid["text"], mid["ring"]) != (b["text"], b["ring"]):
                bad0("emacs.shift-selection " + op[4], "frame", f"moving the cursor changed text or ring: {op}")
            b = mid
            cmd, arg = ("wr" if op[4] == "cw" else "y"), "N"
            if op[3] != 0:
                prev, origin = None, None
        T, c, T2, c2 = b["text"], b["cur"], a["text"], a["cur"]

        def bad(site, cond, what, op=op, T=T, c=c, T2=T2, c2=c2, b=b, a=a):
            bad0(site, cond, f"{what}: before text={T!r} cur={c} ring={b['ring']} op={op} -> "
                             f"text={T2!r} cur={c2} ring={a['ring']}" + minimal(case, done))

        if not (0 <= c2 <= len(T2)):
            bad("Buffer", "cursor out of range", "cursor")
        this = (cmd, False)
        if cmd in KILL_NAME:
            site = "named_commands." + KILL_NAME[cmd]
            n = arg_value(arg)
            X = _frame(T, T2, c2)
            k = _pushed(b, a, maxsize, bad, site)
            if X is None:
                bad(site, "frame", "text outside one removed span changed")
            else:
                if not (c2 == c or c2 + len(X) == c):
                    bad(site, "frame", "removed span is not at the cursor")
                line_before = T[T.rfind("\n", 0, c) + 1:c]
                if cmd == "kl":
                    rest = T[c:].split("\n")[0]
                    want = line_before if n < 0 else ("\n" if T[c:c + 1] == "\n" else rest)
                    if X != want:
                        bad(site, "span", "kill-line span")
                col0 = cmd == "ld" and c > 0 and T[c - 1] == "\n"
                if cmd == "ld" and X != ("\n" if col0 else line_before):
                    bad(site, "span", "unix-line-discard span")
                if k == 1:
                    this = (cmd, True)
                    new = a["ring"][0] if a["ring"] else None
                    same = prev is not None and prev[0] == cmd and cmd in ACCUMULATING and arg == "N"
                    consecutive = same and prev[1]
                    if consecutive:
                        want = b["ring"][0][1] + X if cmd in ("kw", "kwc") else X + b["ring"][0][1]
                    else:
                        want = X
                        origin = T
                    if col0:
                        bad(site, "column 0 touched the ring", "the column-0 join must not touch the ring")
                    elif new is None or new != ("c", want):
                        if same and not prev[1]:
                            bad(site, "repeat after a kill-word that killed nothing",
                                "ring top is not the removed text")
                        elif consecutive:
                            bad(site, "consecutive kills do not accumulate in text order", "ring top")
                        else:
                            bad(site, "ring top != removed text", "ring top")
                else:
                    origin = None
                    if X != "" and not col0:
                        bad(site, "removed text not on the ring", "removed text lost")
        elif cmd == "y":
            n = arg_value(arg)
            top = b["ring"][0] if b["ring"] else ("c", "")
            if a["ring"] != b["ring"]:
                bad("named_commands.yank", "ring changed", "ring")
            if T2 != paste_spec(T, c, top[0], top[1], "e", n):
                bad("named_commands.yank", "inserted text != ring top x count", "yank")
            if n <= 0 and c2 != c:
                bad("named_commands.yank", "non-positive count moved the cursor", "yank")
            if a["dbp"] != (T, c):
                bad("named_commands.yank", "document_before_paste", "snapshot for yank-pop")
            if prev is not None and prev[1] and prev[0] in KILL_NAME and n == 1 and origin is not None \
                    and T2 != origin:
                bad("named_commands.yank", "yank right after kill does not restore the text",
                    f"text before the kill(s) was {origin!r}")
        elif cmd == "yp" and not live:
            # yank-pop "only works following yank or yank-pop": after any other command that changed the
            # text or the cursor (or with no yank at all) it must do nothing
            if (T2, c2, a["ring"]) != (T, c, b["ring"]):
                bad("yank-pop", "not preceded by a yank",
                    "M-y changed text, cursor or ring although the previous command was not a yank / yank-pop")
        elif cmd == "yp":
            D = b["dbp"]
            if prev is not None and prev[0] in ("y", "yp+") and D is None:
                bad("named_commands.yank-pop", "no document_before_paste after yank", "yank-pop")
            if D is not None:
                this = ("yp+", False)
            if D is None:
                if (T2, c2, a["ring"]) != (T, c, b["ring"]):
                    bad("named_commands.yank-pop", "changed something without a previous yank", "yank-pop")
            else:
                want_ring = b["ring"][1:] + b["ring"][:1]
                if a["ring"] != want_ring:
                    bad("named_commands.yank-pop", "ring not rotated by one / entry lost", "ring")
                top = want_ring[0] if want_ring else ("c", "")
                if T2 != paste_spec(D[0], D[1], top[0], top[1], "e", 1):
                    bad("named_commands.yank-pop", "previous yank not replaced by the next ring entry", "yank-pop")
                if a["dbp"] != D:
                    bad("named_commands.yank-pop", "document_before_paste", "snapshot for yank-pop")
        elif cmd == "reg":
            if T != "":
                lo, hi = sorted([min(op[2], len(T)), min(op[3], len(T))])
                site = "emacs.kill-region" if op[4] else "emacs.copy-region"
                k = _pushed(b, a, maxsize, bad, site)
                if k != 1 or a["ring"][0] != ("c", T[lo:hi]):
                    bad(site, "ring top != region text", "region")
                if op[4] and (T2 != T[:lo] + T[hi:] or c2 != lo):
                    bad(site, "frame", "kill-region removed something else")
                if not op[4] and T2 != T:
                    bad(site, "frame", "copy-region changed the text")
                if op[4] and k == 1:
                    this = (cmd, True)
                    origin = T
        elif cmd == "regt":
            ty = op[5]
            site = ("emacs.kill-region" if op[4] else "emacs.copy-region") + f" ({TY[ty].name})"
            k = _pushed(b, a, maxsize, bad, site)
            if k != 1 or a["ring"][0][0] != ty:
                bad(site, "the cut data was not put on the ring with its type", "region")
            if not op[4] and T2 != T:
                bad(site, "frame", "copy-region changed the text")
            if ty == "c" and k == 1:
                lo, hi = sorted([min(op[2], len(T)), min(op[3], len(T))])
                if a["ring"][0] != ("c", T[lo:hi]) or (op[4] and (T2 != T[:lo] + T[hi:] or c2 != lo)):
                    bad(site, "ring top != region text", "region")
        elif cmd == "shift":
            m = mid
            site = "emacs.shift-selection " + op[4]
            act = op[4]
            Tm, cm = m["text"], m["cur"]
            if Tm != T or m["ring"] != b["ring"]:
                bad(site, "frame", "moving the cursor changed text or ring")
            if m["sel"] is not None:
                lo, hi = sorted([m["sel"], cm])
                X = Tm[lo:hi]
                k = _pushed(m, a, maxsize, bad, site)
                if act in ("cw", "mw"):
                    if k != 1 or a["ring"][0] != ("c", X):
                        bad(site, "ring top != selected text", "region")
                    if T2 != (Tm[:lo] + Tm[hi:] if act == "cw" else Tm):
                        bad(site, "frame", "removed something else than the selection")
                    if act == "cw":
                        this = ("reg", True)
                        origin = Tm
                else:
                    if k != 0:
                        bad(site, "ring changed", "ring")
                    top = b["ring"][0][1] if b["ring"] else ""
                    ins = {"bs": "", "cy": top if not b["ring"] or b["ring"][0][0] == "c" else None,
                           "ins": chr(op[5]) if act == "ins" else ""}[act]
                    if ins is not None and T2 != Tm[:lo] + ins + Tm[hi:]:
                        bad(site, "frame", "the selection was not replaced by exactly the inserted text")
            else:
                # no selection: backspace / M-w / a character have their usual meaning, none touches the ring
                if _pushed(m, a, maxsize, bad, site) != 0:
                    bad(site, "ring changed", "ring")
        else:
            if a["ring"] != b["ring"]:
                bad("named_commands." + cmd, "ring changed", "ring")
        if cmd not in KILL_NAME and not (cmd == "reg" and op[4]) and not (cmd == "shift" and this[1]):
            origin = origin if cmd == "y" else None
        # which commands keep the "last command was a yank" state alive
        if cmd == "y" or (op[1] == "shift" and op[4] == "cy"):
            live = True
        elif cmd != "yp" and (a["text"], a["cur"]) != (b_in["text"], b_in["cur"]):
            live = False
        prev = this
        b = a


def vi_count(a) -> int:
    return 1 if a == "N" or int(a) >= 1000000 else int(a)


def oracle_vi_seq(case, tr, bad0):
    maxsize = case["max"]
    done = []
    for op, b, a in tr[1:]:
        cnt, cmd = op[0], op[1]
        T, c, T2 = b["text"], b["cur"], a["text"]
        done.append(op)

        def bad(site, cond, what):
            bad0(site, cond, f"{what}: before text={T!r} cur={c} ring={b['ring']} regs={b['regs']} op={op} -> "
                             f"text={T2!r} cur={a['cur']} ring={a['ring']} regs={a['regs']}" + minimal(case, done))

        if not (0 <= a["cur"] <= len(T2)):
            bad("Buffer", "cursor out of range", "cursor")
        n = vi_count(cnt)
        lines = T.split("\n")
        r = T[:c].count("\n")
        ls = T.rfind("\n", 0, c) + 1
        le = T.find("\n", c)
        le = len(T) if le < 0 else le
        site = "vi " + cmd
        if cmd in ("x", "X", "s", "D", "C"):
            if cmd == "x":
                k = min(n, le - c)
                lo, hi = c, c + k
            elif cmd == "X":
                k = min(n, c - ls)
                lo, hi = c - k, c
            elif cmd == "s":
                lo, hi = c, min(c + n, len(T))
            else:
                lo, hi = c, le
            X = T[lo:hi]
            if T2 != T[:lo] + T[hi:]:
                bad(site, "frame", "removed something else than the addressed characters")
            k = _pushed(b, a, maxsize, bad, site)
            if k == 1 and a["ring"][0] != ("c", X):
                bad(site, "register != removed text", "register")
            if k == 0 and X != "":
                bad(site, "removed text not stored", "register")
            if a["regs"] != b["regs"]:
                bad(site, "named registers changed", "registers")
        elif cmd in ("cc", "S"):
            # the whole line is stored (LINES); what is removed is the line after its leading whitespace
            line = T[ls:le]
            ws = line[:len(line) - len(line.lstrip())]
            k = _pushed(b, a, maxsize, bad, site)
            if k != 1 or a["ring"][0] != ("l", line):
                bad(site, "register != the current line", "register")
            if T2 != T[:ls] + ws + T[le:]:
                bad(site, "frame", "removed something else than the line after its indentation")
            if a["regs"] != b["regs"]:
                bad(site, "named registers changed", "registers")
        elif cmd in ("dd", "yy", "Y"):
            if cmd == "Y":
                cmd = "yy"
            stored = ("l", "\n".join(lines[r:r + n]))
            k = _pushed(b, a, maxsize, bad, site)
            if k != 1 or a["ring"][0] != stored:
                bad(site, "register != the addressed lines", "register")
            want = T if cmd == "yy" else "\n".join(lines[:r] + lines[r + n:])
            if T2 != want:
                bad(site, "removed more than the stored lines" if cmd == "dd" else "frame", "text")
        elif cmd in ("p", "P", "rp"):
            if cmd == "rp":
                regs = {k_: (ty, t) for k_, ty, t in b["regs"]}
                ch = chr(op[2])
                data = regs.get(ch) if ch in "abcdefghijklmnopqrstuvwxyz0123456789" else None
                mode = "B" if op[3] else "A"
            else:
                data = b["ring"][0] if b["ring"] else ("c", "")
                mode = "B" if cmd == "P" else "A"
            want = T if data is None else paste_spec(T, c, data[0], data[1], mode, n)
            if T2 != want:
                bad(site, "pasted text != register x count", "paste")
            if a["ring"] != b["ring"] or a["regs"] != b["regs"]:
                bad(site, "registers changed by paste", "registers")
        elif cmd == "vis":
            ty, pa, pb, act, reg = op[2:7]
            lo, hi = sorted([min(pa, len(T)), min(pb, len(T))])
            site = f"vi visual {act}"
            r1, r2 = T[:lo].count("\n"), T[:hi].count("\n")
            valid_reg = reg is None or chr(reg) in "abcdefghijklmnopqrstuvwxyz0123456789"
            if reg is None:
                k = _pushed(b, a, maxsize, bad, site)
                got = a["ring"][0] if k == 1 else None
                if a["regs"] != b["regs"]:
                    bad(site, "named registers changed", "registers")
            else:
                if a["ring"] != b["ring"]:
                    bad(site, "unnamed register changed", "registers")
                br = {k_: (t_, x_) for k_, t_, x_ in b["regs"]}
                ar = {k_: (t_, x_) for k_, t_, x_ in a["regs"]}
                ch = chr(reg)
                if {k_: v for k_, v in ar.items() if k_ != ch} != {k_: v for k_, v in br.items() if k_ != ch}:
                    bad(site, "other named registers changed", "registers")
                got = ar.get(ch) if (ar.get(ch) != br.get(ch) or ch not in br) else None
                if got is None and ch in ar and ar.get(ch) == br.get(ch):
                    got = "same"
            if ty == "c" or ty == "l":
                if ty == "c":
                    X = T[lo:hi + 1]
                    stored = ("c", X)
                    remaining = T[:lo] + T[hi + 1:]
                    must_store = X != "" or act == "x"
                else:
                    s1 = T.rfind("\n", 0, lo) + 1
                    e2 = T.find("\n", hi)
                    e2 = len(T) if e2 < 0 else e2 + 1
                    stored = ("l", "\n".join(lines[r1:r2 + 1]))
                    remaining = T[:s1] + T[e2:]
                    must_store = True
                if T2 != (T if act == "y" else remaining) and not (act == "d" and not valid_reg and T2 == T):
                    # (`"Ad` with a register name the editor does not have: deleting, or doing nothing)
                    bad(site, "frame", "removed something else than the selection")
                if valid_reg:
                    if must_store and got is None:
                        bad(site, "removed text not stored" if act != "y" else "yanked text not stored", "register")
                    if got not in (None, "same") and got != stored:
                        bad(site, "register != selected text", "register")
                    if got == "same" and must_store and br.get(chr(reg)) != stored:
                        bad(site, "register != selected text", "register")
            else:
                # BLOCK: rows r1..r2, columns cA..cB (both included); rows shorter than cA have no cell
                cA, cB = sorted([lo - (T.rfind("\n", 0, lo) + 1), hi - (T.rfind("\n", 0, hi) + 1)])
                segs, rest = [], list(lines)
                for rr in range(r1, r2 + 1):
                    if len(lines[rr]) >= cA:
                        segs.append(lines[rr][cA:cB + 1])
                        rest[rr] = lines[rr][:cA] + lines[rr][cB + 1:]
                stored = ("b", "\n".join(segs))
                if T2 != (T if act == "y" else "\n".join(rest)) and not (act == "d" and not valid_reg and T2 == T):
                    bad(site, "frame", "removed something else than the selected block")
                must_store = stored[1] != "" or act == "x"
                if valid_reg:
                    if must_store and got is None:
                        bad(site, "removed text not stored" if act != "y" else "yanked text not stored", "register")
                    if got not in (None, "same") and got != stored:
                        bad(site, "register != selected text", "register")
                    if got == "same" and must_store and br.get(chr(reg)) != stored:
                        bad(site, "register != selected text", "register")
        if len(a["ring"]) > maxsize:
            bad(site, "ring longer than max_size", "ring")


def oracle(case):
    v = []
    seen = set()

    def bad0(site, cond, msg):
        sig = f"{site} | {cond}"
        if sig not in seen:
            seen.add(sig)
            v.append({"signature": sig, "msg": msg})

    k = case["kind"]
    if k == "emacs":
        for tr in get_trace(case):
            oracle_emacs_seq(case, tr, bad0)
    elif k == "vi":
        for tr in get_trace(case):
            oracle_vi_seq(case, tr, bad0)
    elif k == "paste":
        T = case["text"]
        for cur, ty, data, mode, count in case["qs"]:
            try:
                d = Document(T, cur).paste_clipboard_data(ClipboardData(data, TY[ty]), paste_mode=MODE[mode],
                                                          count=count)
            except AssertionError:
                bad0("Document.paste_clipboard_data", "raises", f"text={T!r} q={[cur, ty, data, mode, count]}")
                continue
            if count <= 0 and (d.text, d.cursor_position) != (T, cur):
                bad0("Document.paste_clipboard_data", "non-positive count changed the document",
                     f"text={T!r} cur={cur} data={data!r} type={ty} mode={mode} count={count} -> "
                     f"{d.text!r} cur={d.cursor_position}")
                continue
            if d.text != paste_spec(T, cur, ty, data, mode, count):
                bad0("Document.paste_clipboard_data", f"{TY[ty].name} data not inserted unchanged x count",
                     f"text={T!r} cur={cur} data={data!r} mode={mode} count={count} -> {d.text!r}")
    elif k == "cut":
        T = case["text"]
        for cur, orig, ty, vi in case["qs"]:
            spec = cut_spec(T, cur, orig, ty, vi)
            if spec is None:
                continue          # LINES / BLOCK selections in Emacs mode: API only, correspondence only
            rem, data, back = run_cut(T, cur, orig, ty, vi)
            site = f"Document.cut_selection ({TY[ty].name})"
            q = f"text={T!r} cursor={cur} anchor={orig} vi={vi} -> remaining={rem.text!r} cursor={rem.cursor_position} " \
                f"data=({data.type.name}, {data.text!r})"
            if data.type != TY[ty]:
                bad0(site, "type", q)
            if data.text != spec[1]:
                bad0(site, "clipboard text != the removed characters", q + f" expected {spec[1]!r}")
            if rem.text != spec[0]:
                bad0(site, "frame", q + f" expected remaining {spec[0]!r}")
            if ty == "l" and (back is None or back.text != spec[2]):
                bad0(site, "P at the cut point does not restore the text", q + f" pasted back: "
                     f"{None if back is None else back.text!r} expected {spec[2]!r}")
            if ty == "b" and spec[2] == "corner":
                # paste at the top-left corner of the block (where the cut started)
                lo = min(cur, orig)
                hi = max(cur, orig)
                cA = min(lo - (T.rfind("\n", 0, lo) + 1), hi - (T.rfind("\n", 0, hi) + 1))
                corner = (T.rfind("\n", 0, lo) + 1) + cA
                d2 = Document(rem.text, corner).paste_clipboard_data(data, paste_mode=PasteMode.VI_BEFORE)
                if d2.text != T:
                    bad0(site, "P at the corner of the block does not restore the text",
                         q + f" pasted back at {corner}: {d2.text!r}")
    elif k == "pyclip":
        last = None
        tr = run_pyclip(case)
        for i, op in enumerate(case["ops"]):
            cell, d = tr[i + 1]
            got = (TYR[d.type], d.text)
            if op[0] == "set":
                last = (op[1], op[2])
                if got != last:
                    bad0("PyperclipClipboard.set_data", "get_data right after set_data returns other data",
                         f"ops={case['ops'][:i + 1]} got={got}")
            if d.text != cell:
                bad0("PyperclipClipboard.get_data", "text != system clipboard", f"ops={case['ops'][:i + 1]} got={got}")
            if last is not None and last[1] == cell and got != last:
                bad0("PyperclipClipboard.get_data", "type of our own copy lost", f"ops={case['ops'][:i + 1]} got={got}")
    elif k == "dyn":
        shadow = [[] for _ in case["maxes"]]
        cur = None
        tr = run_dyn(case)
        for i, op in enumerate(case["ops"]):
            if op[0] == "sel":
                cur = op[1]
            elif op[0] == "set" and cur is not None:
                shadow[cur] = ([(op[1], op[2])] + shadow[cur])[:case["maxes"][cur]]
            elif op[0] == "rot" and cur is not None:
                shadow[cur] = shadow[cur][1:] + shadow[cur][:1]
            d, rings = tr[i + 1]
            want = ("c", "") if cur is None or not shadow[cur] else shadow[cur][0]
            if rings != shadow or (TYR[d.type], d.text) != want:
                bad0("DynamicClipboard." + op[0], "not forwarded to the current clipboard",
                     f"ops={case['ops'][:i + 1]} rings={rings} expected={shadow} got=({d.type.name}, {d.text!r})")
    elif k == "ring":
        c = InMemoryClipboard(max_size=case["max"])
        shadow = []
        for op in case["ops"]:
            if op[0] == "rot":
                c.rotate()
                shadow = shadow[1:] + shadow[:1]
            else:
                c.set_data(ClipboardData(op[2], TY[op[1]]))
                shadow = ([(op[1], op[2])] + shadow)[:case["max"]]
            ring = [(TYR[d.type], d.text) for d in c._ring]
            g = c.get_data()
            if ring != shadow or (TYR[g.type], g.text) != (shadow[0] if shadow else ("c", "")):
                bad0("InMemoryClipboard." + ("rotate" if op[0] == "rot" else "set_data"),
                     "entry lost / order", f"ops={case['ops']} ring={ring} expected={shadow}")
    return v


def sample_view(case):
    if "seqs" in case:
        return dict(case, seqs=case["seqs"][:3] + [f"... {len(case['seqs'])} sequences, each from a fresh init"])
    if "qs" in case:
        return dict(case, qs=case["qs"][:4] + [f"... {len(case['qs'])} queries"])
    return case


def nontrivial(case):
    if case["kind"] in ("emacs", "vi"):
        return len(case["text"]) > 0 or len(seqs_of(case)[0]) >= 3
    if case["kind"] in ("paste", "cut"):
        return len(case["text"]) > 0
    return len(case["ops"]) >= 2


def distribution(cases):
    d = {"kind": {}, "text_len": {}, "ops": {}, "args": {}}
    for c in cases:
        d["kind"][c["kind"]] = d["kind"].get(c["kind"], 0) + 1
        if "text" in c:
            n = len(c["text"])
            key = str(n) if n < 6 else "6+"
            d["text_len"][key] = d["text_len"].get(key, 0) + 1
        if c["kind"] in ("emacs", "vi"):
            for seq in seqs_of(c):
                for op in seq:
                    k = c["kind"] + ":" + str(op[1])
                    d["ops"][k] = d["ops"].get(k, 0) + 1
                    a = op[0]
                    cls = ("none" if a == "N" else "dash" if a == "-" else "neg" if a < 0 else "zero" if a == 0
                           else ">=1e6" if a >= 1000000 else "pos")
                    d["args"][cls] = d["args"].get(cls, 0) + 1
    return d


if __name__ == "__main__":
    sys.exit(core.main(sys.modules[__name__]))
