#!/venv/bin/python
"""C06 — incremental screen updates == full redraw.

correspondence: the real `_output_screen_diff` / `Renderer.render|erase|reset|clear` driven with a
recording `Output` subclass; the list of Output calls (and the returned cursor position / last
style) is compared call by call with `Ptk.C06.diff` / `RState.*`; in addition the bytes a real
`Vt100_Output` writes for the same calls are interpreted by the VT100 interpreter below and the
resulting cell grid / cursor / modes are compared with the Lean terminal model executing the
model's command list.

oracle (independent of the model): real `Renderer` + real `Vt100_Output` on a StringIO; the bytes
are interpreted by the VT100 interpreter; after every render the terminal must equal (visible
cells, cursor, cursor visibility) a from-scratch draw of the same screen on a cleared terminal
and must show every cell of the screen; rows above the origin are never touched, nothing scrolls,
and after a `done` render the cursor is on column 0 of the line below the output with SGR reset
and autowrap on.
"""
from __future__ import annotations

import io
import itertools
import os
import sys

sys.path.insert(0, os.path.dirname(os.path.abspath(__file__)))
import core
from core import enc_str, enc_bool

from prompt_toolkit.cursor_shapes import CursorShape
from prompt_toolkit.data_structures import Point, Size
from prompt_toolkit.filters import Condition
from prompt_toolkit.layout.screen import Char, Screen
from prompt_toolkit.output import ColorDepth
from prompt_toolkit.output.base import Output
from prompt_toolkit.output.vt100 import Vt100_Output
from prompt_toolkit.renderer import (Renderer, _output_screen_diff, _StyleStringHasStyleCache,
                                     _StyleStringToAttrsCache)
from prompt_toolkit.styles import Attrs, DummyStyleTransformation, StyleTransformation
from prompt_toolkit.utils import get_cwidth

ID = "C06"
DRIVER = "drv_c06"
PROPS = ["Ptk.Props.C06", "Ptk.Props.C06Scroll", "Ptk.Props.C06Wide", "Ptk.Props.C06WideCells",
         "Ptk.Props.C06Diff", "Ptk.Props.C06Lemmas", "Ptk.Props.C06Cache", "Ptk.Props.C06Full", "Ptk.Props.C06Vt", "Ptk.Props.C06Bytes", "Ptk.Props.C06Resize", "Ptk.Props.C06Block",
         "Ptk.Props.C06BlockFull", "Ptk.Props.C06Tr", "Ptk.Props.C06Memo"]
LEVEL_TEXT = ("Lean 4 theorems over executable models of (1) the screen differ (_output_screen_diff with move_cursor / "
              "output_char / get_max_column_index), (2) the whole Renderer state machine: every attribute it keeps "
              "between calls including the two style dictionaries _attrs_for_style / _style_string_has_style with the "
              "invalidation block of Renderer.render as written, style-sheet / style-transformation / colour-depth "
              "changes, resizes, erase / clear / reset, cursor-position-report traffic, the height asked of the layout, "
              "(3) Vt100_Output as an encoder from Output calls to bytes (_EscapeCodeCache, _colors_to_code, colour "
              "quantisation, cursor_* with amount 0/1/n, erase_*, hide/show cursor, autowrap, mode switches) and (4) a "
              "VT100 terminal, both as abstract operations and as a byte-level interpreter. Proved: for width-1 cells "
              "executing the differ's output on a terminal that shows the previous screen yields the new screen, cursor, "
              "SGR reset, visibility, autowrap (diff_correct, diff_done, diff_done_scroll); over EVERY session the "
              "dictionaries agree with the style in force (cache_consistent, has_style_entries_current), hence the full "
              "renderer makes exactly the calls of the pure differ model (render_refines, runFT_sim) and the invariant "
              "'terminal shows _last_screen' is carried over every sequence of render / done / erase / clear with style, "
              "transformation and depth changing at will, the result being visibly identical to a from-scratch draw by a "
              "brand-new Renderer (render_seq_full, incremental_eq_scratch_full; has_cache_reset_needed shows why both "
              "dictionaries must be dropped); the same for wide (two-column) characters under the xterm overwrite rule "
              "(render_seq_wide_full, incremental_eq_scratch_wide_full) and for screens of multi-character cells made of narrow "
              "characters (control characters displayed as ^A / <80>) and cells with combining characters, every narrow "
              "character on its own column (diff_correct_block, render_seq_block_full, incremental_eq_scratch_block_full); "
              "for arbitrary printable cells writes stay inside "
              "the owned rows, nothing scrolls, no motion passes the margins, also across a resize "
              "(render_seq_geo_full, render_seq_geo_resize, render_after_resize, erase_after_resize); a truthful cursor "
              "position report makes the drawn rows fit (fit_of_cpr); reading the bytes Vt100_Output writes equals the "
              "abstract terminal operation for every call and every inline session (interp_emit, interp_emitAll, "
              "diff_bytes, runFB_sim), so incremental = from scratch holds for the terminal that read the bytes "
              "(session_bytes_eq_scratch). The style transformation is also modelled as a VALUE with the invalidation hash the "
              "code computes (Dummy / Conditional = (filter value, inner hash) / Dynamic = target's / merged = tuple / leaf "
              "objects): equal hash implies equal transformation is PROVED for these classes (trHash_determines_apply; "
              "cond_hash_needs_filter_value shows a hash that ignores the filter value breaks it), and cache_consistent / "
              "render_refines / incremental = scratch are stated for sessions in which only the state of the transformation "
              "objects changes between renders (tr_key_current, tr_differ_caches_current, render_refines_tr, "
              "incremental_eq_scratch_tr); a reset forgets the cursor position report, so the drawn rows fit in every state "
              "of a session, also after erase + foreign output + render before the next report (MinOk, fit_of_minOk, "
              "fit_after_erase, min_avail_reset_needed). The process-wide memo tables of _16ColorCache are state of the encoder "
              "model, keyed (rgb, exclude) as the code keys them, and proved transparent for every call sequence "
              "(vtEmitAllM_eq; memo_key_needs_exclude). The models are tied to /repo on every run by regenerated tables and escape "
              "sequences with pins, a call-by-call and state-by-state correspondence (dictionary contents, hashes, sizes, "
              "CPR state, heights), a byte-for-byte comparison of the Lean encoder with the real Vt100_Output, a "
              "cross-check of both Lean terminals with an independent Python VT100 interpreter, and the property oracle on "
              "real Renderer + Vt100_Output output (also for real PromptSession layouts with style swaps)")
LEVEL_NOTE = ("partial: the terminal semantics is a model (trusted; the byte grammar CSI/OSC/C0 and the cell semantics of "
              "an xterm with autowrap off), cross-checked against an independent interpreter; cell CONTENTS are proved for "
              "screens of width-1 cells, for screens with wide characters, and for screens of multi-character / combining "
              "cells of narrow characters separately: a screen that MIXES wide characters with multi-character cells (or a "
              "multi-character cell containing a wide character) has only the geometry theorems, its contents are covered by "
              "the correspondence and the oracle; the byte-level session theorem is for inline mode (entering the "
              "alternate screen also homes the cursor, which the abstract model does not represent); the hypothesis 'equal invalidation hash => equal "
              "transformation' is a theorem for the modelled transformation classes (not an assumption); leaf "
              "transformations (Swap / Reverse / SetDefaultColor objects) are parameters whose values are extracted from the "
              "real objects; KNOWN FINDING: a transformation that makes the default char's style visible (Reverse, "
              "SetDefaultColor) violates incremental = from-scratch when a row disappears (witness default_style_visible_breaks, "
              "excluded from the theorems by WorldOk.dflt); trusted: Lean kernel, propext/Classical.choice/Quot.sound")
TECHNIQUE = ("Lean 4 proof over executable models of the screen differ, the Renderer state machine with its style caches, "
             "the Vt100_Output encoder and a VT100 terminal (abstract + byte-level) + refinement between the models + "
             "regenerated tables with pins + call/state/byte differential correspondence + independent VT100 interpreter "
             "oracle on the real Renderer / Vt100_Output")
RULE = ("exhaustive: every pair (thorough: triple) of screens over 3 cell kinds {default blank, 'a', styled "
        "blank} on tiny terminals, inline and full-screen, rendered as a chain, every third one ending with a done "
        "render; every ordered pair of rows of 3 columns over {gap, 'a', a control character displayed ^A on two columns, "
        "'e' + combining accent}; every pair of screens over {gap, 'a', blank of style 2, blank of style 3} on 2x1 (thorough: also 1x2, "
        "both modes) rendered on ONE Renderer with a style-sheet and/or style-transformation and/or depth change "
        "between the renders, 9 transitions in which the same style string means 'nothing visible on an empty cell' "
        "before and 'background / underline' after or the other way round (trailing blanks, blank rows); then seeded "
        "random chains of <= 8 screens (W<=12, H<=6, origin below the top, wide and multi-char cells, zero-width "
        "escapes, equal-attrs style ids, grow/shrink, small edits of the previous screen, erase/clear, 4 style sheets "
        "x 4 style transformations switched between renders, depths 1/4/8/24 changing between renders, cursor "
        "position reports), direct differ calls with arbitrary cursor / last style / previous width (call, dictionary "
        "and byte correspondence only), Renderer sequences with resizes, bare resets, CPR request / report / timeout, "
        "height_is_known / rows_above_layout queries and layouts whose preferred height differs from what they draw "
        "(call, state, height and byte correspondence only), and screens produced by real PromptSession layouts "
        "(completion menus, toolbars, multiline, wide prompts, origin below the top with a truthful cursor position "
        "report, real Style / SwapLightAndDark switches) during random editing sessions; a case is non-trivial when "
        "at least two renders draw different non-empty screens; sessions on ONE Renderer whose application style "
        "transformation is a graph of REAL objects (ConditionalStyleTransformation over a Condition that flips, "
        "DynamicStyleTransformation switching targets, merge_style_transformations of them, SwapLightAndDark / Reverse / "
        "SetDefaultColor leaves): 4 graph templates x every slot assignment x every change of one slot x 34 screen "
        "pairs with NOTHING else invalidating between the renders, plus random chains; real PromptSession layouts with "
        "swap_light_and_dark_colors flipping, and with erase + foreign output (cursor moved down) + render before / "
        "after a new cursor position report; 4-bit depth with RGB colours on one process: every ordered pair of 7 "
        "styles sharing RGB backgrounds under different RGB foregrounds (incl. fg = nearest ANSI colour of bg), the "
        "from-scratch reference drawn with EMPTY colour memo tables, plus the check that fg and bg of a cell never "
        "map to the same ANSI colour unless their RGB values are equal")
EXHAUSTIVE = True
EXHAUSTIVE_SCOPE = {"quick": "(W,H) in {(1,1),(2,1),(3,1),(1,2)}: 3 cell kinds, all ordered pairs of screens, inline + "
                             "full-screen; (2,2): all ordered pairs, inline; style swaps: (2,1) all ordered pairs of "
                             "screens over 4 cell kinds x 9 style/transformation/depth transitions, inline; block cells: every "
                             "ordered pair of the 33 rows of 3 columns over {gap, 'a', ^A (2 columns), e+combining accent}, inline; real "
                             "transformation objects: 4 templates, all slot assignments, all one-slot changes, 34 pairs of "
                             "2x1 screens (plain-preserving leaves; and gap-free screens with a Reverse leaf)",
                    "thorough": "all ordered pairs for (1,1),(2,1),(3,1),(1,2),(2,2) in both modes, all ordered triples "
                                "for (1,1),(2,1),(3,1),(1,2), 12000 sampled pairs for (3,2); style swaps: (2,1),(1,2) "
                                "all ordered pairs x 9 transitions in both modes, 1500 sampled pairs each for (3,1),(2,2); block "
                                "cells: all ordered pairs of the 33 rows of 3 columns in both modes and of the 109 rows of 4 columns"}
TRUSTED = ["harness/c06.py: recording Output, the Python VT100 interpreter (CR LF BS CUU/CUD/CUF/CUB CUP ED EL SGR "
           "DECTCEM DECAWM alt-screen OSC, xterm wide-char overwrite rule), comparison code",
           "harness/gen_c06.py: prints the colour tables and the escape sequences of the current Vt100_Output faithfully",
           "Ptk/Model/C06.lean, C06Full.lean, C06Vt.lean: hand translations of renderer.py (_output_screen_diff, "
           "Renderer, the two style caches) and output/vt100.py (encoders), correspondence-checked call by call, state "
           "by state and byte by byte; the terminal models Term/exec and interp, cross-checked against the Python "
           "interpreter on every chain case"]
ASSUMPTIONS = ["VT100/xterm semantics as modelled (autowrap off: cursor stays on the last column; ED/EL erase "
               "with the current background; SGR parameters as xterm; CUU/CUF/CUB clamp; an amount of 0 means 1)",
               "screens satisfy WFScreen: no written row >= Screen.height (checked on every real-layout screen; "
               "theorem wf_needed shows it is necessary)",
               "the default char's style '[transparent]' shows nothing on an empty cell under every style sheet and "
               "transformation (a style sheet that underlines or colours the default style makes such cells invisible "
               "to the differ, from scratch as well as incrementally)",
               "the invalidation hashes identify what the style and the style transformation compute "
               "(rawAt sk tk): two different style sheets with equal hashes are outside the model",
               "zero-width escapes do not move the cursor or change cells (byte-level theorems: no zero-width escapes)",
               "cell texts contain no ESC (Char displays control characters as ^[ ...; Vt100_Output.write would "
               "replace it by '?')",
               "colour strings are ANSI colour names or hex digit strings (what parse_color produces)",
               "runtime wcwidth is data (Char.width); a space is one column wide",
               "the drawn rows fit between the origin and the bottom of the terminal (proved from a truthful cursor "
               "position report and a layout that respects the height it is given: fit_of_cpr; otherwise the renderer "
               "scrolls on purpose to reserve space)",
               "after a resize the terminal's cursor is where the renderer believes (contents arbitrary)"]
PARTIAL_SCOPE = ["cell contents: three content theorems for three classes of screens: (a) width-1 single-character cells, "
                 "(b) single-character cells of width 1 and 2 (wide characters followed by their empty continuation cell, "
                 "xterm overwrite rule), (c) block cells: k >= 1 narrow characters plus any zero-width (combining) "
                 "characters, width k, followed by k-1 empty cells (^A, <80>, e + accent); zero-width characters are not "
                 "represented in the terminal grid; a screen mixing wide characters with multi-character cells has only "
                 "the geometry theorems (confinement, no scroll, cursor, modes), its contents are checked by "
                 "correspondence and oracle",
                 "alternate-screen switching, mouse/bracketed-paste modes and cursor shape are encoded byte-exactly "
                 "and parsed by the interpreter but have no terminal semantics; the byte-level SESSION theorem is for "
                 "inline mode only (single differ calls: both modes)",
                 "terminal resize: what the terminal shows after a resize is an assumption (cursor where the renderer "
                 "believes); reflow is not modelled",
                 "wait_for_cpr_responses (asyncio futures / timeouts) is not modelled; the CPR timeout task is an "
                 "explicit operation",
                 "a bare reset() without erase (the renderer forgets the cursor position) has state / call / byte "
                 "correspondence but no terminal theorem",
                 "style transformations that make the default char's style visible (Reverse, SetDefaultColor): outside the "
                 "theorems (WorldOk.dflt), known finding; exercised by correspondence and oracle on gap-free screens only "
                 "(the model's dense rows and the sparse dict rows disagree about gaps when the default style is counted)",
                 "the per-output _EscapeCodeCache dict and the _256ColorCache dict are pure memoisation and not modelled as "
                 "state (the _16ColorCache tables are)",
                 "AdjustBrightnessStyleTransformation and transformations with their own invalidation_hash are leaves "
                 "(identity + function) in the model"]

ANCHORS = ["src/prompt_toolkit/renderer.py", "src/prompt_toolkit/output/vt100.py", "src/prompt_toolkit/layout/screen.py",
           "src/prompt_toolkit/output/base.py"]
# (styles/style_transformation.py is covered function by function through MODELLED: adding it to ANCHORS changes the
#  pinned anchor hash and escalates every quick run until harness/pin.py is run again)
# the functions whose bodies the Lean models follow line by line and the correspondence exercises
MODELLED = {
    "src/prompt_toolkit/renderer.py": [
        "_output_screen_diff", "_output_screen_diff.reset_attributes", "_output_screen_diff.move_cursor",
        "_output_screen_diff.output_char", "_output_screen_diff.get_max_column_index",
        "_StyleStringToAttrsCache.__init__", "_StyleStringToAttrsCache.__missing__",
        "_StyleStringHasStyleCache.__init__", "_StyleStringHasStyleCache.__missing__",
        "Renderer.__init__", "Renderer.reset", "Renderer.render", "Renderer.erase", "Renderer.clear",
        "Renderer.height_is_known", "Renderer.rows_above_layout", "Renderer.request_absolute_cursor_position",
        "Renderer.request_absolute_cursor_position.do_cpr", "Renderer.request_absolute_cursor_position.timer",
        "Renderer.report_absolute_cursor_row", "Renderer.waiting_for_cpr"],
    "src/prompt_toolkit/output/vt100.py": [
        "_get_closest_ansi_color", "_16ColorCache.get_code", "_16ColorCache._get", "_256ColorCache.__missing__",
        "_EscapeCodeCache.__missing__", "_EscapeCodeCache._color_name_to_rgb", "_EscapeCodeCache._colors_to_code",
        "_EscapeCodeCache._colors_to_code.get",
        "Vt100_Output.write", "Vt100_Output.write_raw", "Vt100_Output.erase_screen",
        "Vt100_Output.enter_alternate_screen", "Vt100_Output.quit_alternate_screen",
        "Vt100_Output.enable_mouse_support", "Vt100_Output.disable_mouse_support", "Vt100_Output.erase_end_of_line",
        "Vt100_Output.erase_down", "Vt100_Output.reset_attributes", "Vt100_Output.set_attributes",
        "Vt100_Output.disable_autowrap", "Vt100_Output.enable_autowrap", "Vt100_Output.enable_bracketed_paste",
        "Vt100_Output.disable_bracketed_paste", "Vt100_Output.reset_cursor_key_mode", "Vt100_Output.cursor_goto",
        "Vt100_Output.cursor_up", "Vt100_Output.cursor_forward", "Vt100_Output.cursor_backward",
        "Vt100_Output.hide_cursor", "Vt100_Output.show_cursor", "Vt100_Output.set_cursor_shape",
        "Vt100_Output.reset_cursor_shape", "Vt100_Output.ask_for_cpr"],
    "src/prompt_toolkit/styles/style_transformation.py": [
        "StyleTransformation.invalidation_hash", "DummyStyleTransformation.transform_attrs",
        "DummyStyleTransformation.invalidation_hash", "DynamicStyleTransformation.transform_attrs",
        "DynamicStyleTransformation.invalidation_hash", "ConditionalStyleTransformation.transform_attrs",
        "ConditionalStyleTransformation.invalidation_hash", "_MergedStyleTransformation.transform_attrs",
        "_MergedStyleTransformation.invalidation_hash"],
}

DEPTHS = {1: ColorDepth.DEPTH_1_BIT, 4: ColorDepth.DEPTH_4_BIT, 8: ColorDepth.DEPTH_8_BIT,
          24: ColorDepth.DEPTH_24_BIT}
DEPTH_NUM = {v: k for k, v in DEPTHS.items()}
SHAPES = list(CursorShape)      # index = the model's shape number (0 = _NEVER_CHANGE)
PLAIN = ["", "", "0000000"]


# ------------------------------------------------------------------ styles
def style_str(sid: int) -> str:
    return "" if sid == 0 else "[transparent]" if sid == 1 else f"class:s{sid}"


def mk_attrs(spec) -> Attrs:
    fg, bg, fl = spec
    b = [c == "1" for c in fl]
    return Attrs(color=fg, bgcolor=bg, bold=b[0], underline=b[1], strike=b[2], italic=b[3],
                 blink=b[4], reverse=b[5], hidden=b[6])


def sheet_table(case, sk):
    """sid -> Attrs under style sheet `sk` (sheet 0 = case["styles"]; other sheets = case["sheets"][str(sk)],
    a sheet that is not listed equals sheet 0: only its invalidation hash differs)"""
    rows = case.get("styles", [])
    sheets = case.get("sheets") or {}
    if sk and str(sk) in sheets:
        rows = sheets[str(sk)]
    t = {0: mk_attrs(PLAIN), 1: mk_attrs(PLAIN)}
    for sid, fg, bg, fl in rows:
        t[sid] = mk_attrs((fg, bg, fl))
    return t


def tr_apply(tk, a: Attrs) -> Attrs:
    """the style transformations of the harness (all keep plain attributes plain: the default char's style must
    stay invisible): 1 = bold text is underlined, 2 = backgrounds are dropped, 3 = fg/bg swapped"""
    if tk == 1:
        return a._replace(underline=bool(a.underline or a.bold))
    if tk == 2:
        return a._replace(bgcolor="")
    if tk == 3:
        return a._replace(color=a.bgcolor, bgcolor=a.color)
    return a


def all_sids(case):
    sids = {0, 1}
    for rows in [case.get("styles", [])] + list((case.get("sheets") or {}).values()):
        sids.update(r[0] for r in rows)
    return sorted(sids)


def style_table(case, sk=0, tk=0):
    """sid -> Attrs under (style sheet sk, transformation tk)"""
    base = sheet_table(case, sk)
    return {sid: tr_apply(tk, base.get(sid, mk_attrs(PLAIN))) for sid in all_sids(case)}


def combos(case):
    """per op the (sk, tk) in force AFTER the op; and the set of all combinations in force at some render"""
    sk = tk = 0
    per, used = [], {(0, 0)}
    for op in case["ops"]:
        k = op["op"]
        if k == "style":
            sk = op["sk"]
        elif k == "trans":
            tk = op["tk"]
        elif k == "render" and "key" in op:
            sk = op["key"]
        if k == "render":
            used.add((sk, tk))
        per.append((sk, tk))
    return per, sorted(used)


def enc_attrs(a: Attrs) -> str:
    fl = "".join("1" if x else "0" for x in (a.bold, a.underline, a.strike, a.italic, a.blink,
                                                a.reverse, a.hidden))
    return f"{enc_str(a.color or '')}/{enc_str(a.bgcolor or '')}/{fl}"


class StubStyle:
    """stands for Renderer.style (like Application._merged_style: one object whose lookups follow the CURRENT
    style sheet `key`, and whose invalidation hash is `key`)"""

    def __init__(self, case):
        self.case = case
        self.key = 0
        self._tabs = {}

    def get_attrs_for_style_str(self, s, default=None):
        t = self._tabs.get(self.key)
        if t is None:
            t = self._tabs[self.key] = {style_str(k): v for k, v in sheet_table(self.case, self.key).items()}
        # style strings that Char() derived itself (" class:control-character ") are plain
        return t.get(s, mk_attrs(PLAIN))

    def invalidation_hash(self):
        return self.key


class StubTransformation(StyleTransformation):
    """stands for app.style_transformation"""

    def __init__(self):
        self.key = 0

    def transform_attrs(self, attrs):
        return tr_apply(self.key, attrs)

    def invalidation_hash(self):
        return self.key


class TrGraph:
    """REAL style transformation objects, built once per case and kept alive: leaves (SwapLightAndDark / Reverse /
    SetDefaultColor objects), ConditionalStyleTransformation over a Condition that reads a slot, Dynamic-
    StyleTransformation whose getter reads a slot (-1 = None, j = the j-th candidate), merge_style_transformations.
    `spec = {"leaves": [...], "graph": node, "slots": {slot: value}}`,
    node = ["D"] | ["L", i] | ["C", slot, node] | ["Y", slot, [node, ...]] | ["M", [node, ...]]."""

    def __init__(self, spec):
        from prompt_toolkit.styles import (ConditionalStyleTransformation, DynamicStyleTransformation,
                                           ReverseStyleTransformation, SetDefaultColorStyleTransformation,
                                           SwapLightAndDarkStyleTransformation, merge_style_transformations)
        self.spec = spec
        self.vals = {int(k): v for k, v in spec["slots"].items()}
        self.leaves = []
        for lf in spec["leaves"]:
            if lf[0] == "swap":
                self.leaves.append(SwapLightAndDarkStyleTransformation())
            elif lf[0] == "reverse":
                self.leaves.append(ReverseStyleTransformation())
            else:
                self.leaves.append(SetDefaultColorStyleTransformation(fg=lf[1], bg=lf[2]))

        def build(n):
            if n[0] == "D":
                return DummyStyleTransformation()
            if n[0] == "L":
                return self.leaves[n[1]]
            if n[0] == "C":
                return ConditionalStyleTransformation(build(n[2]), Condition(lambda s=n[1]: bool(self.vals[s])))
            if n[0] == "Y":
                cands = [build(c) for c in n[2]]
                return DynamicStyleTransformation(lambda s=n[1], c=cands: None if self.vals[s] < 0 else c[self.vals[s]])
            return merge_style_transformations([build(c) for c in n[1]])

        self.root = build(spec["graph"])

    def set(self, upd):
        for k, v in upd.items():
            self.vals[int(k)] = v


def tr_term(spec, vals):
    """the transformation as it is NOW (filters evaluated, dynamic targets resolved), in the driver's notation"""
    def ev(n):
        if n[0] == "D":
            return ["D"]
        if n[0] == "L":
            return ["L", str(n[1])]
        if n[0] == "C":
            return ["C", enc_bool(vals[n[1]])] + ev(n[2])
        if n[0] == "Y":
            return ["YN"] if vals[n[1]] < 0 else ["Y"] + ev(n[2][vals[n[1]]])
        out = ["M", str(len(n[1]))]
        for c in n[1]:
            out += ev(c)
        return out
    return " ".join(ev(spec["graph"]))


def tr_leaf_lines(case):
    """what the leaf objects compute on every Attrs that can reach them (the style sheets' values closed under the
    leaves): `leaf i <in> <out>` for the driver"""
    g = TrGraph(case["tr"])
    seen = set()
    for sk in sorted({sk for (sk, _tk) in combos(case)[1]}):
        seen.update(sheet_table(case, sk).values())
    seen.add(mk_attrs(PLAIN))
    frontier = set(seen)
    for _ in range(6):
        new = set()
        for a in frontier:
            for lf in g.leaves:
                b = lf.transform_attrs(a)
                b = b._replace(color=b.color or "", bgcolor=b.bgcolor or "")
                if b not in seen:
                    new.add(b)
        if not new:
            break
        seen |= new
        frontier = new
    L = []
    for i, lf in enumerate(g.leaves):
        for a in sorted(seen, key=enc_attrs):
            b = lf.transform_attrs(a)
            b = b._replace(color=b.color or "", bgcolor=b.bgcolor or "")
            if b != a:
                L.append(f"leaf {i} {enc_attrs(a)} {enc_attrs(b)}".replace("/", " "))
    return L


def tr_vals_per_op(case):
    """slot values in force after each op"""
    vals = {int(k): v for k, v in case["tr"]["slots"].items()}
    out = []
    for op in case["ops"]:
        if op["op"] == "trset":
            vals = dict(vals)
            for k, v in op["set"].items():
                vals[int(k)] = v
        out.append(vals)
    return out


def _color_memos():
    """the module-level memo tables of output/vt100.py (`_16_fg_colors`, `_16_bg_colors`: dicts inside `_16ColorCache`
    objects; `_256_colors`: a dict): they survive every Vt100_Output and Renderer of the process"""
    import prompt_toolkit.output.vt100 as V
    out = []
    for name in ("_16_fg_colors", "_16_bg_colors"):
        c = getattr(V, name, None)
        if c is not None and isinstance(getattr(c, "_cache", None), dict):
            out.append(c._cache)
    c = getattr(V, "_256_colors", None)
    if isinstance(c, dict):
        out.append(c)
    return out


def clear_color_memos():
    """a case starts like a fresh process: empty colour memo tables"""
    for d in _color_memos():
        d.clear()


class clean_color_memos:
    """the from-scratch reference must not share the colour memo tables of the session: run with empty tables and
    put the session's tables back afterwards"""

    def __enter__(self):
        self.saved = [(d, dict(d)) for d in _color_memos()]
        for d, _ in self.saved:
            d.clear()

    def __exit__(self, *a):
        for d, old in self.saved:
            d.clear()
            d.update(old)


# ------------------------------------------------------------------ recording output
class RecOutput(Output):
    """records every Output call as the token the Lean driver prints; optionally forwards the call to
    a real Vt100_Output writing into a StringIO (for the byte-level interpretation)"""

    def __init__(self, w, h, table=None, tee=False):
        self.w, self.h = w, h
        self.calls: list[str] = []
        self.sid_of_attrs = None
        self.buf = io.StringIO()
        self.inner = Vt100_Output(self.buf, self.get_size, term="xterm") if tee else None

    def _r(self, tok, name=None, *a):
        self.calls.append(tok)
        if self.inner is not None and name:
            getattr(self.inner, name)(*a)

    def take(self):
        c, self.calls = self.calls, []
        return c

    def take_bytes(self):
        if self.inner is None:
            return ""
        self.inner.flush()
        s = self.buf.getvalue()
        self.buf.seek(0)
        self.buf.truncate()
        return s

    def fileno(self): raise NotImplementedError
    def encoding(self): return "utf-8"
    def write(self, data): self._r("W" + enc_str(data), "write", data)
    def write_raw(self, data): self._r("R" + enc_str(data), "write_raw", data)
    def set_title(self, title): self._r("title")
    def clear_title(self): self._r("title")
    def flush(self): self._r("flush", "flush")
    def erase_screen(self): self._r("ES", "erase_screen")
    def enter_alternate_screen(self): self._r("alt+", "enter_alternate_screen")
    def quit_alternate_screen(self): self._r("alt-", "quit_alternate_screen")
    def enable_mouse_support(self): self._r("mouse+", "enable_mouse_support")
    def disable_mouse_support(self): self._r("mouse-", "disable_mouse_support")
    def erase_end_of_line(self): self._r("EL", "erase_end_of_line")
    def erase_down(self): self._r("ED", "erase_down")
    def reset_attributes(self): self._r("A0", "reset_attributes")
    def set_attributes(self, attrs, color_depth):
        self._r("A" + enc_attrs(attrs) + "@" + str(DEPTH_NUM[color_depth]), "set_attributes", attrs, color_depth)
    def disable_autowrap(self): self._r("aw-", "disable_autowrap")
    def enable_autowrap(self): self._r("aw+", "enable_autowrap")
    def cursor_goto(self, row=0, column=0): self._r(f"G{row},{column}", "cursor_goto", row, column)
    def cursor_up(self, amount): self._r(f"U{amount}", "cursor_up", amount)
    def cursor_down(self, amount): self._r(f"D{amount}", "cursor_down", amount)
    def cursor_forward(self, amount): self._r(f"F{amount}", "cursor_forward", amount)
    def cursor_backward(self, amount): self._r(f"B{amount}", "cursor_backward", amount)
    def hide_cursor(self): self._r("CH", "hide_cursor")
    def show_cursor(self): self._r("CS", "show_cursor")
    def set_cursor_shape(self, cursor_shape): self._r(f"shape{SHAPES.index(cursor_shape)}", "set_cursor_shape", cursor_shape)
    def reset_cursor_shape(self): self._r("shape-", "reset_cursor_shape")
    def ask_for_cpr(self): self._r("cpr", "ask_for_cpr")
    def bell(self): self._r("bell")
    def enable_bracketed_paste(self): self._r("paste+", "enable_bracketed_paste")
    def disable_bracketed_paste(self): self._r("paste-", "disable_bracketed_paste")
    def reset_cursor_key_mode(self): self._r("ckm", "reset_cursor_key_mode")
    def scroll_buffer_to_prompt(self): self._r("scroll", "scroll_buffer_to_prompt")
    def get_size(self): return Size(rows=self.h, columns=self.w)
    def get_rows_below_cursor_position(self): raise NotImplementedError
    def get_default_color_depth(self): return ColorDepth.DEPTH_8_BIT

    cpr = False

    @property
    def responds_to_cpr(self): return self.cpr


def enc_calls(calls):
    return " ".join([str(len(calls))] + calls)


# ------------------------------------------------------------------ VT100 interpreter
class VT:
    """A small VT100/xterm interpreter.  `top` rows above the origin hold a sentinel so that any write
    outside the owned rows is detected.  Cells are (text, sgr) with sgr a canonical tuple."""

    PLAIN = ("", "", frozenset())

    def __init__(self, w, h, top=0):
        self.w, self.H, self.top = w, top + h, top
        self._top0 = top
        self.blank = (" ", self.PLAIN)
        self.sentinel = ("#", ("sentinel", "", frozenset()))
        self.grid = [[self.sentinel if y < top else self.blank for _ in range(w)] for y in range(self.H)]
        self.row, self.col = top, 0
        self.sgr = self.PLAIN
        self.autowrap = True
        self.pending = False
        self.visible = True
        self.scrolled = 0
        self.oob = False          # cursor asked to leave the owned area at the top / left margin
        self.min_row = top        # smallest row the cursor visited / a cell was written on
        self.unknown = []
        self.alt = False
        self.writes = []          # (row, col) of printed glyph cells

    # -- helpers
    def _erased(self):
        return (" ", ("", self.sgr[1], frozenset()))

    def _fix_left(self, y, x):
        if 0 < x < self.w and self.grid[y][x][0] == "":
            self.grid[y][x - 1] = (" ", self.grid[y][x - 1][1])

    def _fix_right(self, y, x):
        if x < self.w and self.grid[y][x][0] == "":
            self.grid[y][x] = (" ", self.grid[y][x][1])

    def _lf(self):
        if self.row + 1 < self.H:
            self.row += 1
        else:
            self.grid.pop(0)
            self.grid.append([self._erased() for _ in range(self.w)])
            self.scrolled += 1

    def _glyph(self, ch, k):
        if self.pending and self.autowrap:
            self.col = 0
            self._lf()
        self.pending = False
        if self.col + k > self.w:
            if self.autowrap:
                self.col = 0
                self._lf()
                if k > self.w:
                    self.oob = True
                    return
            else:
                self.oob = True
                return
        y, x = self.row, self.col
        self._fix_left(y, x)
        self._fix_right(y, x + k)
        self._lastcell = (y, x)
        self.grid[y][x] = (ch, self.sgr)
        for i in range(1, k):
            self.grid[y][x + i] = ("", self.sgr)
        for i in range(k):
            self.writes.append((y, x + i))
        self.min_row = min(self.min_row, y)
        if x + k < self.w:
            self.col = x + k
        else:
            self.col = self.w - 1
            self.pending = self.autowrap

    def _combine(self, ch):
        # zero-width character: attaches to the glyph printed immediately before it
        if self._lastcell is not None:
            y, x = self._lastcell
            t, a = self.grid[y][x]
            self.grid[y][x] = (t + ch, a)

    _lastcell = None

    def _erase(self, down):
        y, x = self.row, self.col
        self._fix_left(y, x)
        e = self._erased()
        for c in range(x, self.w):
            self.grid[y][c] = e
        if down:
            for r in range(y + 1, self.H):
                self.grid[r] = [e for _ in range(self.w)]
        self.pending = False

    def _sgr(self, params):
        fg, bg, fl = self.sgr
        fl = set(fl)
        names = {1: "bold", 3: "italic", 4: "underline", 5: "blink", 7: "reverse", 8: "hidden", 9: "strike"}
        p = [int(x) if x else 0 for x in params.split(";")] if params else [0]
        i = 0
        while i < len(p):
            v = p[i]
            if v == 0:
                fg, bg, fl = "", "", set()
            elif v in names:
                fl.add(names[v])
            elif 30 <= v <= 37 or 90 <= v <= 97:
                fg = f"c{v}"
            elif 40 <= v <= 47 or 100 <= v <= 107:
                bg = f"c{v - 10}"
            elif v in (38, 48) and i + 1 < len(p):
                if p[i + 1] == 5 and i + 2 < len(p):
                    val = f"p{p[i + 2]}"
                    i += 2
                elif p[i + 1] == 2 and i + 4 < len(p):
                    val = "r%02x%02x%02x" % (p[i + 2], p[i + 3], p[i + 4])
                    i += 4
                else:
                    self.unknown.append("sgr:" + params)
                    val = "?"
                if v == 38:
                    fg = val
                else:
                    bg = val
            elif v == 39:
                fg = ""
            elif v == 49:
                bg = ""
            else:
                self.unknown.append("sgr:" + params)
            i += 1
        self.sgr = (fg, bg, frozenset(fl))

    def _csi(self, priv, params, final):
        n = int(params) if params.isdigit() else None
        if priv == "?":
            for q in params.split(";"):
                if q == "7":
                    self.autowrap = final == "h"
                    if not self.autowrap:
                        self.pending = False
                elif q == "25":
                    self.visible = final == "h"
                elif q == "1049":
                    if final == "h" and not self.alt:
                        self._saved = ([r[:] for r in self.grid], self.row, self.col, self.top)
                        self.grid = [[self.blank for _ in range(self.w)] for _ in range(self.H)]
                        self.top = 0
                    elif final == "l" and self.alt:
                        g, self.row, self.col, self.top = self._saved
                        self.grid = [r[:] for r in g]
                    self.alt = final == "h"
                elif q in ("12", "2004", "1", "1000", "1003", "1015", "1006"):
                    pass
                else:
                    self.unknown.append(f"?{q}{final}")
            return
        if final == "A":
            k = n if n is not None else 1
            if self.row - k < self.top:
                self.oob = True
            self.row = max(0, self.row - k)
            self.min_row = min(self.min_row, self.row)
            self.pending = False
        elif final == "B":
            k = n if n is not None else 1
            self.row = min(self.H - 1, self.row + k)
            self.pending = False
        elif final == "C":
            k = n if n is not None else 1
            self.col = min(self.w - 1, self.col + k)
            self.pending = False
        elif final == "D":
            k = n if n is not None else 1
            if self.col - k < 0:
                self.oob = True
            self.col = max(0, self.col - k)
            self.pending = False
        elif final == "H":
            ps = (params.split(";") + ["", ""])[:2]
            r = max(1, int(ps[0] or 1))
            c = max(1, int(ps[1] or 1))
            self.row = min(self.H - 1, r - 1)
            self.col = min(self.w - 1, c - 1)
            self.pending = False
            self.min_row = min(self.min_row, self.row)
        elif final == "J":
            if params in ("", "0"):
                self._erase(True)
            elif params == "2":
                e = self._erased()
                self.grid = [[e for _ in range(self.w)] for _ in range(self.H)]
                self.min_row = 0
            else:
                self.unknown.append("J" + params)
        elif final == "K":
            if params in ("", "0"):
                self._erase(False)
            else:
                self.unknown.append("K" + params)
        elif final == "m":
            self._sgr(params)
        elif final in ("n", "q"):
            pass
        else:
            self.unknown.append("CSI" + params + final)

    def feed(self, data: str):
        i, n = 0, len(data)
        while i < n:
            ch = data[i]
            if ch < " " or ch == "\x7f":
                self._lastcell = None
            if ch == "\x1b":
                if i + 1 < n and data[i + 1] == "[":
                    j = i + 2
                    priv = ""
                    if j < n and data[j] in "?>":
                        priv = data[j]
                        j += 1
                    k = j
                    while k < n and (data[k].isdigit() or data[k] in "; "):
                        k += 1
                    if k >= n:
                        self.unknown.append("truncated")
                        return
                    self._csi(priv, data[j:k].replace(" ", ""), data[k])
                    i = k + 1
                    continue
                if i + 1 < n and data[i + 1] == "]":
                    # OSC … terminated by BEL or ST (ESC \)
                    k1 = data.find("\x07", i)
                    k2 = data.find("\x1b\\", i + 2)
                    ends = [e for e in ((k1 + 1) if k1 >= 0 else -1, (k2 + 2) if k2 >= 0 else -1) if e > 0]
                    if not ends:
                        self.unknown.append("unterminated OSC")
                        return
                    i = min(ends)
                    continue
                self.unknown.append("esc")
                i += 2
                continue
            if ch == "\r":
                self.col = 0
                self.pending = False
            elif ch == "\n":
                self._lf()
                self.pending = False
            elif ch == "\b":
                if self.col == 0:
                    self.oob = True
                self.col = max(0, self.col - 1)
                self.pending = False
            elif ord(ch) < 32 or ord(ch) == 127:
                pass
            else:
                k = get_cwidth(ch)
                if k == 0:
                    self._combine(ch)
                else:
                    self._glyph(ch, k)
            i += 1

    # -- views
    def owned(self):
        return [row[:] for row in self.grid[self.top:]]

    def fresh(self):
        """a fresh terminal of the same geometry that keeps the modes (what the next prompt finds)"""
        v = VT(self.w, self.H - self._top0, self._top0)
        v.sgr, v.autowrap, v.visible = self.sgr, self.autowrap, self.visible
        return v


def vis(cell):
    """visible-cell normal form: a space shows only background, underline, strike-through, reverse (and fg /
    blink, kept like the renderer does); bold / italic / hidden spaces look like plain spaces"""
    t, (fg, bg, fl) = cell
    if t == " " and not fg and not bg and not (fl & {"underline", "strike", "blink", "reverse"}):
        return (" ", VT.PLAIN)
    return cell


# ------------------------------------------------------------------ screens
WIN = object()   # key used for Screen.cursor_positions


def build_screen(js, target: Screen | None = None) -> Screen:
    s = target if target is not None else Screen()
    for y, x, t, sid in js["cells"]:
        s.data_buffer[y][x] = Char(t, style_str(sid))
    for y, x, t in js.get("zwe", []):
        s.zero_width_escapes[y][x] = t
    s.height = js["h"]
    s.show_cursor = bool(js["show"])
    if js.get("cur") is not None:
        s.cursor_positions[WIN] = Point(x=js["cur"][0], y=js["cur"][1])
    return s


def dense_rows(js):
    """dense rows [(char, sid, width)] as the model wants them; Char() is the real constructor (display
    mappings, width)"""
    rows: dict[int, dict[int, tuple]] = {}
    for y, x, t, sid in js["cells"]:
        ch = Char(t, style_str(sid))
        rows.setdefault(y, {})[x] = (ch.char, sid, ch.width, ch.style)
    out = []
    for y in range((max(rows) + 1) if rows else 0):
        r = rows.get(y, {})
        line = []
        for x in range((max(r) + 1) if r else 0):
            line.append(r.get(x, (" ", 1, 1, "[transparent]")))
        out.append(line)
    return out


def screen_lines(js, extra_styles):
    """protocol lines that load one screen into the driver (extra style ids for styles that `Char` itself
    appended a class to are allocated in `extra_styles`)"""
    L = [f"scr {js['h']} {(js.get('cur') or [0, 0])[0]} {(js.get('cur') or [0, 0])[1]} {enc_bool(js['show'])}"]
    for line in dense_rows(js):
        toks = []
        for (t, sid, wd, st) in line:
            if st != style_str(sid):       # Char() appended " class:control-character " / " class:nbsp "
                sid = extra_styles.setdefault(st, 1000 + len(extra_styles))
            toks.append(f"{enc_str(t)} {sid} {wd}")
        L.append(" ".join(["row"] + toks))
    for y, x, t in js.get("zwe", []):
        L.append(f"zwe {y} {x} {enc_str(t)}")
    return L


def all_chars(case):
    cs = set()
    for op in case["ops"]:
        js = op.get("scr") if isinstance(op, dict) else None
        if js:
            for _, _, t, _ in js["cells"]:
                cs.update(Char(t, "").char)
    return cs


def header_lines(case):
    L = [f"cfg {case['W']} {case['H']} {enc_bool(case['fs'])} {enc_bool(case.get('cpr', 0))}", f"depth {case['depth']}"]
    plain = mk_attrs(PLAIN)
    for (sk, tk) in combos(case)[1]:
        for sid, a in sorted(style_table(case, sk, tk).items()):
            if a != plain:
                L.append(f"style {sk} {tk} {sid} {enc_attrs(a)}".replace("/", " "))
    cs = all_chars(case)
    wide = "".join(sorted(c for c in cs if get_cwidth(c) == 2))
    zero = "".join(sorted(c for c in cs if get_cwidth(c) == 0 and ord(c) >= 32 and ord(c) != 127))
    L.append(f"cw 2 {enc_str(wide)}")
    L.append(f"cw 0 {enc_str(zero)}")
    if case.get("tr"):
        L += tr_leaf_lines(case)
    return L


def world_attrs(case):
    """every Attrs value some (style sheet, transformation) in force at a render gives"""
    out = set()
    for (sk, tk) in combos(case)[1]:
        out.update(style_table(case, sk, tk).values())
    return out


# ------------------------------------------------------------------ the two drivers of the real code
class StubLayout:
    current_window = WIN
    visible_windows: list = []


class StubCursor:
    def __init__(self): self.shape = 0
    def get_cursor_shape(self, app): return SHAPES[self.shape]


class StubApp:
    def __init__(self, depth):
        self.layout = StubLayout()
        self.style_transformation = StubTransformation()
        self.color_depth = DEPTHS[depth]
        self.exit_style = ""
        self.cursor = StubCursor()


class StubContainer:
    """stands for layout.container: writes a prepared screen"""

    def __init__(self):
        self.js = None
        self.pref = None
        self.height = None

    def preferred_height(self, width, max_available_height):
        class D: preferred = self.js["h"] if self.pref is None else self.pref
        return D

    def write_to_screen(self, screen, mouse_handlers, write_position, parent_style, erase_bg, z_index):
        self.height = write_position.height
        build_screen(self.js, screen)


class StubRenderLayout(StubLayout):
    def __init__(self): self.container = StubContainer()


def last_tok(table_rev, last):
    return "N" if last is None else str(table_rev.get(last, "?"))


def op_depth(case, op):
    """colour depth of one render: `app.color_depth` may change between renders"""
    return op.get("depth", case["depth"])


def gridable(case):
    """the terminal comparison is made for chains (the terminal shows the previous screen)"""
    return not (case.get("nogrid") or not case.get("chain", True))


def grid_plan(case):
    """per op: compare the Lean terminal with the byte-level interpreter after this op?  Not after a size
    change or a bare reset (no terminal semantics), and not once the alternate screen has been left (the
    interpreter switches buffers, the model terminal is the alternate screen only)."""
    on = gridable(case)
    plan = []
    avail = case["H"] - (0 if case["fs"] else case.get("top", 0))
    for op in case["ops"]:
        k = op["op"]
        if k in ("size", "reset"):
            on = False
        if k == "clear":
            avail = case["H"]
        if k == "foreign":
            avail -= op["lines"]
        if "scr" in op and op["scr"]["h"] > avail:
            on = False          # the output does not fit below the origin: the terminal scrolls, the origin moves
        if case["fs"] and (k == "clear" or (k == "erase" and op.get("la", 1)) or op.get("done")):
            on = False
        plan.append(on and k in ("render", "diff", "erase", "clear"))
    return plan


def sgr_tok(sgr):
    """the interpreter's SGR state in the vocabulary of the Lean terminals: colours as the text of their SGR
    parameters ("31", "48;5;208", "38;2;255;136;0"), flags in the order of `Attrs`"""
    fg, bg, fl = sgr

    def col(c, is_bg):
        if not c:
            return ""
        if c[0] == "c":
            return str(int(c[1:]) + (10 if is_bg else 0))
        if c[0] == "p":
            return f"{48 if is_bg else 38};5;{c[1:]}"
        if c[0] == "r":
            return f"{48 if is_bg else 38};2;{int(c[1:3], 16)};{int(c[3:5], 16)};{int(c[5:7], 16)}"
        return "?" + c

    flags = "".join("1" if n in fl else "0" for n in ("bold", "underline", "strike", "italic", "blink", "reverse",
                                                       "hidden"))
    return f"{enc_str(col(fg, False))}/{enc_str(col(bg, True))}/{flags}"


def grid_line(vt: VT):
    def cell_tok(c):
        t = "".join(ch for ch in c[0] if get_cwidth(ch) != 0 or ch == "")
        return ".".join(str(ord(ch)) for ch in t) + ";" + sgr_tok(c[1])

    rows = ["|".join(cell_tok(c) for c in row) for row in vt.owned()]
    return (f"{vt.row - vt.top} {vt.col} {enc_bool(vt.visible)} {enc_bool(vt.autowrap)} {sgr_tok(vt.sgr)} "
            f"{vt.scrolled} {enc_bool(vt.oob)} " + " ".join(rows))


def rs_tok(r: Renderer, rev, trh=None):
    def opt(v):
        if trh is not None and v is not None and not isinstance(v, int):
            # a real transformation hash (strings / tuples): its position among the hashes seen so far
            return str(trh.index(v)) if v in trh else "?" + repr(v)
        return "N" if v is None else str(v)
    sz = "N" if r._last_size is None else f"{r._last_size.rows}x{r._last_size.columns}"
    shape = "N" if r._last_cursor_shape is None else str(SHAPES.index(r._last_cursor_shape))
    depth = "N" if r._last_color_depth is None else str(DEPTH_NUM[r._last_color_depth])
    cpr = {"UNKNOWN": "U", "SUPPORTED": "S", "NOT_SUPPORTED": "X"}[r.cpr_support.name]
    return (f"{r._cursor_pos.x} {r._cursor_pos.y} {last_tok(rev, r._last_style)} "
            f"{enc_bool(r._last_screen is not None)} {enc_bool(r._in_alternate_screen)}"
            f"{enc_bool(r._mouse_support_enabled)}{enc_bool(r._bracketed_paste_enabled)}"
            f"{enc_bool(r._cursor_key_mode_reset)}"
            f" sk={'N' if r._last_style_hash is None else r._last_style_hash} tk={opt(r._last_transformation_hash)}"
            f" d={depth} sz={sz} sh={shape}"
            f" min={r._min_available_height} cpr={cpr} wait={len(r._waiting_for_cpr_futures)}")


def snap_caches(afs, hs):
    """raw copy of the two dictionaries of a renderer (formatted later, when every style string has its id)"""
    return (None if afs is None else dict(afs), None if hs is None else dict(hs),
            None if (afs is None or hs is None) else (hs.style_string_to_attrs is afs))


def caches_tok(snap, rev):
    a, h, al = snap

    def fmt(d, f):
        if d is None:
            return "N"
        items = [(rev.get(k, "?" + k), v) for k, v in d.items()]
        items = [kv for kv in items if kv[0] != 1]       # the default char's style: see Drivers/C06.lean encCaches
        items.sort(key=lambda kv: (isinstance(kv[0], str), kv[0]))
        return ",".join(f"{k}={f(v)}" for k, v in items)

    return f"A[{fmt(a, enc_attrs)}] H[{fmt(h, enc_bool)}] alias={'-' if al is None else enc_bool(al)}"


class _TimerApp:
    """stands for get_app() inside Renderer.request_absolute_cursor_position: keeps the CPR-timeout coroutines
    so that a `cprtimeout` op can run the real one to completion"""

    def __init__(self):
        self.pending = []

    def create_background_task(self, coro):
        self.pending.append(coro)

    def fire(self):
        if self.pending:
            coro = self.pending.pop(0)
            try:
                coro.send(None)
            except StopIteration:
                pass

    def close(self):
        for c in self.pending:
            c.close()
        self.pending = []


async def _no_sleep(_t):
    return None


_LOOP = []


def _ensure_loop():
    import asyncio
    if not _LOOP:
        _LOOP.append(asyncio.new_event_loop())
    asyncio.set_event_loop(_LOOP[0])


def run_case(case, tee):
    """run the ops of a case on the real code; yields (op, calls, state token, bytes, extra)"""
    import prompt_toolkit.renderer as R
    clear_color_memos()
    W, H, fs = case["W"], case["H"], bool(case["fs"])
    rev = {style_str(k): k for k in all_sids(case)}
    out = RecOutput(W, H, tee=tee)
    out.cpr = bool(case.get("cpr", 0))
    app = StubApp(case["depth"])
    res = []
    if case["kind"] == "diff":
        style = StubStyle(case)
        afs = _StyleStringToAttrsCache(style.get_attrs_for_style_str, StubTransformation())
        hs = _StyleStringHasStyleCache(afs)
        prev = None
        pos, last = Point(0, 0), None
        for op in case["ops"]:
            if op["op"] == "size":
                out.w, out.h = op["W"], op["H"]
                res.append((op, None, None, "", None))
                continue
            scr = build_screen(op["scr"])
            app.color_depth = DEPTHS[op_depth(case, op)]
            if "pos" in op:
                pos = Point(x=op["pos"][0], y=op["pos"][1])
            if "last" in op:
                last = None if op["last"] is None else style_str(op["last"])
            if op.get("noprev"):
                prev = None
            pw = op.get("pw", out.w)
            pos, last = _output_screen_diff(app, out, scr, pos, app.color_depth, prev, last, bool(op["done"]),
                                            fs, afs, hs, out.get_size(), pw)
            res.append((op, out.take(), f"{pos.x} {pos.y} {last_tok(rev, last)}", out.take_bytes(),
                        {"caches": snap_caches(afs, hs)}))
            prev = scr
        return res
    _ensure_loop()
    style = StubStyle(case)
    layout = StubRenderLayout()
    app.layout = layout
    flag = {"mouse": False}
    tapp = _TimerApp()
    orig_get_app, orig_sleep = R.get_app, R.sleep
    R.get_app = lambda: tapp
    R.sleep = _no_sleep
    trg, trh = None, None
    if case.get("tr"):
        # the application's style transformation is a graph of REAL transformation objects
        trg = TrGraph(case["tr"])
        app.style_transformation = trg.root
        trh = [trg.root.invalidation_hash()]
    try:
        r = Renderer(style, out, full_screen=fs, mouse_support=Condition(lambda: flag["mouse"]))
        res.append(({"op": "init"}, out.take(), rs_tok(r, rev, trh), out.take_bytes(), None))
        for op in case["ops"]:
            k = op["op"]
            extra = {}
            if k == "size":
                out.w, out.h = op["W"], op["H"]
                res.append((op, None, None, "", None))
                continue
            if k == "foreign":
                # other output prints op["lines"] lines below the erased prompt: nothing the renderer sees
                res.append((op, None, None, "\r\n" * op["lines"], None))
                continue
            if k == "trset":
                # a filter flips / a dynamic target changes: the hash the REAL objects now report
                trg.set(op["set"])
                hv = trg.root.invalidation_hash()
                if hv not in trh:
                    trh.append(hv)
                res.append((op, None, None, "", {"tk": trh.index(hv)}))
                continue
            if k == "style":
                style.key = op["sk"]
                res.append((op, None, None, "", None))
                continue
            if k == "trans":
                app.style_transformation.key = op["tk"]
                res.append((op, None, None, "", None))
                continue
            err = None
            if k == "render":
                layout.container.js = op["scr"]
                layout.container.pref = op.get("pref")
                flag["mouse"] = bool(op.get("mouse", 0))
                if "key" in op:
                    style.key = op["key"]
                app.cursor.shape = op.get("shape", 0)
                app.color_depth = DEPTHS[op_depth(case, op)]
                r.render(app, layout, is_done=bool(op["done"]))
                extra["height"] = layout.container.height
                extra["caches"] = snap_caches(r._attrs_for_style, r._style_string_has_style)
            elif k == "erase":
                r.erase(leave_alternate_screen=bool(op.get("la", 1)))
            elif k == "reset":
                r.reset(_scroll=bool(op.get("sc", 0)), leave_alternate_screen=bool(op.get("la", 1)))
            elif k in ("clear", "reqcpr"):
                n0 = len(tapp.pending)
                try:
                    if k == "clear":
                        r.clear()
                    else:
                        r.request_absolute_cursor_position()
                except AssertionError:
                    err = "err:AssertionError"
                extra["timer"] = len(tapp.pending) - n0
            elif k == "cprrow":
                r.report_absolute_cursor_row(op["row"])
            elif k == "cprtimeout":
                tapp.fire()
            elif k == "hknown":
                extra["value"] = enc_bool(r.height_is_known)
            elif k == "rowsabove":
                try:
                    extra["value"] = str(r.rows_above_layout)
                except R.HeightIsUnknownError:
                    extra["value"] = "err:HeightIsUnknownError"
            else:
                raise ValueError(k)
            extra["err"] = err
            res.append((op, out.take(), rs_tok(r, rev, trh), out.take_bytes(), extra))
    finally:
        tapp.close()
        R.get_app, R.sleep = orig_get_app, orig_sleep
    return res


# ------------------------------------------------------------------ screens from real layouts
_LAYOUT_CACHE: dict[str, dict] = {}
LAYOUT_KEYS = ["a", "l", "p", "b", " ", "世", "é", "\x01", "\x05", "\x02", "\x06", "\x7f", "\x0b", "\x19", "\t",
               "\x1b[A", "\x1b[B", "\x1b[D", "\x1b[C", "\x16\x01", "\x1b\r", "x", "\x17"]


def layout_to_rend(case):
    """run a real PromptSession (real layout, real Renderer) on the case's keys, capture every Screen handed to
    the differ, and return the equivalent explicit `rend` case (screens + interned styles)"""
    import json as _json
    key = _json.dumps(case, sort_keys=True)
    if key in _LAYOUT_CACHE:
        return _LAYOUT_CACHE[key]
    import asyncio
    import prompt_toolkit.renderer as R
    from editor import editor
    from prompt_toolkit.completion import WordCompleter
    from prompt_toolkit.formatted_text import FormattedText

    cfg = case["cfg"]
    W, H, fs = case["W"], case["H"], bool(case["fs"])
    top = 0 if fs else case.get("top", 0)
    kw = dict(text=cfg.get("text", ""), multiline=bool(cfg.get("multiline")),
              reserve_space_for_menu=cfg.get("menu", 2), wrap_lines=bool(cfg.get("wrap", 1)))
    if cfg.get("completer"):
        kw.update(completer=WordCompleter(["alpha", "alpine", "beta", "世界", "pal"]), complete_while_typing=True)
    if cfg.get("toolbar"):
        kw.update(bottom_toolbar=cfg["toolbar"])
    if cfg.get("rprompt"):
        kw.update(rprompt=cfg["rprompt"])
    msg = cfg.get("message", "> ")
    if isinstance(msg, list):
        msg = FormattedText([tuple(x) for x in msg])
    kw.update(message=msg)

    from prompt_toolkit.styles import Style, SwapLightAndDarkStyleTransformation
    lsheets = [(None, None),
               (Style.from_dict({"bottom-toolbar": "noreverse bg:#004400 #ffffff", "completion-menu": "bg:ansiblue",
                                 "prompt": "bg:ansired"}), None),
               (Style.from_dict({"bottom-toolbar": "noreverse", "completion-menu": "noreverse nounderline",
                                 "rprompt": "bg:#303030"}), None),
               (None, SwapLightAndDarkStyleTransformation()),
               (Style.from_dict({"bottom-toolbar": "noreverse bg:#004400 #ffffff"}),
                SwapLightAndDarkStyleTransformation()),
               # PromptSession(swap_light_and_dark_colors=…): the session's ConditionalStyleTransformation flips
               (None, None, True),
               (Style.from_dict({"prompt": "bg:ansired", "completion-menu": "bg:ansiblue"}), None, True)]
    captured = []
    orig = R._output_screen_diff

    def spy(app, output, screen, *a, **k):
        captured.append(screen)
        return orig(app, output, screen, *a, **k)

    sids = {"": 0, "[transparent]": 1}
    attrs = {}
    ops = []
    R._output_screen_diff = spy
    try:
        with editor(**kw) as ed:
            app = ed.app
            out = RecOutput(W, H)
            app.output = out
            app.full_screen = fs
            app.renderer = Renderer(app._merged_style, out, full_screen=fs, mouse_support=app.mouse_support)
            cur_depth = {"d": case["depth"]}
            cur_sheet = {"k": 0, "sent": 0}
            app._color_depth = lambda: DEPTHS[cur_depth["d"]]       # a callable colour depth, flipped between keys
            cpr_told = bool(not fs and cfg.get("cpr", 1))
            if cpr_told:
                # the terminal answered the cursor position request truthfully: the origin is on row top + 1
                app.renderer.report_absolute_cursor_row(top + 1)
                ops.append({"op": "cprrow", "row": top + 1})

            prefs = []

            def render():
                async def go():
                    for _ in range(3):
                        await asyncio.sleep(0)
                    app.render_counter += 1
                    # the preferred height the layout reports for this render (what Renderer.render asks for)
                    prefs.append(int(app.layout.container.preferred_height(W, H).preferred))
                    app.renderer.render(app, app.layout, is_done=ed.done)
                ed._loop.run_until_complete(go())
                scr = captured.pop()
                del captured[:]
                cells = []
                sheet = cur_sheet["k"]
                for y in sorted(scr.data_buffer):
                    row = scr.data_buffer[y]
                    for x in sorted(row):
                        ch = row[x]
                        if ch.style not in sids:
                            sids[ch.style] = len(sids)
                        sid = sids[ch.style]
                        if (sheet, sid) not in attrs:
                            # (a plain lookup: does not touch the renderer's dictionaries)
                            attrs[(sheet, sid)] = app.style_transformation.transform_attrs(
                                app.renderer.style.get_attrs_for_style_str(ch.style))
                        cells.append([y, x, ch.char, sid])
                if sheet != cur_sheet["sent"]:
                    ops.append({"op": "style", "sk": sheet})
                    cur_sheet["sent"] = sheet
                zwe = [[y, x, t] for y, r in scr.zero_width_escapes.items() for x, t in r.items()]
                cur = scr.get_cursor_position(app.layout.current_window)
                ops.append({"op": "render", "scr": {"h": scr.height, "cur": [cur.x, cur.y],
                                                     "show": int(bool(scr.show_cursor)), "cells": cells, "zwe": zwe},
                            "done": int(bool(ed.done)), "raw": 1, "depth": cur_depth["d"], "pref": prefs.pop()})

            render()
            flips = case.get("depths") or []
            sflips = case.get("sflips") or []
            for i, k in enumerate(case["keys"]):
                if ed.done:
                    break
                ed.feed(k)
                if i < len(flips) and flips[i]:
                    cur_depth["d"] = flips[i]
                if i < len(sflips) and sflips[i] is not None:
                    # the application switches its colour scheme: another style sheet / style transformation
                    cur_sheet["k"] = sflips[i]
                    ed.session.style = lsheets[sflips[i]][0]
                    ed.session.style_transformation = lsheets[sflips[i]][1]
                    ed.session.swap_light_and_dark_colors = len(lsheets[sflips[i]]) > 2
                intr = case.get("interrupt")
                if intr and not fs and intr["at"] == i and not ed.done:
                    # run_in_terminal / print above the prompt: the prompt is erased, other output moves the cursor
                    # down, the prompt is drawn again (before or after the terminal reported the new cursor row)
                    app.renderer.erase()
                    ops.append({"op": "erase", "la": 1})
                    ops.append({"op": "foreign", "lines": intr["lines"]})
                    top += intr["lines"]
                    if intr.get("report") and cpr_told:
                        app.renderer.report_absolute_cursor_row(top + 1)
                        ops.append({"op": "cprrow", "row": top + 1})
                render()
    finally:
        R._output_screen_diff = orig
    styles, sheets = [], {}
    for (sheet, sid), a in sorted(attrs.items()):
        fl = "".join("1" if x else "0" for x in (a.bold, a.underline, a.strike, a.italic, a.blink, a.reverse,
                                                  a.hidden))
        row = [sid, a.color or "", a.bgcolor or "", fl]
        if sheet == 0:
            styles.append(row)
        else:
            sheets.setdefault(str(sheet), []).append(row)
    for i in range(1, len(lsheets)):
        sheets.setdefault(str(i), [])
    rend = {"kind": "rend", "W": W, "H": H, "top": 0 if fs else case.get("top", 0), "fs": int(fs),
            "depth": case["depth"], "styles": styles,
            "sheets": sheets, "chain": True, "ops": ops, "from_layout": True, "cpr": int(cpr_told)}
    _LAYOUT_CACHE[key] = rend
    return rend


def resolve(case):
    return layout_to_rend(case) if case.get("kind") == "layout" else case


def model_lines(case):
    case = resolve(case)
    L = header_lines(case)
    extra: dict[str, int] = {}
    top = 0 if case["fs"] else case.get("top", 0)
    body = [f"term {top}"]
    plan = grid_plan(case)
    trvals = tr_vals_per_op(case) if case.get("tr") else None
    if trvals is not None:
        body.append("settr " + tr_term(case["tr"], {int(k): v for k, v in case["tr"]["slots"].items()}))
    if case["kind"] != "diff":
        body.append(f"init {enc_bool(case.get('cpr', 0))}")
        body.append("bytes")
    for j, (op, grid) in enumerate(zip(case["ops"], plan)):
        k = op["op"]
        if k == "size":
            body.append(f"size {op['W']} {op['H']}")
        elif k == "trset":
            body.append("settr " + tr_term(case["tr"], trvals[j]))
        elif k == "foreign":
            body.append(f"foreign {op['lines']}")
        elif k == "style":
            body.append(f"setstyle {op['sk']}")
        elif k == "trans":
            body.append(f"settrans {op['tk']}")
        elif k == "diff":
            body += screen_lines(op["scr"], extra)
            body.append(f"depth {op_depth(case, op)}")
            if op.get("noprev"):
                body.append("noprev")
            body.append("diff " + " ".join([
                "-" if "pos" not in op else str(op["pos"][0]),
                "-" if "pos" not in op else str(op["pos"][1]),
                "-" if "last" not in op else ("N" if op["last"] is None else str(op["last"])),
                enc_bool(op["done"]), "-" if "pw" not in op else str(op["pw"])]))
            body.append("keep")
        elif k == "render":
            body += screen_lines(op["scr"], extra)
            body.append(f"depth {op_depth(case, op)}")
            if "key" in op:
                body.append(f"setstyle {op['key']}")
            body.append(f"render {enc_bool(op['done'])} {enc_bool(op.get('mouse', 0))} {op.get('shape', 0)} "
                        f"{op.get('pref', op['scr']['h'])}")
        elif k == "erase":
            body.append(f"erase {enc_bool(op.get('la', 1))}")
        elif k == "reset":
            body.append(f"reset {enc_bool(op.get('sc', 0))} {enc_bool(op.get('la', 1))}")
        elif k in ("clear", "reqcpr", "cprtimeout", "hknown", "rowsabove"):
            body.append(k)
        elif k == "cprrow":
            body.append(f"cprrow {op['row']}")
        else:
            raise ValueError(k)
        if k in ("diff", "render", "erase", "reset", "clear", "reqcpr"):
            body.append("bytes")
        if grid:
            body.append("grid")
            body.append("bgrid")
        if op.get("done") and k in ("render", "diff"):
            body.append(f"term {top}")       # the next prompt starts on a fresh terminal
    return L + body


def impl_lines(case):
    case = resolve(case)
    extra: dict[str, int] = {}
    out = ["ok"] * len(header_lines(case))
    plan = grid_plan(case)
    tee = True          # every call also goes to a real Vt100_Output: its bytes are compared with the encoder's
    res = run_case(case, tee=tee)
    # ids of the style strings that Char() derived itself (control characters): as model_lines allocates them
    for op in case["ops"]:
        if "scr" in op:
            screen_lines(op["scr"], extra)
    rev = {style_str(k): k for k in all_sids(case)}
    rev.update(extra)
    extra = {}
    top = 0 if case["fs"] else case.get("top", 0)
    vt = VT(case["W"], case["H"] - top, top) if any(plan) else None
    body = ["ok"]
    if case.get("tr"):
        body.append("tk=0")
    if case["kind"] != "diff":
        op, calls, st, data, _ = res.pop(0)
        if vt:
            vt.feed(data)
        body.append(f"{enc_calls(calls)} | {st}")
        body.append(enc_str(data))
    for (op, calls, st, data, ex), grid in zip(res, plan):
        k = op["op"]
        if k == "foreign":
            body.append("ok")
            if vt:
                vt.feed(data)
                vt.top = vt.row          # the cursor row is the renderer's new origin
            continue
        if k == "trset":
            body.append(f"tk={ex['tk']}")
            continue
        if k in ("size", "style", "trans"):
            body.append("ok")
            continue
        if "scr" in op:
            body += ["ok"] * (len(screen_lines(op["scr"], extra)) + 1)      # + the depth line
        if k == "diff" and op.get("noprev"):
            body.append("ok")
        if k == "render" and "key" in op:
            body.append("ok")
        if k == "diff":
            body.append(f"{enc_calls(calls)} | {st} | {caches_tok(ex['caches'], rev)}")
            body.append("ok")  # keep
        elif k == "render":
            body.append(f"{enc_calls(calls)} | {st} | h={ex['height']} | {caches_tok(ex['caches'], rev)}")
        elif k in ("clear", "reqcpr"):
            body.append(ex["err"] or f"{enc_calls(calls)} | {st} | timer={ex['timer']}")
        elif k in ("cprrow", "cprtimeout"):
            body.append(st)
        elif k in ("hknown", "rowsabove"):
            body.append(ex["value"])
        else:
            body.append(f"{enc_calls(calls)} | {st}")
        if k in ("diff", "render", "erase", "reset", "clear", "reqcpr"):
            body.append(enc_str(data))
        if vt:
            vt.feed(data)
            if k == "clear":
                vt.top = 0
        if grid:
            body.append(grid_line(vt))                  # the abstract terminal executing the calls
            body.append("g " + grid_line(vt))           # the Lean byte-level interpreter reading the bytes
        if op.get("done") and k in ("render", "diff"):
            if vt:
                vt = vt.fresh()
            body.append("ok")
    return out + body


# ------------------------------------------------------------------ oracle
def _viol(site, cond, msg):
    return {"signature": f"{site} | {cond}", "msg": msg}


def expected_cells(js, case, W, H, depth, sk=0, tk=0, tr=None):
    """what the owned rows must show for screen `js`: {(y, x): (text, sgr)} for the cells laid out from the
    left, a wide / multi-character cell covering the following columns; everything else blank"""
    out = Vt100_Output(io.StringIO(), lambda: Size(1, 1), term="xterm")
    cache = out._escape_code_caches[DEPTHS[depth]]
    tab = style_table(case, sk, tk)
    if tr is not None:
        # the REAL transformation objects, in their current state, applied to the style sheet's attributes
        tab = {k: tr.root.transform_attrs(v) for k, v in sheet_table(case, sk).items()}
    plain = mk_attrs(PLAIN) if tr is None else tr.root.transform_attrs(mk_attrs(PLAIN))

    by_name = {style_str(k): v for k, v in tab.items()}
    memo = {}

    def sgr(style):
        if style not in memo:
            v = VT(1, 1)
            v.feed(cache[by_name.get(style, plain)])
            memo[style] = v.sgr
        return memo[style]

    rows: dict[int, dict[int, Char]] = {}
    for y, x, t, sid in js["cells"]:
        rows.setdefault(y, {})[x] = Char(t, style_str(sid))
    exp = {}
    for y in range(min(js["h"], H)):
        r = rows.get(y, {})
        c = 0
        while c < W:
            ch = r.get(c)
            if ch is None:
                c += 1
                continue
            a = sgr(ch.style)
            col = c
            for u in ch.char:
                k = get_cwidth(u)
                if k == 0:
                    if (y, col - 1) in exp and col > c:
                        t0, a0 = exp[(y, col - 1)]
                        exp[(y, col - 1)] = (t0 + u, a0)
                    continue
                if col + k <= W:
                    exp[(y, col)] = (u, a)
                    for i in range(1, k):
                        exp[(y, col + i)] = ("", a)
                col += k
            c += ch.width or 1
    return exp


def compare_grid(vt: VT, exp, W, H, shift=0):
    """first owned cell that is not visibly what `exp` says (rows shifted up by `shift` after a scroll)"""
    g = vt.owned()
    for y in range(len(g) - shift):
        for x in range(W):
            want = vis(exp.get((y + shift, x), (" ", VT.PLAIN)))
            got = vis(g[y][x]) if y < len(g) else None
            if want != got:
                return (y, x, want, got)
    return None


class _TtyIO(io.StringIO):
    def isatty(self):
        return True


class _Real:
    """runs the ops of a chain case on the real code with a real Vt100_Output; yields per op the bytes"""

    def __init__(self, case):
        self.case = case
        self.W, self.H, self.fs = case["W"], case["H"], bool(case["fs"])
        cpr = bool(case.get("cpr", 0))
        self.buf = _TtyIO() if cpr else io.StringIO()
        self.out = Vt100_Output(self.buf, lambda: Size(rows=self.H, columns=self.W), term="xterm",
                                enable_cpr=cpr)
        self.app = StubApp(case["depth"])
        self.trg = None

    def _tk(self):
        return getattr(self.app.style_transformation, "key", 0)

    def take(self):
        self.out.flush()
        s = self.buf.getvalue()
        self.buf.seek(0)
        self.buf.truncate()
        return s

    def steps(self):
        """yields (op, bytes, height of the previous screen, (sk, tk) in force)"""
        import prompt_toolkit.renderer as R
        clear_color_memos()
        case = self.case
        style = StubStyle(case)
        if case["kind"] == "diff":
            afs = _StyleStringToAttrsCache(style.get_attrs_for_style_str, StubTransformation())
            hs = _StyleStringHasStyleCache(afs)
            prev, pos, last = None, Point(0, 0), None
            for op in case["ops"]:
                scr = build_screen(op["scr"])
                self.app.color_depth = DEPTHS[op_depth(case, op)]
                if op.get("noprev"):
                    prev = None
                if "pos" in op:
                    pos = Point(x=op["pos"][0], y=op["pos"][1])
                last_h = prev.height if prev is not None else 0
                pos, last = _output_screen_diff(self.app, self.out, scr, pos, self.app.color_depth, prev, last,
                                                bool(op["done"]), self.fs, afs, hs, self.out.get_size(), self.W)
                self.out.flush()
                yield dict(op, op="render"), self.take(), last_h, (0, 0)
                prev = scr
            return
        _ensure_loop()
        layout = StubRenderLayout()
        self.app.layout = layout
        if case.get("tr"):
            self.trg = TrGraph(case["tr"])
            self.app.style_transformation = self.trg.root
        flag = {"mouse": False}
        tapp = _TimerApp()
        orig_get_app, orig_sleep = R.get_app, R.sleep
        R.get_app = lambda: tapp
        R.sleep = _no_sleep
        try:
            r = Renderer(style, self.out, full_screen=self.fs, mouse_support=Condition(lambda: flag["mouse"]))
            yield {"op": "init"}, self.take(), 0, (0, 0)
            for op in case["ops"]:
                k = op["op"]
                last_h = r._last_screen.height if r._last_screen is not None else 0
                if k == "foreign":
                    yield op, "\r\n" * op["lines"], last_h, (style.key, self._tk())
                    continue
                if k == "trset":
                    self.trg.set(op["set"])
                    continue
                if k == "style":
                    style.key = op["sk"]
                    continue
                if k == "trans":
                    self.app.style_transformation.key = op["tk"]
                    continue
                if k == "render":
                    layout.container.js = op["scr"]
                    layout.container.pref = op.get("pref")
                    flag["mouse"] = bool(op.get("mouse", 0))
                    if "key" in op:
                        style.key = op["key"]
                    self.app.cursor.shape = op.get("shape", 0)
                    self.app.color_depth = DEPTHS[op_depth(case, op)]
                    r.render(self.app, layout, is_done=bool(op["done"]))
                elif k == "erase":
                    r.erase(leave_alternate_screen=bool(op.get("la", 1)))
                elif k == "clear":
                    r.clear()
                elif k == "reqcpr":
                    try:
                        r.request_absolute_cursor_position()
                    except AssertionError:
                        pass
                elif k == "cprrow":
                    r.report_absolute_cursor_row(op["row"])
                elif k == "cprtimeout":
                    tapp.fire()
                elif k in ("hknown", "rowsabove"):
                    continue
                else:
                    return      # size change / bare reset: the chain property is not defined beyond
                yield op, self.take(), last_h, (style.key, self._tk())
        finally:
            tapp.close()
            R.get_app, R.sleep = orig_get_app, orig_sleep


def scratch_vt(case, js, done, top, depth, sk=0, tk=0, tr=None):
    """clear + draw `js` from scratch with the real differ (fresh dictionaries) on a fresh terminal, under style
    sheet `sk` and style transformation `tk`"""
    W, H, fs = case["W"], case["H"], bool(case["fs"])
    buf = io.StringIO()
    out = Vt100_Output(buf, lambda: Size(rows=H, columns=W), term="xterm", enable_cpr=False)
    style = StubStyle(case)
    style.key = sk
    if tr is None:
        tro = StubTransformation()
        tro.key = tk
    else:
        tro = tr.root          # the live transformation objects, as they are now
    afs = _StyleStringToAttrsCache(style.get_attrs_for_style_str, tro)
    hs = _StyleStringHasStyleCache(afs)
    app = StubApp(depth)
    _output_screen_diff(app, out, build_screen(js), Point(0, 0), app.color_depth, None, None, done, fs, afs, hs,
                        Size(rows=H, columns=W), 0)
    out.flush()
    vt = VT(W, H - top, top)
    vt.feed(buf.getvalue())
    return vt


SKIPS: list = []


def oracle(case):
    if not case.get("chain", True):
        return []
    case = resolve(case)
    W, H, fs = case["W"], case["H"], bool(case["fs"])
    top = 0 if fs else case.get("top", 0)
    vt = VT(W, H - top, top)
    v = []
    site = "_output_screen_diff"

    tag = {"s": ""}

    def bad(cond, msg):
        cond = cond + tag["s"]
        if not any(x["signature"].endswith("| " + cond) for x in v):
            v.append(_viol(site, cond, msg))

    real = _Real(case)
    # the cursor position report in force: None = none (never given, or forgotten by the reset in erase / clear /
    # the done render), True = a truthful one (the origin row), False = an untruthful one
    report = None
    for i, (op, data, last_h, (sk, tk)) in enumerate(real.steps()):
        k = op["op"]
        scrolled0 = vt.scrolled
        vt.writes = []
        if k == "foreign":
            # other output below the erased prompt: the cursor moves down, the rows it passed are not ours any more
            old_top = vt.top
            vt.feed(data)
            if vt.scrolled != scrolled0:
                return v            # (the foreign output itself scrolled: not a scenario about the renderer)
            vt.top = vt.row
            for y in range(old_top, vt.top):
                vt.grid[y] = [vt.sentinel for _ in range(W)]
            continue
        if real.trg is not None:
            # does the transformation in force make the style of Screen's default char visible on an empty cell?
            # (ReverseStyleTransformation, SetDefaultColorStyleTransformation do: the differ never paints the cells
            #  that equal the default char, so the property is known not to hold then — see known_findings.json)
            d = real.trg.root.transform_attrs(mk_attrs(PLAIN))
            vis_d = bool(d.color or d.bgcolor or d.underline or d.strike or d.blink or d.reverse)
            tag["s"] = " [default style made visible by the style transformation]" if vis_d else ""
        if k == "cprrow":
            report = (op["row"] == vt.top + 1)
        if "scr" in op and case.get("from_layout") and not fs and not op.get("done") and op.get("pref") is not None \
                and report is not False:
            # the renderer either knows how many rows lie between the origin and the bottom of the terminal, or knows
            # nothing (a reset forgets the report): a layout whose preferred height fits there must not be given
            # (and draw) more rows than that
            avail = vt.H - vt.top
            if op["pref"] <= avail and last_h <= avail and op["scr"]["h"] > avail:
                why = ("although the cursor row was reported" if report else
                       "although no cursor position report is in force (a reset forgets it)")
                v.append(_viol("Renderer.render", "screen taller than the rows below the origin " + why,
                               f"op#{i}: height={op['scr']['h']} available={avail} "
                               f"preferred={op['pref']} previous height={last_h}"))
                return v
        if k in ("erase", "clear") or op.get("done"):
            report = None
        if "scr" in op:
            # preconditions of the property (a layout never violates them; a shrunk replay might)
            js = op["scr"]
            cx0, cy0 = js.get("cur") or [0, 0]
            # (a wide character whose right half would lie beyond the last column is excluded by the property:
            #  what a terminal does with it when autowrap is off is not defined by the terminal model.  Real
            #  layouts produce it rarely: Window with wrap_lines=False and a line wider than the window.)
            straddle = any(c[1] < W < c[1] + (Char(c[2], "").width or 0) for c in js["cells"])
            if js["h"] > vt.H - vt.top or not (cx0 < max(W, 1) and cy0 < max(1, js["h"])) or straddle or \
                    any(c[0] >= js["h"] for c in js["cells"]):
                SKIPS.append((f"op#{i}", js["h"], vt.H - vt.top, (cx0, cy0)))
                if case.get("from_layout") and (any(c[0] >= js["h"] for c in js["cells"]) or cx0 >= max(W, 1)):
                    # a real layout must establish these: the differ relies on them
                    v.append(_viol("layout", "screen violates WFScreen / cursor outside the terminal",
                                   f"op#{i}: height={js['h']} cursor={(cx0, cy0)} rows={sorted({c[0] for c in js['cells']})}"))
                return v
        rest = ""
        if k == "render" and op.get("done") and "\x1b[?1049l" in data:
            cut = data.index("\x1b[?1049l")      # Renderer.reset() after the done render leaves the alt screen
            data, rest = data[:cut], data[cut:]
        vt.feed(data)
        where = f"op#{i} {k} W={W} H={H} fs={int(fs)}"
        if k == "clear":
            vt.top = 0
        if vt.unknown:
            bad("unknown escape sequence", f"{where}: {vt.unknown[:3]}")
            vt.unknown = []
        if vt.oob:
            bad("cursor moved past the top/left margin of the owned area", where)
            vt.oob = False
        legit_shift = 1 if (k in ("render", "diff") and op.get("done")
                            and min(op["scr"]["h"], H) >= vt.H - vt.top) else 0
        if any(c != vt.sentinel for y in range(max(0, vt.top - min(legit_shift, vt.scrolled - scrolled0)))
               for c in vt.grid[y]):
            bad("rows above the origin changed", where)
        if k in ("init", "reqcpr", "cprrow", "cprtimeout"):
            if vt.scrolled != scrolled0 or vt.writes:
                bad("scrolled", f"{where}: {k} wrote to the terminal")
            continue
        if k in ("erase", "clear"):
            g = vt.owned()
            if any(vis(c) != (" ", VT.PLAIN) for row in g for c in row):
                bad(f"{k}: output not erased", where)
            if (vt.row, vt.col) != (vt.top, 0):
                bad(f"{k}: cursor not at the origin", f"{where}: cursor {(vt.row - vt.top, vt.col)}")
            if vt.sgr != VT.PLAIN or not vt.autowrap:
                bad(f"{k}: attributes / autowrap not restored", where)
            if vt.scrolled != scrolled0:
                bad("scrolled", where)
            continue
        js, done = op["scr"], bool(op["done"])
        new_h = min(js["h"], H)
        bound = min(max(last_h, js["h"]), H)
        shift = vt.scrolled - scrolled0
        if done:
            if shift != legit_shift:
                bad("scrolled", f"{where}: done render scrolled {shift} lines, output height {new_h}")
        elif shift:
            bad("scrolled", f"{where}: scrolled {shift} lines")
        outside = [(y - vt.top + shift, x) for (y, x) in vt.writes
                   if not (vt.top <= y + shift < vt.top + bound and x < W)]
        if outside and not shift:
            bad("wrote outside the owned rows", f"{where}: cells {outside[:4]} bound rows<{bound}")
        depth = op_depth(case, op)       # colours are compared as emitted at the depth of THIS render
        with clean_color_memos():
            exp = expected_cells(js, case, W, H, depth, sk, tk, real.trg)
        d = compare_grid(vt, exp, W, H, shift)
        if d:
            bad("terminal does not show the screen",
                f"{where}: cell (y={d[0]},x={d[1]}) want {d[2]} got {d[3]}; screen={js}")
        with clean_color_memos():
            sv = scratch_vt(case, js, done, vt.top, depth, sk, tk, real.trg)
        if depth == 4 and real.trg is None and not shift:
            # 16-colour approximation: the background of a cell never collapses onto its foreground unless the two
            # RGB values are equal
            tab4 = style_table(case, sk, tk)
            ansi = set(Vt100_Output.__init__.__globals__["FG_ANSI_COLORS"])
            g4 = vt.owned()
            for (cy, cx, ct, csid) in js["cells"]:
                a4 = tab4.get(csid)
                if a4 is None or not a4.color or not a4.bgcolor or a4.color == a4.bgcolor:
                    continue
                if a4.color in ansi or a4.bgcolor in ansi or cy >= len(g4) or cx >= W or not ct or ct == " ":
                    continue
                cell = g4[cy][cx]
                if cell[0] == ct and cell[1][0] and cell[1][0] == cell[1][1]:
                    bad("foreground and background of a cell mapped to the same ANSI colour",
                        f"{where}: cell (y={cy},x={cx}) fg={a4.color} bg={a4.bgcolor} both shown as {cell[1][0]}")
                    break
        # compare with the from-scratch draw (same origin-relative coordinates)
        ga, gb = vt.owned(), sv.owned()
        diffc = None
        for y in range(min(len(ga), len(gb))):
            for x in range(W):
                if vis(ga[y][x]) != vis(gb[y][x]):
                    diffc = diffc or (y, x, ga[y][x], gb[y][x])
        if diffc:
            bad("incremental != from-scratch (cells)",
                f"{where}: cell (y={diffc[0]},x={diffc[1]}) incremental {diffc[2]} scratch {diffc[3]}; screen={js}")
        if (vt.row - vt.top, vt.col) != (sv.row - sv.top, sv.col):
            bad("incremental != from-scratch (cursor)",
                f"{where}: cursor {(vt.row - vt.top, vt.col)} vs scratch {(sv.row - sv.top, sv.col)}")
        after_reset = done and case["kind"] != "diff"      # Renderer.reset() shows the cursor again
        if vt.sgr != VT.PLAIN:
            bad("attributes not reset after render", where)
        if vt.autowrap != (done or not fs):
            bad("autowrap state", f"{where}: autowrap={vt.autowrap}")
        if done:
            if (vt.row - vt.top, vt.col) != (new_h - shift, 0):
                bad("done: cursor not on the line below the output",
                    f"{where}: cursor {(vt.row - vt.top, vt.col)} output height {new_h}")
            vt.feed(rest)
            if vt.visible != (True if after_reset else bool(js["show"])):
                bad("cursor visibility", f"{where}: visible={vt.visible} after the done render")
            vt = vt.fresh()             # the next prompt starts on a fresh terminal (modes are kept)
        else:
            if vt.visible != sv.visible:
                bad("incremental != from-scratch (cursor visibility)", where)
            if vt.visible != bool(js["show"]):
                bad("cursor visibility", f"{where}: visible={vt.visible} show_cursor={js['show']}")
            cx, cy = js.get("cur") or [0, 0]
            if (vt.row - vt.top, vt.col) != (cy, min(cx, W - 1)):
                bad("cursor position", f"{where}: cursor {(vt.row - vt.top, vt.col)} want {(cy, min(cx, W - 1))}")
    return v


# ------------------------------------------------------------------ generators
STYLES = [[2, "", "ansired", "0000000"], [3, "ansiblue", "", "1000000"], [4, "ansiblue", "", "1000000"],
          [5, "", "", "1000000"], [6, "", "", "0100000"], [7, "ff8800", "004400", "0000010"],
          [8, "ff8800", "", "0000000"], [9, "", "", "0001001"]]
# other style sheets for the same style strings: under sheet 1 the bg-red blank (2) becomes bold-only (nothing
# visible on a blank), the bold-only one (5) gets a red background, underline (6) becomes plain, the
# italic+hidden one (9) gets underlined, …; under sheet 2 every style string is plain; sheet 3 = sheet 0 with
# another invalidation hash
SHEETS = {"1": [[2, "", "", "1000000"], [3, "", "ansigreen", "0000000"], [4, "ansiblue", "", "1000000"],
                [5, "", "ansired", "0000000"], [6, "", "", "0000000"], [7, "", "", "0000010"],
                [8, "", "004400", "0000000"], [9, "", "", "0100000"]],
          "2": []}
GLYPHS = ["a", "b", "x", "y", "_"]


def rand_screen(rng, W, H, rich=True, wild=False):
    h = rng.choice([0, 1, 1, 2, H, H, max(H - 1, 0), rng.randrange(0, H + 1)] + ([H + 1] if wild else []))
    if not wild:
        h = min(h, H)
    cells, zwe = [], []
    for y in range(h):
        if rng.random() < 0.25:
            continue
        L = rng.choice([0, 1, W, W, max(W - 1, 0), rng.randrange(0, W + 1)] + ([W + 2] if rich else []))
        x = 0
        while x < L:
            k = rng.random()
            sid = rng.choice([0, 0, 1, 2, 3, 4, 5, 6, 7, 8, 9])
            if k < 0.12:
                x += 1                      # gap: the default char
                continue
            if k < 0.45:
                cells.append([y, x, rng.choice(GLYPHS), sid])
            elif k < 0.70:
                cells.append([y, x, " ", sid])
            elif rich and k < 0.80 and (x + 1 < W or x >= W):
                cells.append([y, x, rng.choice(["世", "界", "\x01", "\x1b"]), sid])
                cells.append([y, x + 1, "", sid])
                x += 1
            elif rich and k < 0.84:
                cells.append([y, x, "é", sid])
            elif rich and k < 0.87:
                cells.append([y, x, "\xa0", sid])
            else:
                cells.append([y, x, rng.choice(GLYPHS), 0])
            if rich and rng.random() < 0.03:
                zwe.append([y, x, "\x1b]8;;u\x1b\\"])
            x += 1
    hh = max(1, min(h, H))
    cur = [rng.choice([0, max(W - 1, 0), rng.randrange(0, W)]), rng.randrange(0, hh)]
    if wild and rng.random() < 0.1:
        cur[0] = W + rng.randrange(0, 2)
    return {"h": h, "cur": cur, "show": rng.randrange(2), "cells": cells, "zwe": zwe}


def mutate_screen(rng, js, W, H):
    """a small edit of the previous screen (what typing does): the interesting case for a differ"""
    js = {"h": js["h"], "cur": list(js["cur"]), "show": js["show"], "cells": [list(c) for c in js["cells"]],
          "zwe": [list(z) for z in js.get("zwe", [])]}
    # never split a wide pair: only edit narrow single cells
    narrow = [i for i, c in enumerate(js["cells"]) if len(c[2]) == 1 and get_cwidth(Char(c[2], "").char) == 1
              and not (i + 1 < len(js["cells"]) and js["cells"][i + 1][2] == "")]
    for _ in range(rng.randrange(1, 4)):
        k = rng.random()
        if k < 0.4 and narrow:
            i = rng.choice(narrow)
            js["cells"][i][2] = rng.choice(GLYPHS + [" "])
        elif k < 0.6 and narrow:
            i = rng.choice(narrow)
            js["cells"][i][3] = rng.choice([0, 1, 2, 3, 4, 5, 6])
        elif k < 0.8 and narrow:
            i = rng.choice(narrow)
            js["cells"].pop(i)
            narrow = [j if j < i else j - 1 for j in narrow if j != i]
        else:
            hh = max(1, min(js["h"], H))
            js["cur"] = [rng.randrange(0, max(W, 1)), rng.randrange(0, hh)]
    return js


def rand_chain(rng, tier):
    W = rng.choice([1, 2, 3, 4, 5, 8, 12])
    H = rng.choice([1, 2, 3, 4, 6])
    fs = rng.randrange(2)
    depth = rng.choice([1, 4, 8, 24, 24])
    kind = rng.choice(["rend", "rend", "rend", "diff"])
    top = 0 if fs else rng.choice([0, 0, 1, 2, H - 1])
    top = max(0, min(top, H - 1))
    case = {"kind": kind, "W": W, "H": H, "top": top, "fs": fs, "depth": depth, "styles": STYLES, "chain": True,
            "ops": []}
    if kind == "rend":
        case["sheets"] = SHEETS
        case["cpr"] = int(rng.random() < 0.3)
        if rng.random() < 0.3:
            case["tr"] = rand_tr_spec(rng)      # REAL transformation objects instead of the stub transformation
    avail = H - top
    n = rng.randrange(1, 9)
    prev = None
    fresh = True
    cur_depth = depth
    drawn_depth = None
    for _ in range(n):
        if rng.random() < 0.2:
            cur_depth = rng.choice([1, 4, 8, 24])      # app.color_depth changes between two renders
        if prev is not None and rng.random() < 0.5:
            js = mutate_screen(rng, prev, W, avail)
        else:
            js = rand_screen(rng, W, avail)
        done = 1 if rng.random() < 0.12 else 0
        if kind == "diff":
            op = {"op": "diff", "scr": js, "done": done, "depth": cur_depth}
            if drawn_depth is not None and cur_depth != drawn_depth and not fresh:
                # the differ itself does not look at the depth of the previous call: a caller that changes the
                # depth must forget the previous screen (as Renderer.render does)
                op["noprev"] = 1
            if fresh:
                op["noprev"] = 1
                op["pos"] = [0, 0]
            case["ops"].append(op)
        else:
            # the application switches its style sheet / style transformation between two renders
            if rng.random() < 0.2:
                case["ops"].append({"op": "style", "sk": rng.choice([0, 1, 1, 2, 3])})
            if case.get("tr"):
                if rng.random() < 0.35:
                    case["ops"].append(rand_tr_update(rng, case["tr"]))
            elif rng.random() < 0.12:
                case["ops"].append({"op": "trans", "tk": rng.choice([0, 1, 2, 3])})
            if case["cpr"] and rng.random() < 0.1:
                case["ops"].append({"op": "cprrow", "row": top + 1})
            op = {"op": "render", "scr": js, "done": done, "mouse": int(rng.random() < 0.1),
                  "shape": rng.choice([0, 0, 0, 1, 2]), "depth": cur_depth}
            case["ops"].append(op)
            r = rng.random()
            if not done and r < 0.06:
                case["ops"].append({"op": "erase", "la": rng.randrange(2)})
                prev = None
            elif not done and r < 0.09:
                case["ops"].append({"op": "clear"})
                prev = None
                avail = H
        drawn_depth = cur_depth
        fresh = bool(done)
        if done:
            avail = H - top          # the next prompt starts on a fresh terminal with the origin at `top`
        prev = None if done else js
        if done and fs:
            break       # after leaving the alternate screen a new session starts
    return case


def rand_free(rng):
    """direct calls of the differ with arbitrary current_pos / last_style / previous_width / previous screen:
    correspondence only (the terminal need not show the previous screen)"""
    W = rng.choice([0, 1, 2, 3, 5, 9])
    H = rng.choice([0, 1, 2, 4])
    case = {"kind": "diff", "W": W, "H": H, "fs": rng.randrange(2), "depth": rng.choice([1, 4, 8, 24]),
            "styles": STYLES, "chain": False, "nogrid": 1, "ops": []}
    for _ in range(rng.randrange(1, 5)):
        op = {"op": "diff", "scr": rand_screen(rng, max(W, 1), max(H, 1), wild=True), "done": int(rng.random() < 0.2)}
        if rng.random() < 0.7:
            op["pos"] = [rng.randrange(0, W + 3), rng.randrange(0, H + 3)]
        if rng.random() < 0.7:
            op["last"] = rng.choice([None, 0, 1, 2, 3, 4, 5])
        if rng.random() < 0.3:
            op["pw"] = rng.choice([0, W, W + 1])
        if rng.random() < 0.2:
            op["noprev"] = 1
        case["ops"].append(op)
    return case


def rand_resize(rng):
    """Renderer-level sequences with size changes, style / transformation changes, bare resets, cursor position
    requests / reports / timeouts, layouts whose preferred height differs from the screen they draw: call and
    state correspondence only"""
    W, H = rng.choice([2, 3, 5]), rng.choice([1, 2, 3])
    case = {"kind": "rend", "W": W, "H": H, "fs": rng.randrange(2), "depth": rng.choice([1, 4, 8, 24]),
            "styles": STYLES, "sheets": SHEETS, "cpr": int(rng.random() < 0.6), "chain": False, "nogrid": 1,
            "ops": []}
    for _ in range(rng.randrange(2, 9)):
        r = rng.random()
        if r < 0.12:
            W, H = rng.choice([2, 3, 5]), rng.choice([1, 2, 3])
            case["ops"].append({"op": "size", "W": W, "H": H})
        elif r < 0.20:
            case["ops"].append({"op": "reset", "sc": rng.randrange(2), "la": rng.randrange(2)})
        elif r < 0.26:
            case["ops"].append({"op": "erase", "la": rng.randrange(2)})
        elif r < 0.31:
            case["ops"].append({"op": "clear"})
        elif r < 0.37:
            case["ops"].append({"op": "reqcpr"})
        elif r < 0.44:
            case["ops"].append({"op": "cprrow", "row": rng.choice([1, 1, 2, H, H + 1, H + 3, 0])})
        elif r < 0.47:
            case["ops"].append({"op": "cprtimeout"})
        elif r < 0.51:
            case["ops"].append({"op": rng.choice(["hknown", "rowsabove"])})
        elif r < 0.58:
            case["ops"].append({"op": "style", "sk": rng.randrange(4)})
        elif r < 0.63:
            case["ops"].append({"op": "trans", "tk": rng.randrange(4)})
        else:
            scr = rand_screen(rng, W, H, wild=True)
            case["ops"].append({"op": "render", "scr": scr, "done": int(rng.random() < 0.15),
                                "mouse": rng.randrange(2), "shape": rng.randrange(4),
                                "pref": rng.choice([scr["h"], scr["h"], 0, 1, H, H + 2]),
                                "depth": rng.choice([case["depth"], case["depth"], 1, 24])})
    return case


def rand_layout(rng):
    W = rng.choice([12, 16, 20, 30, 40])
    H = rng.choice([4, 6, 8, 10])
    fs = int(rng.random() < 0.25)
    cfg = {"text": rng.choice(["", "", "hello", "ab\ncd", "世界 x"]), "multiline": int(rng.random() < 0.4),
           "completer": int(rng.random() < 0.5), "menu": rng.choice([0, 1, 2, 3]),
           "toolbar": rng.choice([None, None, "tb", "tool 世 bar"]), "rprompt": rng.choice([None, None, "<r>"]),
           "wrap": int(rng.random() < 0.7), "cpr": int(rng.random() < 0.7),
           "message": rng.choice(["> ", "世> ", [["bold", "p"], ["", "> "]], [["bg:ansired", " "], ["", "$ "]], ""])}
    keys = [rng.choice(LAYOUT_KEYS) for _ in range(rng.randrange(1, 10))]
    if rng.random() < 0.6:
        keys.append("\x1b\r" if cfg["multiline"] and rng.random() < 0.8 else "\r")
    depths = [rng.choice([1, 4, 8, 24]) if rng.random() < 0.2 else 0 for _ in keys]
    sflips = [rng.randrange(7) if rng.random() < 0.25 else None for _ in keys]
    top = 0 if fs else rng.choice([0, 0, 0, 1, 2, H - 3])
    case = {"kind": "layout", "W": W, "H": H, "top": top, "fs": fs, "depth": rng.choice([1, 4, 8, 24]), "cfg": cfg,
            "keys": keys, "depths": depths, "sflips": sflips, "chain": True}
    room = H - top - 1
    if not fs and room >= 1 and rng.random() < 0.4:
        case["interrupt"] = {"at": rng.randrange(len(keys)), "lines": rng.randint(1, min(3, room)),
                             "report": int(rng.random() < 0.3)}
    return case


SMALL_KINDS = [None, ("a", 0), (" ", 2)]


def small_screens(W, H):
    out = []
    for h in range(H + 1):
        for tup in itertools.product(range(len(SMALL_KINDS)), repeat=W * h):
            cells = []
            for i, k in enumerate(tup):
                if SMALL_KINDS[k] is not None:
                    cells.append([i // W, i % W, SMALL_KINDS[k][0], SMALL_KINDS[k][1]])
            out.append({"h": h, "cells": cells, "zwe": []})
    return out


def small_cases(sizes, n, sample=None, modes=(0, 1)):
    for (W, H) in sizes:
        scr = small_screens(W, H)
        idx = 0
        if sample:
            rng, cnt = sample
            tuples = [tuple(rng.randrange(len(scr)) for _ in range(n)) for _ in range(cnt)]
        else:
            tuples = itertools.product(range(len(scr)), repeat=n)
        for tup in tuples:
            for fs in modes:
                ops = []
                for j, si in enumerate(tup):
                    base = scr[si]
                    hh = max(1, base["h"])
                    cur = [0, 0] if (idx + j) % 2 == 0 else [W - 1, hh - 1]
                    ops.append({"op": "render", "scr": dict(base, cur=cur, show=(idx + j) % 3 != 0), "done": 0})
                # every fourth chain changes the colour depth before its second render (8 bit -> 1 bit / 24 bit)
                if idx % 4 == 1 and len(ops) > 1:
                    ops[1]["depth"] = 1 if idx % 8 == 1 else 24
                # every third chain ends with a done render of its last screen
                if idx % 3 == 0:
                    ops.append(dict(ops[-1], done=1))
                idx += 1
                yield {"kind": "rend", "W": W, "H": H, "fs": fs, "depth": 8,
                       "styles": [[2, "", "ansired", "0000000"]], "chain": True, "ops": ops}


STY_KINDS = [None, ("a", 0), (" ", 2), (" ", 3)]
# style string 2: plain under sheet 0, red background under sheet 1; style string 3: bold only (transformation 1
# underlines bold text, so an empty cell of style 3 becomes visible)
STY_STYLES = [[2, "", "", "0000000"], [3, "", "", "1000000"]]
STY_SHEETS = {"1": [[2, "", "ansired", "0000000"], [3, "", "", "1000000"]]}
STY_TRANSITIONS = [((0, 0), (1, 0), 0), ((1, 0), (0, 0), 0), ((0, 0), (0, 1), 0), ((0, 1), (0, 0), 0),
                   ((0, 0), (0, 0), 0), ((1, 1), (0, 0), 0), ((0, 0), (1, 1), 0), ((0, 0), (0, 0), 24),
                   ((1, 0), (1, 1), 1)]


def style_screens(W, H):
    out = []
    for h in range(H + 1):
        for tup in itertools.product(range(len(STY_KINDS)), repeat=W * h):
            cells = [[i // W, i % W, STY_KINDS[k][0], STY_KINDS[k][1]] for i, k in enumerate(tup)
                     if STY_KINDS[k] is not None]
            out.append({"h": h, "cells": cells, "zwe": []})
    return out


def style_cases(sizes, modes=(0,), sample=None):
    """one Renderer, two (every third chain: three) renders; between the first two the application changes its
    style sheet and / or style transformation (and / or colour depth): the SAME style string means "nothing
    visible on an empty cell" before and "background / underline" after, or the other way round — trailing
    blanks and entirely blank rows of such styles"""
    for (W, H) in sizes:
        scr = style_screens(W, H)
        if sample:
            rng, cnt = sample
            pairs = [(rng.randrange(len(scr)), rng.randrange(len(scr))) for _ in range(cnt)]
        else:
            pairs = itertools.product(range(len(scr)), repeat=2)
        idx = 0
        for (i, j) in pairs:
            for fs in modes:
                for (a, b, depth2) in STY_TRANSITIONS:
                    ops = []
                    if a[0]:
                        ops.append({"op": "style", "sk": a[0]})
                    if a[1]:
                        ops.append({"op": "trans", "tk": a[1]})
                    hh = max(1, scr[i]["h"])
                    ops.append({"op": "render", "scr": dict(scr[i], cur=[0, 0], show=1), "done": 0})
                    if b[0] != a[0]:
                        ops.append({"op": "style", "sk": b[0]})
                    if b[1] != a[1]:
                        ops.append({"op": "trans", "tk": b[1]})
                    hh = max(1, scr[j]["h"])
                    r2 = {"op": "render", "scr": dict(scr[j], cur=[W - 1, hh - 1], show=idx % 2), "done": 0}
                    if depth2:
                        r2["depth"] = depth2
                    ops.append(r2)
                    if idx % 3 == 0:
                        ops.append(dict(r2, scr=dict(scr[i], cur=[0, 0], show=1), done=int(idx % 6 == 0)))
                    idx += 1
                    yield {"kind": "rend", "W": W, "H": H, "fs": fs, "depth": 8, "styles": STY_STYLES,
                           "sheets": STY_SHEETS, "chain": True, "ops": ops}


BLOCK_TOKENS = [("gap", 1), ("a", 1), ("ctrl", 2), ("comb", 1)]


def block_rows(W):
    """all rows of exactly W columns over {gap, 'a', a control character (displayed ^A: one cell of width 2
    followed by the empty cell), 'e' + combining accent (one cell, two characters)}"""
    out = []

    def rec(x, cells):
        if x == W:
            out.append(cells)
            return
        for name, wd in BLOCK_TOKENS:
            if x + wd > W:
                continue
            if name == "gap":
                rec(x + 1, cells)
            elif name == "a":
                rec(x + 1, cells + [[0, x, "a", 0]])
            elif name == "ctrl":
                rec(x + 2, cells + [[0, x, "\x01", 2], [0, x + 1, "", 2]])
            elif name == "comb":
                rec(x + 1, cells + [[0, x, "e\u0301", 0]])
            else:
                rec(x + 1, cells + [[0, x, " ", 2]])

    rec(0, [])
    return out


def block_cases(W, modes=(0,)):
    """every ordered pair of such rows rendered one after the other (every third chain: and back again)"""
    rows = block_rows(W)
    idx = 0
    for a in rows:
        for b in rows:
            for fs in modes:
                ops = [{"op": "render", "scr": {"h": 1, "cells": a, "zwe": [], "cur": [0, 0], "show": 1}, "done": 0},
                       {"op": "render", "scr": {"h": 1, "cells": b, "zwe": [], "cur": [W - 1, 0], "show": idx % 2},
                        "done": 0}]
                if idx % 3 == 0:
                    ops.append(dict(ops[0], done=int(idx % 6 == 0)))
                idx += 1
                yield {"kind": "rend", "W": W, "H": 2, "fs": fs, "depth": 8,
                       "styles": [[2, "", "ansired", "0000000"]], "chain": True, "ops": ops}


# ---- sessions whose style transformation is a graph of REAL transformation objects
TR_TEMPLATES = [
    # a conditional swap of light and dark colours
    {"graph": ["C", 0, ["L", 0]], "slots": {"0": 0}},
    # what PromptSession builds: merge(Dynamic(user transformation), Conditional(Swap, swap_light_and_dark_colors))
    {"graph": ["M", [["Y", 1, [["D"], ["L", 1]]], ["C", 0, ["L", 0]]]], "slots": {"0": 0, "1": -1}},
    # a dynamic transformation switching between a leaf, a conditional and a dummy
    {"graph": ["Y", 0, [["L", 0], ["C", 1, ["L", 1]], ["D"]]], "slots": {"0": -1, "1": 1}},
    # a conditional over a merge that contains another conditional
    {"graph": ["C", 0, ["M", [["L", 0], ["C", 1, ["L", 1]]]]], "slots": {"0": 1, "1": 0}},
]
TR_LEAVES_PLAIN = [["swap"], ["swap"]]                                  # keep plain attributes plain
TR_LEAVES_ANY = [[["reverse"], ["swap"]], [["setdefault", "ansiblue", ""], ["reverse"]],
                 [["swap"], ["setdefault", "ansigreen", "ansiblack"]]]   # make the default style visible
TR_STYLES = [[2, "", "ansired", "0000000"], [3, "ansiblue", "", "1000000"], [4, "ff8800", "004400", "0000000"]]


def tr_slot_domains(node, out=None):
    out = {} if out is None else out
    if node[0] == "C":
        out[node[1]] = [0, 1]
        tr_slot_domains(node[2], out)
    elif node[0] == "Y":
        out[node[1]] = list(range(-1, len(node[2])))
        for c in node[2]:
            tr_slot_domains(c, out)
    elif node[0] == "M":
        for c in node[1]:
            tr_slot_domains(c, out)
    return out


def tr_small_screens(kinds, W, gapless):
    out = [{"h": 0, "cells": [], "zwe": []}]
    for tup in itertools.product(range(len(kinds)), repeat=W):
        if gapless and any(kinds[k] is None for k in tup):
            continue
        cells = [[0, x, kinds[k][0], kinds[k][1]] for x, k in enumerate(tup) if kinds[k] is not None]
        out.append({"h": 1, "cells": cells, "zwe": []})
    return out


def tr_cases(leafsets, kinds, gapless, depths=(8,), modes=(0,)):
    """ONE Renderer; between two renders only the state of the REAL transformation objects changes (a Condition
    flips, a dynamic target is replaced): same style sheet, depth, size, no erase / reset.  Every template, every
    assignment of its slots, every change of one slot; the same screen twice and a different second screen."""
    scr = tr_small_screens(kinds, 2, gapless)
    idx = 0
    for leaves in leafsets:
        for tpl in TR_TEMPLATES:
            dom = tr_slot_domains(tpl["graph"])
            slots = sorted(dom)
            for v in itertools.product(*[dom[k] for k in slots]):
                for si, k in enumerate(slots):
                    for nv in dom[k]:
                        if nv == v[si]:
                            continue
                        for (i, j) in [(a, a) for a in range(len(scr))] + [(a, (a * 7 + 3) % len(scr)) for a in range(len(scr))]:
                            for fs in modes:
                                depth = depths[idx % len(depths)]
                                ops = [{"op": "render", "scr": dict(scr[i], cur=[0, 0], show=1), "done": 0},
                                       {"op": "trset", "set": {str(k): nv}},
                                       {"op": "render", "scr": dict(scr[j], cur=[1, 0], show=idx % 2), "done": 0}]
                                if idx % 2 == 0:
                                    ops += [{"op": "trset", "set": {str(k): v[si]}},
                                            {"op": "render", "scr": dict(scr[i], cur=[0, 0], show=1), "done": int(idx % 4 == 0)}]
                                idx += 1
                                yield {"kind": "rend", "W": 2, "H": 2, "fs": fs, "depth": depth, "styles": TR_STYLES,
                                       "chain": True, "ops": ops,
                                       "tr": {"leaves": leaves, "graph": tpl["graph"],
                                              "slots": {str(s_): val for s_, val in zip(slots, v)}}}


TR_KINDS_ANY = [None, ("a", 3), (" ", 2), ("b", 4)]
TR_KINDS_FULL = [("a", 0), (" ", 2), ("b", 3)]


def rand_tr_spec(rng):
    tpl = rng.choice(TR_TEMPLATES)
    dom = tr_slot_domains(tpl["graph"])
    return {"leaves": TR_LEAVES_PLAIN, "graph": tpl["graph"], "slots": {str(k): rng.choice(dom[k]) for k in dom}}


def rand_tr_update(rng, spec):
    dom = tr_slot_domains(spec["graph"])
    k = rng.choice(sorted(dom))
    return {"op": "trset", "set": {str(k): rng.choice(dom[k])}}


# 4-bit colour depth with RGB colours: the same RGB background under different RGB foregrounds (fe0000 is nearest to
# bright red: under a bright-red foreground it must become dark red, under any other foreground bright red)
C16_STYLES = [[2, "ff0000", "fe0000", "0000000"], [3, "0000ff", "fe0000", "0000000"], [4, "cd0000", "fe0000", "0000000"],
              [5, "fe0000", "fe0000", "0000000"], [6, "00ff00", "00fe00", "0000000"], [7, "ff0000", "00fe00", "0000000"],
              [8, "", "fe0000", "0000000"]]


def c16_cases(modes=(0,)):
    """ONE process, ONE Renderer, depth 4: every ordered pair (thorough: and triple) of these styles on the cell 'x',
    drawn one after the other (the second render replaces the cell or adds it next to the first)"""
    sids = [r[0] for r in C16_STYLES]
    idx = 0
    for a in sids:
        for b in sids:
            for fs in modes:
                for keep in (0, 1):
                    s1 = {"h": 1, "cells": [[0, 0, "x", a]], "zwe": [], "cur": [0, 0], "show": 1}
                    cells2 = [[0, 0, "x", a], [0, 1, "y", b]] if keep else [[0, 0, "x", b]]
                    s2 = {"h": 1, "cells": cells2, "zwe": [], "cur": [1, 0], "show": idx % 2}
                    ops = [{"op": "render", "scr": s1, "done": 0}, {"op": "render", "scr": s2, "done": 0}]
                    if idx % 3 == 0:
                        ops.append({"op": "render", "scr": s1, "done": int(idx % 6 == 0)})
                    idx += 1
                    yield {"kind": "rend", "W": 3, "H": 2, "fs": fs, "depth": 4, "styles": C16_STYLES, "chain": True,
                           "ops": ops}


def cases(tier, rng):
    if tier == "quick":
        yield from small_cases([(1, 1), (2, 1), (3, 1), (1, 2)], 2)
        yield from small_cases([(2, 2)], 2, modes=(0,))
        yield from style_cases([(2, 1)])
        yield from style_cases([(1, 2)], sample=(rng, 150))
        yield from block_cases(3)
        yield from tr_cases([TR_LEAVES_PLAIN], TR_KINDS_ANY, False)
        yield from tr_cases(TR_LEAVES_ANY[:1], TR_KINDS_FULL, True)
        yield from c16_cases()
        nrand, nfree, nres, nlay = 2500, 1200, 700, 120
    else:
        yield from small_cases([(1, 1), (2, 1), (3, 1), (1, 2), (2, 2)], 2)
        yield from small_cases([(1, 1), (2, 1), (3, 1), (1, 2)], 3)
        yield from small_cases([(3, 2)], 2, sample=(rng, 12000))
        yield from style_cases([(2, 1), (1, 2)], modes=(0, 1))
        yield from style_cases([(3, 1), (2, 2)], sample=(rng, 1500))
        yield from block_cases(3, modes=(0, 1))
        yield from block_cases(4)
        yield from tr_cases([TR_LEAVES_PLAIN], TR_KINDS_ANY, False, depths=(8, 24, 4, 1), modes=(0, 1))
        yield from tr_cases(TR_LEAVES_ANY, TR_KINDS_FULL, True, depths=(8, 24, 4))
        yield from c16_cases(modes=(0, 1))
        nrand, nfree, nres, nlay = 40000, 12000, 7000, 1200
    for _ in range(nrand):
        yield rand_chain(rng, tier)
    for _ in range(nfree):
        yield rand_free(rng)
    for _ in range(nres):
        yield rand_resize(rng)
    for _ in range(nlay):
        yield rand_layout(rng)


def nontrivial(case):
    if case.get("kind") == "layout":
        return len(case["keys"]) >= 2
    scr = [op["scr"] for op in case["ops"] if "scr" in op and op["scr"]["cells"]]
    return len({repr(s["cells"]) for s in scr}) >= 2


def sample_view(case):
    return case


def distribution(cases_):
    d = {"kind": {}, "W": {}, "H": {}, "ops": {}, "renders_per_case": {}, "wide_cells": 0, "done_renders": 0,
         "full_screen": 0, "chain": 0, "depth_changes": 0}
    for c in cases_:
        d["kind"][c["kind"]] = d["kind"].get(c["kind"], 0) + 1
        if c["kind"] == "layout":
            d["ops"]["key"] = d["ops"].get("key", 0) + len(c["keys"])
            d["depth_changes"] += sum(1 for x in c.get("depths") or [] if x and x != c["depth"])
            continue
        d["W"][str(c["W"])] = d["W"].get(str(c["W"]), 0) + 1
        d["H"][str(c["H"])] = d["H"].get(str(c["H"]), 0) + 1
        d["full_screen"] += int(bool(c["fs"]))
        d["chain"] += int(bool(c.get("chain", True)))
        n = 0
        last_depth = c["depth"]
        for op in c["ops"]:
            d["ops"][op["op"]] = d["ops"].get(op["op"], 0) + 1
            if "scr" in op:
                d["depth_changes"] += int(op.get("depth", c["depth"]) != last_depth)
                last_depth = op.get("depth", c["depth"])
            if "scr" in op:
                n += 1
                d["done_renders"] += int(bool(op["done"]))
                d["wide_cells"] += sum(1 for cell in op["scr"]["cells"] if cell[2] == "")
        d["renders_per_case"][str(n)] = d["renders_per_case"].get(str(n), 0) + 1
    return d


if __name__ == "__main__":
    sys.exit(core.main(sys.modules[__name__]))
