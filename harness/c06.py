#!/venv/bin/python
"""C06 — incremental screen updates == full redraw.

correspondence: the real `_output_screen_diff` / `Renderer.render|erase|reset|clear` driven with a
recording `Output` subclass; the list of Output calls (and the returned cursor position / last
style) is compared call by call with `Ptk.C06.diff` / `RState.*`; in addition the bytes a real
`Vt100_Output` writes for the same calls are interpreted by the VT100 interpreter below and the
resulting cell grid / cursor / modes are compared with the Lean terminal model executing the
model's command list.

oracle (independent of the model): real `Renderer` + real `Vt100_Output` on a StringIO; the bytes
are interpreted by the VT100 interpreter; after every render the terminal must equal (visible
cells, cursor, cursor visibility) a from-scratch draw of the same screen on a cleared terminal
and must show every cell of the screen; rows above the origin are never touched, nothing scrolls,
and after a `done` render the cursor is on column 0 of the line below the output with SGR reset
and autowrap on.
"""
from __future__ import annotations

import io
import itertools
import os
import sys

sys.path.insert(0, os.path.dirname(os.path.abspath(__file__)))
import core
from core import enc_str, enc_bool

from prompt_toolkit.cursor_shapes import CursorShape
from prompt_toolkit.data_structures import Point, Size
from prompt_toolkit.filters import Condition
from prompt_toolkit.layout.screen import Char, Screen
from prompt_toolkit.output import ColorDepth
from prompt_toolkit.output.base import Output
from prompt_toolkit.output.vt100 import Vt100_Output
from prompt_toolkit.renderer import (Renderer, _output_screen_diff, _StyleStringHasStyleCache,
                                     _StyleStringToAttrsCache)
from prompt_toolkit.styles import Attrs, DummyStyleTransformation
from prompt_toolkit.utils import get_cwidth

ID = "C06"
DRIVER = "drv_c06"
PROPS = ["Ptk.Props.C06", "Ptk.Props.C06Scroll", "Ptk.Props.C06Wide", "Ptk.Props.C06WideCells",
         "Ptk.Props.C06Diff", "Ptk.Props.C06Lemmas"]
LEVEL_TEXT = ("Lean 4 theorems over an executable model of the screen differ (_output_screen_diff with "
              "move_cursor / output_char / get_max_column_index, Renderer render/erase/reset/clear state) and of "
              "a VT100 terminal. For width-1 cells: executing the differ's output on a terminal that shows the "
              "previous screen yields the new screen, cursor on the screen's cursor, SGR reset, cursor visibility "
              "and autowrap as required (diff_correct, diff_done, diff_done_scroll); this invariant is carried "
              "over every finite sequence of render/done/erase/clear (render_seq) and the result is visibly "
              "identical to a from-scratch draw (incremental_eq_scratch). The same for screens with wide "
              "(two-column) characters under the xterm rule that overwriting one half of a wide character blanks "
              "the other half (diff_correct_wide, render_seq_wide, incremental_eq_scratch_wide). For arbitrary "
              "printable cells (also multi-character cells like ^A and combining characters): writes stay inside "
              "the owned rows/columns, nothing scrolls, no cursor motion passes the margins, over single calls and "
              "over sequences (diff_confined_wide, no_scroll_wide, render_seq_geo). The model is tied to /repo on every run by a call-by-call "
              "correspondence, a cross-check of the Lean terminal model against a byte-level VT100 interpreter, "
              "and the property oracle on real Renderer + Vt100_Output output (also for real PromptSession layouts)")
LEVEL_NOTE = ("partial: the terminal is a model (trusted); cell CONTENTS of multi-character cells (^A, <80>) and of "
              "cells with combining characters are covered by the correspondence and the oracle only; trusted: Lean "
              "kernel, propext/Classical.choice/Quot.sound")
TECHNIQUE = ("Lean 4 proof over an executable model of the screen differ and a VT100 terminal model + call-by-call "
             "differential correspondence + byte-level VT100 interpreter oracle on the real Renderer / Vt100_Output")
RULE = ("exhaustive: every pair (thorough: triple) of screens over 3 cell kinds {default blank, 'a', styled "
        "blank} on tiny terminals, inline and full-screen, rendered as a chain, every third one ending with a done "
        "render; then seeded random chains of <= 8 screens (W<=12, H<=6, origin below the top, wide and multi-char "
        "cells, zero-width escapes, equal-attrs style ids, grow/shrink, small edits of the previous screen, "
        "erase/clear, style-key changes, depths 1/4/8/24 with the depth CHANGING between renders), direct differ calls with arbitrary cursor / last style / "
        "previous width (call correspondence only), Renderer sequences with resizes and bare resets (call "
        "correspondence only), and screens produced by real PromptSession layouts (completion menus, toolbars, "
        "multiline, wide prompts) during random editing sessions; a case is non-trivial when at least two renders "
        "draw different non-empty screens")
EXHAUSTIVE = True
EXHAUSTIVE_SCOPE = {"quick": "(W,H) in {(1,1),(2,1),(3,1),(1,2)}: 3 cell kinds, all ordered pairs of screens, inline + "
                             "full-screen; (2,2): all ordered pairs, inline",
                    "thorough": "all ordered pairs for (1,1),(2,1),(3,1),(1,2),(2,2) in both modes, all ordered triples for (1,1),(2,1),(3,1),(1,2), 12000 sampled pairs for (3,2)"}
TRUSTED = ["harness/c06.py: recording Output, VT100 interpreter (CR LF BS CUU/CUD/CUF/CUB CUP ED EL SGR DECTCEM "
           "DECAWM alt-screen, xterm wide-char overwrite rule), comparison code",
           "Ptk/Model/C06.lean: hand translation of renderer.py _output_screen_diff / Renderer state "
           "(correspondence-checked call by call) and the terminal model Term/exec (cross-checked against the "
           "byte-level interpreter on every comparable case)"]
ASSUMPTIONS = ["VT100/xterm semantics as modelled (autowrap off: cursor stays on the last column; ED/EL erase "
               "with the current background; SGR sequences are absolute; CUU/CUF/CUB clamp)",
               "screens satisfy WFScreen: no written row >= Screen.height (checked on every real-layout screen; "
               "theorem wf_needed shows it is necessary)",
               "the default char's style has no colour/underline (attrs_for_style['[transparent]'] is plain)",
               "zero-width escapes do not move the cursor or change cells",
               "runtime wcwidth is data (Char.width); a space is one column wide",
               "the drawn rows fit between the origin and the bottom of the terminal (otherwise the renderer "
               "scrolls on purpose to reserve space)"]
PARTIAL_SCOPE = ["cell contents: theorems cover single-character cells of width 1 and 2 (wide characters followed by "
                 "their empty continuation cell); for multi-character cells (^A, <80>) and combining characters "
                 "only geometry (confinement, no scroll, cursor, modes) is proved, contents are checked by "
                 "correspondence and oracle",
                 "alternate-screen switching, mouse/bracketed-paste modes, cursor shape, CPR are modelled as "
                 "calls without terminal semantics",
                 "terminal resize between renders: only the call sequence is compared (no terminal semantics)",
                 "the escape encoders of Vt100_Output are not modelled in Lean: they are exercised by the "
                 "byte-level interpreter (grid cross-check + oracle)"]

DEPTHS = {1: ColorDepth.DEPTH_1_BIT, 4: ColorDepth.DEPTH_4_BIT, 8: ColorDepth.DEPTH_8_BIT,
          24: ColorDepth.DEPTH_24_BIT}
DEPTH_NUM = {v: k for k, v in DEPTHS.items()}
SHAPES = [CursorShape._NEVER_CHANGE, CursorShape.BLOCK, CursorShape.BEAM, CursorShape.UNDERLINE]
PLAIN = ["", "", "0000000"]


# ------------------------------------------------------------------ styles
def style_str(sid: int) -> str:
    return "" if sid == 0 else "[transparent]" if sid == 1 else f"class:s{sid}"


def mk_attrs(spec) -> Attrs:
    fg, bg, fl = spec
    b = [c == "1" for c in fl]
    return Attrs(color=fg, bgcolor=bg, bold=b[0], underline=b[1], strike=b[2], italic=b[3],
                 blink=b[4], reverse=b[5], hidden=b[6])


def style_table(case):
    """sid -> Attrs for every style id of the case (0 and 1 always plain unless overridden)"""
    t = {0: mk_attrs(PLAIN), 1: mk_attrs(PLAIN)}
    for sid, fg, bg, fl in case.get("styles", []):
        t[sid] = mk_attrs((fg, bg, fl))
    return t


def enc_attrs(a: Attrs) -> str:
    fl = "".join("1" if x else "0" for x in (a.bold, a.underline, a.strike, a.italic, a.blink,
                                                a.reverse, a.hidden))
    return f"{enc_str(a.color or '')}/{enc_str(a.bgcolor or '')}/{fl}"


class StubStyle:
    """stands for Renderer.style: a fixed table, an externally set invalidation hash"""

    def __init__(self, table):
        self.table = {style_str(k): v for k, v in table.items()}
        self.key = 0

    def get_attrs_for_style_str(self, s, default=None):
        # style strings that Char() derived itself (" class:control-character ") are plain
        return self.table.get(s, mk_attrs(PLAIN))

    def invalidation_hash(self):
        return self.key


# ------------------------------------------------------------------ recording output
class RecOutput(Output):
    """records every Output call as the token the Lean driver prints; optionally forwards the call to
    a real Vt100_Output writing into a StringIO (for the byte-level interpretation)"""

    def __init__(self, w, h, table=None, tee=False):
        self.w, self.h = w, h
        self.calls: list[str] = []
        self.sid_of_attrs = None
        self.buf = io.StringIO()
        self.inner = Vt100_Output(self.buf, self.get_size, term="xterm") if tee else None

    def _r(self, tok, name=None, *a):
        self.calls.append(tok)
        if self.inner is not None and name:
            getattr(self.inner, name)(*a)

    def take(self):
        c, self.calls = self.calls, []
        return c

    def take_bytes(self):
        if self.inner is None:
            return ""
        self.inner.flush()
        s = self.buf.getvalue()
        self.buf.seek(0)
        self.buf.truncate()
        return s

    def fileno(self): raise NotImplementedError
    def encoding(self): return "utf-8"
    def write(self, data): self._r("W" + enc_str(data), "write", data)
    def write_raw(self, data): self._r("R" + enc_str(data), "write_raw", data)
    def set_title(self, title): self._r("title")
    def clear_title(self): self._r("title")
    def flush(self): self._r("flush", "flush")
    def erase_screen(self): self._r("ES", "erase_screen")
    def enter_alternate_screen(self): self._r("alt+", "enter_alternate_screen")
    def quit_alternate_screen(self): self._r("alt-", "quit_alternate_screen")
    def enable_mouse_support(self): self._r("mouse+", "enable_mouse_support")
    def disable_mouse_support(self): self._r("mouse-", "disable_mouse_support")
    def erase_end_of_line(self): self._r("EL", "erase_end_of_line")
    def erase_down(self): self._r("ED", "erase_down")
    def reset_attributes(self): self._r("A0", "reset_attributes")
    def set_attributes(self, attrs, color_depth):
        self._r("A" + enc_attrs(attrs) + "@" + str(DEPTH_NUM[color_depth]), "set_attributes", attrs, color_depth)
    def disable_autowrap(self): self._r("aw-", "disable_autowrap")
    def enable_autowrap(self): self._r("aw+", "enable_autowrap")
    def cursor_goto(self, row=0, column=0): self._r(f"G{row},{column}", "cursor_goto", row, column)
    def cursor_up(self, amount): self._r(f"U{amount}", "cursor_up", amount)
    def cursor_down(self, amount): self._r(f"D{amount}", "cursor_down", amount)
    def cursor_forward(self, amount): self._r(f"F{amount}", "cursor_forward", amount)
    def cursor_backward(self, amount): self._r(f"B{amount}", "cursor_backward", amount)
    def hide_cursor(self): self._r("CH", "hide_cursor")
    def show_cursor(self): self._r("CS", "show_cursor")
    def set_cursor_shape(self, cursor_shape): self._r(f"shape{SHAPES.index(cursor_shape)}", "set_cursor_shape", cursor_shape)
    def reset_cursor_shape(self): self._r("shape-", "reset_cursor_shape")
    def ask_for_cpr(self): self._r("cpr")
    def bell(self): self._r("bell")
    def enable_bracketed_paste(self): self._r("paste+", "enable_bracketed_paste")
    def disable_bracketed_paste(self): self._r("paste-", "disable_bracketed_paste")
    def reset_cursor_key_mode(self): self._r("ckm", "reset_cursor_key_mode")
    def scroll_buffer_to_prompt(self): self._r("scroll", "scroll_buffer_to_prompt")
    def get_size(self): return Size(rows=self.h, columns=self.w)
    def get_rows_below_cursor_position(self): raise NotImplementedError
    def get_default_color_depth(self): return ColorDepth.DEPTH_8_BIT

    @property
    def responds_to_cpr(self): return False


def enc_calls(calls):
    return " ".join([str(len(calls))] + calls)


# ------------------------------------------------------------------ VT100 interpreter
class VT:
    """A small VT100/xterm interpreter.  `top` rows above the origin hold a sentinel so that any write
    outside the owned rows is detected.  Cells are (text, sgr) with sgr a canonical tuple."""

    PLAIN = ("", "", frozenset())

    def __init__(self, w, h, top=0):
        self.w, self.H, self.top = w, top + h, top
        self._top0 = top
        self.blank = (" ", self.PLAIN)
        self.sentinel = ("#", ("sentinel", "", frozenset()))
        self.grid = [[self.sentinel if y < top else self.blank for _ in range(w)] for y in range(self.H)]
        self.row, self.col = top, 0
        self.sgr = self.PLAIN
        self.autowrap = True
        self.pending = False
        self.visible = True
        self.scrolled = 0
        self.oob = False          # cursor asked to leave the owned area at the top / left margin
        self.min_row = top        # smallest row the cursor visited / a cell was written on
        self.unknown = []
        self.alt = False
        self.writes = []          # (row, col) of printed glyph cells

    # -- helpers
    def _erased(self):
        return (" ", ("", self.sgr[1], frozenset()))

    def _fix_left(self, y, x):
        if 0 < x < self.w and self.grid[y][x][0] == "":
            self.grid[y][x - 1] = (" ", self.grid[y][x - 1][1])

    def _fix_right(self, y, x):
        if x < self.w and self.grid[y][x][0] == "":
            self.grid[y][x] = (" ", self.grid[y][x][1])

    def _lf(self):
        if self.row + 1 < self.H:
            self.row += 1
        else:
            self.grid.pop(0)
            self.grid.append([self._erased() for _ in range(self.w)])
            self.scrolled += 1

    def _glyph(self, ch, k):
        if self.pending and self.autowrap:
            self.col = 0
            self._lf()
        self.pending = False
        if self.col + k > self.w:
            if self.autowrap:
                self.col = 0
                self._lf()
                if k > self.w:
                    self.oob = True
                    return
            else:
                self.oob = True
                return
        y, x = self.row, self.col
        self._fix_left(y, x)
        self._fix_right(y, x + k)
        self._lastcell = (y, x)
        self.grid[y][x] = (ch, self.sgr)
        for i in range(1, k):
            self.grid[y][x + i] = ("", self.sgr)
        for i in range(k):
            self.writes.append((y, x + i))
        self.min_row = min(self.min_row, y)
        if x + k < self.w:
            self.col = x + k
        else:
            self.col = self.w - 1
            self.pending = self.autowrap

    def _combine(self, ch):
        # zero-width character: attaches to the glyph printed immediately before it
        if self._lastcell is not None:
            y, x = self._lastcell
            t, a = self.grid[y][x]
            self.grid[y][x] = (t + ch, a)

    _lastcell = None

    def _erase(self, down):
        y, x = self.row, self.col
        self._fix_left(y, x)
        e = self._erased()
        for c in range(x, self.w):
            self.grid[y][c] = e
        if down:
            for r in range(y + 1, self.H):
                self.grid[r] = [e for _ in range(self.w)]
        self.pending = False

    def _sgr(self, params):
        fg, bg, fl = self.sgr
        fl = set(fl)
        names = {1: "bold", 3: "italic", 4: "underline", 5: "blink", 7: "reverse", 8: "hidden", 9: "strike"}
        p = [int(x) if x else 0 for x in params.split(";")] if params else [0]
        i = 0
        while i < len(p):
            v = p[i]
            if v == 0:
                fg, bg, fl = "", "", set()
            elif v in names:
                fl.add(names[v])
            elif 30 <= v <= 37 or 90 <= v <= 97:
                fg = f"c{v}"
            elif 40 <= v <= 47 or 100 <= v <= 107:
                bg = f"c{v - 10}"
            elif v in (38, 48) and i + 1 < len(p):
                if p[i + 1] == 5 and i + 2 < len(p):
                    val = f"p{p[i + 2]}"
                    i += 2
                elif p[i + 1] == 2 and i + 4 < len(p):
                    val = "r%02x%02x%02x" % (p[i + 2], p[i + 3], p[i + 4])
                    i += 4
                else:
                    self.unknown.append("sgr:" + params)
                    val = "?"
                if v == 38:
                    fg = val
                else:
                    bg = val
            elif v == 39:
                fg = ""
            elif v == 49:
                bg = ""
            else:
                self.unknown.append("sgr:" + params)
            i += 1
        self.sgr = (fg, bg, frozenset(fl))

    def _csi(self, priv, params, final):
        n = int(params) if params.isdigit() else None
        if priv == "?":
            for q in params.split(";"):
                if q == "7":
                    self.autowrap = final == "h"
                    if not self.autowrap:
                        self.pending = False
                elif q == "25":
                    self.visible = final == "h"
                elif q == "1049":
                    if final == "h" and not self.alt:
                        self._saved = ([r[:] for r in self.grid], self.row, self.col, self.top)
                        self.grid = [[self.blank for _ in range(self.w)] for _ in range(self.H)]
                        self.top = 0
                    elif final == "l" and self.alt:
                        g, self.row, self.col, self.top = self._saved
                        self.grid = [r[:] for r in g]
                    self.alt = final == "h"
                elif q in ("12", "2004", "1", "1000", "1003", "1015", "1006"):
                    pass
                else:
                    self.unknown.append(f"?{q}{final}")
            return
        if final == "A":
            k = n if n is not None else 1
            if self.row - k < self.top:
                self.oob = True
            self.row = max(0, self.row - k)
            self.min_row = min(self.min_row, self.row)
            self.pending = False
        elif final == "B":
            k = n if n is not None else 1
            self.row = min(self.H - 1, self.row + k)
            self.pending = False
        elif final == "C":
            k = n if n is not None else 1
            self.col = min(self.w - 1, self.col + k)
            self.pending = False
        elif final == "D":
            k = n if n is not None else 1
            if self.col - k < 0:
                self.oob = True
            self.col = max(0, self.col - k)
            self.pending = False
        elif final == "H":
            ps = (params.split(";") + ["", ""])[:2]
            r = max(1, int(ps[0] or 1))
            c = max(1, int(ps[1] or 1))
            self.row = min(self.H - 1, r - 1)
            self.col = min(self.w - 1, c - 1)
            self.pending = False
            self.min_row = min(self.min_row, self.row)
        elif final == "J":
            if params in ("", "0"):
                self._erase(True)
            elif params == "2":
                e = self._erased()
                self.grid = [[e for _ in range(self.w)] for _ in range(self.H)]
                self.min_row = 0
            else:
                self.unknown.append("J" + params)
        elif final == "K":
            if params in ("", "0"):
                self._erase(False)
            else:
                self.unknown.append("K" + params)
        elif final == "m":
            self._sgr(params)
        elif final in ("n", "q"):
            pass
        else:
            self.unknown.append("CSI" + params + final)

    def feed(self, data: str):
        i, n = 0, len(data)
        while i < n:
            ch = data[i]
            if ch < " " or ch == "\x7f":
                self._lastcell = None
            if ch == "\x1b":
                if i + 1 < n and data[i + 1] == "[":
                    j = i + 2
                    priv = ""
                    if j < n and data[j] in "?>":
                        priv = data[j]
                        j += 1
                    k = j
                    while k < n and (data[k].isdigit() or data[k] in "; "):
                        k += 1
                    if k >= n:
                        self.unknown.append("truncated")
                        return
                    self._csi(priv, data[j:k].replace(" ", ""), data[k])
                    i = k + 1
                    continue
                if i + 1 < n and data[i + 1] == "]":
                    # OSC … terminated by BEL or ST (ESC \)
                    k1 = data.find("\x07", i)
                    k2 = data.find("\x1b\\", i + 2)
                    ends = [e for e in ((k1 + 1) if k1 >= 0 else -1, (k2 + 2) if k2 >= 0 else -1) if e > 0]
                    if not ends:
                        self.unknown.append("unterminated OSC")
                        return
                    i = min(ends)
                    continue
                self.unknown.append("esc")
                i += 2
                continue
            if ch == "\r":
                self.col = 0
                self.pending = False
            elif ch == "\n":
                self._lf()
                self.pending = False
            elif ch == "\b":
                if self.col == 0:
                    self.oob = True
                self.col = max(0, self.col - 1)
                self.pending = False
            elif ord(ch) < 32 or ord(ch) == 127:
                pass
            else:
                k = get_cwidth(ch)
                if k == 0:
                    self._combine(ch)
                else:
                    self._glyph(ch, k)
            i += 1

    # -- views
    def owned(self):
        return [row[:] for row in self.grid[self.top:]]

    def fresh(self):
        """a fresh terminal of the same geometry that keeps the modes (what the next prompt finds)"""
        v = VT(self.w, self.H - self._top0, self._top0)
        v.sgr, v.autowrap, v.visible = self.sgr, self.autowrap, self.visible
        return v


def vis(cell):
    """visible-cell normal form: a space shows only background, underline, strike-through, reverse (and fg /
    blink, kept like the renderer does); bold / italic / hidden spaces look like plain spaces"""
    t, (fg, bg, fl) = cell
    if t == " " and not fg and not bg and not (fl & {"underline", "strike", "blink", "reverse"}):
        return (" ", VT.PLAIN)
    return cell


# ------------------------------------------------------------------ screens
WIN = object()   # key used for Screen.cursor_positions


def build_screen(js, target: Screen | None = None) -> Screen:
    s = target if target is not None else Screen()
    for y, x, t, sid in js["cells"]:
        s.data_buffer[y][x] = Char(t, style_str(sid))
    for y, x, t in js.get("zwe", []):
        s.zero_width_escapes[y][x] = t
    s.height = js["h"]
    s.show_cursor = bool(js["show"])
    if js.get("cur") is not None:
        s.cursor_positions[WIN] = Point(x=js["cur"][0], y=js["cur"][1])
    return s


def dense_rows(js):
    """dense rows [(char, sid, width)] as the model wants them; Char() is the real constructor (display
    mappings, width)"""
    rows: dict[int, dict[int, tuple]] = {}
    for y, x, t, sid in js["cells"]:
        ch = Char(t, style_str(sid))
        rows.setdefault(y, {})[x] = (ch.char, sid, ch.width, ch.style)
    out = []
    for y in range((max(rows) + 1) if rows else 0):
        r = rows.get(y, {})
        line = []
        for x in range((max(r) + 1) if r else 0):
            line.append(r.get(x, (" ", 1, 1, "[transparent]")))
        out.append(line)
    return out


def screen_lines(js, extra_styles):
    """protocol lines that load one screen into the driver (extra style ids for styles that `Char` itself
    appended a class to are allocated in `extra_styles`)"""
    L = [f"scr {js['h']} {(js.get('cur') or [0, 0])[0]} {(js.get('cur') or [0, 0])[1]} {enc_bool(js['show'])}"]
    for line in dense_rows(js):
        toks = []
        for (t, sid, wd, st) in line:
            if st != style_str(sid):       # Char() appended " class:control-character " / " class:nbsp "
                sid = extra_styles.setdefault(st, 1000 + len(extra_styles))
            toks.append(f"{enc_str(t)} {sid} {wd}")
        L.append(" ".join(["row"] + toks))
    for y, x, t in js.get("zwe", []):
        L.append(f"zwe {y} {x} {enc_str(t)}")
    return L


def all_chars(case):
    cs = set()
    for op in case["ops"]:
        js = op.get("scr") if isinstance(op, dict) else None
        if js:
            for _, _, t, _ in js["cells"]:
                cs.update(Char(t, "").char)
    return cs


def header_lines(case):
    L = [f"cfg {case['W']} {case['H']} {enc_bool(case['fs'])}", f"depth {case['depth']}"]
    for sid, a in sorted(style_table(case).items()):
        L.append(f"style {sid} {enc_attrs(a)}".replace("/", " "))
    cs = all_chars(case)
    wide = "".join(sorted(c for c in cs if get_cwidth(c) == 2))
    zero = "".join(sorted(c for c in cs if get_cwidth(c) == 0 and ord(c) >= 32 and ord(c) != 127))
    L.append(f"cw 2 {enc_str(wide)}")
    L.append(f"cw 0 {enc_str(zero)}")
    return L


# ------------------------------------------------------------------ the two drivers of the real code
class StubLayout:
    current_window = WIN
    visible_windows: list = []


class StubCursor:
    def __init__(self): self.shape = 0
    def get_cursor_shape(self, app): return SHAPES[self.shape]


class StubApp:
    def __init__(self, depth):
        self.layout = StubLayout()
        self.style_transformation = DummyStyleTransformation()
        self.color_depth = DEPTHS[depth]
        self.exit_style = ""
        self.cursor = StubCursor()


class StubContainer:
    """stands for layout.container: writes a prepared screen"""

    def __init__(self): self.js = None

    def preferred_height(self, width, max_available_height):
        class D: preferred = self.js["h"]
        return D

    def write_to_screen(self, screen, mouse_handlers, write_position, parent_style, erase_bg, z_index):
        build_screen(self.js, screen)


class StubRenderLayout(StubLayout):
    def __init__(self): self.container = StubContainer()


def last_tok(table_rev, last):
    return "N" if last is None else str(table_rev.get(last, "?"))


def op_depth(case, op):
    """colour depth of one render: `app.color_depth` may change between renders"""
    return op.get("depth", case["depth"])


def gridable(case):
    """the Lean terminal stores abstract Attrs, the interpreter parsed SGR: comparable when the escape codes of
    the case's attrs are pairwise distinct at the case's depth"""
    if case.get("nogrid") or not case.get("chain", True):
        return False
    tab = style_table(case)
    out = Vt100_Output(io.StringIO(), lambda: Size(1, 1), term="xterm")
    cache = out._escape_code_caches[DEPTHS[case["depth"]]]
    seen = {}
    for a in set(tab.values()):
        e = cache[a]
        if e in seen and seen[e] != a:
            return False
        seen[e] = a
    return True


def grid_plan(case):
    """per op: compare the Lean terminal with the byte-level interpreter after this op?  Not after a size
    change or a bare reset (no terminal semantics), and not once the alternate screen has been left (the
    interpreter switches buffers, the model terminal is the alternate screen only)."""
    on = gridable(case)
    plan = []
    for op in case["ops"]:
        k = op["op"]
        if k in ("size", "reset") or op_depth(case, op) != case["depth"]:
            on = False          # (a depth flip: the Lean terminal stores depth-independent attrs)
        if case["fs"] and (k == "clear" or (k == "erase" and op.get("la", 1)) or op.get("done")):
            on = False
        plan.append(on and k in ("render", "diff", "erase", "clear"))
    return plan


def sgr_of_attrs(case):
    """canonical parsed SGR -> Attrs token, for printing the interpreter's grid in the model's vocabulary"""
    tab = style_table(case)
    out = Vt100_Output(io.StringIO(), lambda: Size(1, 1), term="xterm")
    cache = out._escape_code_caches[DEPTHS[case["depth"]]]
    m = {}
    for a in set(tab.values()):
        v = VT(1, 1)
        v.feed(cache[a])
        m[v.sgr] = a
    m.setdefault(VT.PLAIN, mk_attrs(PLAIN))
    return m


def grid_line(vt: VT, sgrmap):
    def attrs_tok(sgr):
        if sgr in sgrmap:
            return enc_attrs(sgrmap[sgr])
        fg, bg, fl = sgr           # erased with a background colour
        for k, a in sgrmap.items():
            if k[1] == bg and bg:
                return enc_attrs(mk_attrs(PLAIN)._replace(bgcolor=a.bgcolor))
        return "?" + repr(sgr)

    def cell_tok(c):
        t = "".join(ch for ch in c[0] if get_cwidth(ch) != 0 or ch == "")
        return ".".join(str(ord(ch)) for ch in t) + ";" + attrs_tok(c[1])

    rows = ["|".join(cell_tok(c) for c in row) for row in vt.owned()]
    return (f"{vt.row - vt.top} {vt.col} {enc_bool(vt.visible)} {enc_bool(vt.autowrap)} {attrs_tok(vt.sgr)} "
            f"{vt.scrolled} {enc_bool(vt.oob)} " + " ".join(rows))


def rs_tok(r: Renderer, rev):
    return (f"{r._cursor_pos.x} {r._cursor_pos.y} {last_tok(rev, r._last_style)} "
            f"{enc_bool(r._last_screen is not None)} {enc_bool(r._in_alternate_screen)}"
            f"{enc_bool(r._mouse_support_enabled)}{enc_bool(r._bracketed_paste_enabled)}"
            f"{enc_bool(r._cursor_key_mode_reset)}")


def run_case(case, tee):
    """run the ops of a case on the real code; yields (op, calls, state token, bytes)"""
    W, H, fs = case["W"], case["H"], bool(case["fs"])
    table = style_table(case)
    rev = {style_str(k): k for k in table}
    out = RecOutput(W, H, tee=tee)
    app = StubApp(case["depth"])
    res = []
    if case["kind"] == "diff":
        style = StubStyle(table)
        afs = _StyleStringToAttrsCache(style.get_attrs_for_style_str, DummyStyleTransformation())
        hs = _StyleStringHasStyleCache(afs)
        prev = None
        pos, last = Point(0, 0), None
        for op in case["ops"]:
            if op["op"] == "size":
                out.w, out.h = op["W"], op["H"]
                res.append((op, None, None, ""))
                continue
            scr = build_screen(op["scr"])
            app.color_depth = DEPTHS[op_depth(case, op)]
            if "pos" in op:
                pos = Point(x=op["pos"][0], y=op["pos"][1])
            if "last" in op:
                last = None if op["last"] is None else style_str(op["last"])
            if op.get("noprev"):
                prev = None
            pw = op.get("pw", out.w)
            pos, last = _output_screen_diff(app, out, scr, pos, app.color_depth, prev, last, bool(op["done"]),
                                            fs, afs, hs, out.get_size(), pw)
            res.append((op, out.take(), f"{pos.x} {pos.y} {last_tok(rev, last)}", out.take_bytes()))
            prev = scr
    else:
        style = StubStyle(table)
        layout = StubRenderLayout()
        app.layout = layout
        flag = {"mouse": False}
        r = Renderer(style, out, full_screen=fs, mouse_support=Condition(lambda: flag["mouse"]))
        res.append(({"op": "init"}, out.take(), rs_tok(r, rev), out.take_bytes()))
        for op in case["ops"]:
            k = op["op"]
            if k == "size":
                out.w, out.h = op["W"], op["H"]
                res.append((op, None, None, ""))
                continue
            if k == "render":
                layout.container.js = op["scr"]
                flag["mouse"] = bool(op.get("mouse", 0))
                style.key = op.get("key", 0)
                app.cursor.shape = op.get("shape", 0)
                app.color_depth = DEPTHS[op_depth(case, op)]
                r.render(app, layout, is_done=bool(op["done"]))
            elif k == "erase":
                r.erase(leave_alternate_screen=bool(op.get("la", 1)))
            elif k == "reset":
                r.reset(_scroll=bool(op.get("sc", 0)), leave_alternate_screen=bool(op.get("la", 1)))
            elif k == "clear":
                r.clear()
            else:
                raise ValueError(k)
            res.append((op, out.take(), rs_tok(r, rev), out.take_bytes()))
    return res


# ------------------------------------------------------------------ screens from real layouts
_LAYOUT_CACHE: dict[str, dict] = {}
LAYOUT_KEYS = ["a", "l", "p", "b", " ", "世", "é", "\x01", "\x05", "\x02", "\x06", "\x7f", "\x0b", "\x19", "\t",
               "\x1b[A", "\x1b[B", "\x1b[D", "\x1b[C", "\x16\x01", "\x1b\r", "x", "\x17"]


def layout_to_rend(case):
    """run a real PromptSession (real layout, real Renderer) on the case's keys, capture every Screen handed to
    the differ, and return the equivalent explicit `rend` case (screens + interned styles)"""
    import json as _json
    key = _json.dumps(case, sort_keys=True)
    if key in _LAYOUT_CACHE:
        return _LAYOUT_CACHE[key]
    import asyncio
    import prompt_toolkit.renderer as R
    from editor import editor
    from prompt_toolkit.completion import WordCompleter
    from prompt_toolkit.formatted_text import FormattedText

    cfg = case["cfg"]
    W, H, fs = case["W"], case["H"], bool(case["fs"])
    top = 0 if fs else case.get("top", 0)
    kw = dict(text=cfg.get("text", ""), multiline=bool(cfg.get("multiline")),
              reserve_space_for_menu=cfg.get("menu", 2), wrap_lines=bool(cfg.get("wrap", 1)))
    if cfg.get("completer"):
        kw.update(completer=WordCompleter(["alpha", "alpine", "beta", "世界", "pal"]), complete_while_typing=True)
    if cfg.get("toolbar"):
        kw.update(bottom_toolbar=cfg["toolbar"])
    if cfg.get("rprompt"):
        kw.update(rprompt=cfg["rprompt"])
    msg = cfg.get("message", "> ")
    if isinstance(msg, list):
        msg = FormattedText([tuple(x) for x in msg])
    kw.update(message=msg)

    captured = []
    orig = R._output_screen_diff

    def spy(app, output, screen, *a, **k):
        captured.append(screen)
        return orig(app, output, screen, *a, **k)

    sids = {"": 0, "[transparent]": 1}
    attrs = {}
    ops = []
    R._output_screen_diff = spy
    try:
        with editor(**kw) as ed:
            app = ed.app
            out = RecOutput(W, H)
            app.output = out
            app.full_screen = fs
            app.renderer = Renderer(app._merged_style, out, full_screen=fs, mouse_support=app.mouse_support)
            cur_depth = {"d": case["depth"]}
            app._color_depth = lambda: DEPTHS[cur_depth["d"]]       # a callable colour depth, flipped between keys
            if not fs and cfg.get("cpr", 1):
                app.renderer.report_absolute_cursor_row(top + 1)

            def render():
                async def go():
                    for _ in range(3):
                        await asyncio.sleep(0)
                    app.render_counter += 1
                    app.renderer.render(app, app.layout, is_done=ed.done)
                ed._loop.run_until_complete(go())
                scr = captured.pop()
                del captured[:]
                cells = []
                for y in sorted(scr.data_buffer):
                    row = scr.data_buffer[y]
                    for x in sorted(row):
                        ch = row[x]
                        if ch.style not in sids:
                            sids[ch.style] = len(sids)
                        sid = sids[ch.style]
                        if sid not in attrs:
                            attrs[sid] = app.renderer._attrs_for_style[ch.style]
                        cells.append([y, x, ch.char, sid])
                zwe = [[y, x, t] for y, r in scr.zero_width_escapes.items() for x, t in r.items()]
                cur = scr.get_cursor_position(app.layout.current_window)
                ops.append({"op": "render", "scr": {"h": scr.height, "cur": [cur.x, cur.y],
                                                     "show": int(bool(scr.show_cursor)), "cells": cells, "zwe": zwe},
                            "done": int(bool(ed.done)), "raw": 1, "depth": cur_depth["d"]})

            render()
            flips = case.get("depths") or []
            for i, k in enumerate(case["keys"]):
                if ed.done:
                    break
                ed.feed(k)
                if i < len(flips) and flips[i]:
                    cur_depth["d"] = flips[i]
                render()
    finally:
        R._output_screen_diff = orig
    styles = []
    for sid, a in sorted(attrs.items()):
        fl = "".join("1" if x else "0" for x in (a.bold, a.underline, a.strike, a.italic, a.blink, a.reverse,
                                                  a.hidden))
        styles.append([sid, a.color or "", a.bgcolor or "", fl])
    rend = {"kind": "rend", "W": W, "H": H, "top": top, "fs": int(fs), "depth": case["depth"], "styles": styles,
            "chain": True, "ops": ops, "from_layout": True}
    _LAYOUT_CACHE[key] = rend
    return rend


def resolve(case):
    return layout_to_rend(case) if case.get("kind") == "layout" else case


def model_lines(case):
    case = resolve(case)
    L = header_lines(case)
    extra: dict[str, int] = {}
    top = 0 if case["fs"] else case.get("top", 0)
    body = [f"term {top}"]
    plan = grid_plan(case)
    if case["kind"] != "diff":
        body.append("init")
    for op, grid in zip(case["ops"], plan):
        k = op["op"]
        if k == "size":
            body.append(f"size {op['W']} {op['H']}")
        elif k == "diff":
            body += screen_lines(op["scr"], extra)
            body.append(f"depth {op_depth(case, op)}")
            if op.get("noprev"):
                body.append("noprev")
            body.append("diff " + " ".join([
                "-" if "pos" not in op else str(op["pos"][0]),
                "-" if "pos" not in op else str(op["pos"][1]),
                "-" if "last" not in op else ("N" if op["last"] is None else str(op["last"])),
                enc_bool(op["done"]), "-" if "pw" not in op else str(op["pw"])]))
            body.append("keep")
        elif k == "render":
            body += screen_lines(op["scr"], extra)
            body.append(f"depth {op_depth(case, op)}")
            body.append(f"render {enc_bool(op['done'])} {enc_bool(op.get('mouse', 0))} {op.get('key', 0)} "
                        f"{op.get('shape', 0)}")
        elif k == "erase":
            body.append(f"erase {enc_bool(op.get('la', 1))}")
        elif k == "reset":
            body.append(f"reset {enc_bool(op.get('sc', 0))} {enc_bool(op.get('la', 1))}")
        elif k == "clear":
            body.append("clear")
        if grid:
            body.append("grid")
        if op.get("done") and k in ("render", "diff"):
            body.append(f"term {top}")       # the next prompt starts on a fresh terminal
    # styles that Char() derived itself (control characters): plain in the stub style
    for st, sid in extra.items():
        L.append(f"style {sid} {enc_attrs(mk_attrs(PLAIN))}".replace("/", " "))
    return L + body


def impl_lines(case):
    case = resolve(case)
    extra: dict[str, int] = {}
    out = ["ok"] * len(header_lines(case))
    plan = grid_plan(case)
    tee = any(plan)
    res = run_case(case, tee=tee)
    top = 0 if case["fs"] else case.get("top", 0)
    vt = VT(case["W"], case["H"] - top, top) if tee else None
    sgrmap = sgr_of_attrs(case) if tee else None
    body = ["ok"]
    if case["kind"] != "diff":
        op, calls, st, data = res.pop(0)
        if vt:
            vt.feed(data)
        body.append(f"{enc_calls(calls)} | {st}")
    for (op, calls, st, data), grid in zip(res, plan):
        k = op["op"]
        if k == "size":
            body.append("ok")
            continue
        if "scr" in op:
            body += ["ok"] * (len(screen_lines(op["scr"], extra)) + 1)      # + the depth line
        if k == "diff" and op.get("noprev"):
            body.append("ok")
        body.append(f"{enc_calls(calls)} | {st}")
        if k == "diff":
            body.append("ok")  # keep
        if vt:
            vt.feed(data)
            if k == "clear":
                vt.top = 0
        if grid:
            body.append(grid_line(vt, sgrmap))
        if op.get("done") and k in ("render", "diff"):
            if vt:
                vt = vt.fresh()
            body.append("ok")
    return out + ["ok"] * len(extra) + body


# ------------------------------------------------------------------ oracle
def _viol(site, cond, msg):
    return {"signature": f"{site} | {cond}", "msg": msg}


def expected_cells(js, case, W, H, depth):
    """what the owned rows must show for screen `js`: {(y, x): (text, sgr)} for the cells laid out from the
    left, a wide / multi-character cell covering the following columns; everything else blank"""
    out = Vt100_Output(io.StringIO(), lambda: Size(1, 1), term="xterm")
    cache = out._escape_code_caches[DEPTHS[depth]]
    tab = style_table(case)
    plain = mk_attrs(PLAIN)

    by_name = {style_str(k): v for k, v in tab.items()}
    memo = {}

    def sgr(style):
        if style not in memo:
            v = VT(1, 1)
            v.feed(cache[by_name.get(style, plain)])
            memo[style] = v.sgr
        return memo[style]

    rows: dict[int, dict[int, Char]] = {}
    for y, x, t, sid in js["cells"]:
        rows.setdefault(y, {})[x] = Char(t, style_str(sid))
    exp = {}
    for y in range(min(js["h"], H)):
        r = rows.get(y, {})
        c = 0
        while c < W:
            ch = r.get(c)
            if ch is None:
                c += 1
                continue
            a = sgr(ch.style)
            col = c
            for u in ch.char:
                k = get_cwidth(u)
                if k == 0:
                    if (y, col - 1) in exp and col > c:
                        t0, a0 = exp[(y, col - 1)]
                        exp[(y, col - 1)] = (t0 + u, a0)
                    continue
                if col + k <= W:
                    exp[(y, col)] = (u, a)
                    for i in range(1, k):
                        exp[(y, col + i)] = ("", a)
                col += k
            c += ch.width or 1
    return exp


def compare_grid(vt: VT, exp, W, H, shift=0):
    """first owned cell that is not visibly what `exp` says (rows shifted up by `shift` after a scroll)"""
    g = vt.owned()
    for y in range(len(g) - shift):
        for x in range(W):
            want = vis(exp.get((y + shift, x), (" ", VT.PLAIN)))
            got = vis(g[y][x]) if y < len(g) else None
            if want != got:
                return (y, x, want, got)
    return None


class _Real:
    """runs the ops of a chain case on the real code with a real Vt100_Output; yields per op the bytes"""

    def __init__(self, case):
        self.case = case
        self.W, self.H, self.fs = case["W"], case["H"], bool(case["fs"])
        self.buf = io.StringIO()
        self.out = Vt100_Output(self.buf, lambda: Size(rows=self.H, columns=self.W), term="xterm",
                                enable_cpr=False)
        self.table = style_table(case)
        self.app = StubApp(case["depth"])

    def take(self):
        self.out.flush()
        s = self.buf.getvalue()
        self.buf.seek(0)
        self.buf.truncate()
        return s

    def steps(self):
        case = self.case
        style = StubStyle(self.table)
        if case["kind"] == "diff":
            afs = _StyleStringToAttrsCache(style.get_attrs_for_style_str, DummyStyleTransformation())
            hs = _StyleStringHasStyleCache(afs)
            prev, pos, last = None, Point(0, 0), None
            for op in case["ops"]:
                scr = build_screen(op["scr"])
                self.app.color_depth = DEPTHS[op_depth(case, op)]
                if op.get("noprev"):
                    prev = None
                if "pos" in op:
                    pos = Point(x=op["pos"][0], y=op["pos"][1])
                last_h = prev.height if prev is not None else 0
                pos, last = _output_screen_diff(self.app, self.out, scr, pos, self.app.color_depth, prev, last,
                                                bool(op["done"]), self.fs, afs, hs, self.out.get_size(), self.W)
                self.out.flush()
                yield dict(op, op="render"), self.take(), last_h
                prev = scr
        else:
            layout = StubRenderLayout()
            self.app.layout = layout
            flag = {"mouse": False}
            r = Renderer(style, self.out, full_screen=self.fs, mouse_support=Condition(lambda: flag["mouse"]))
            yield {"op": "init"}, self.take(), 0
            for op in case["ops"]:
                k = op["op"]
                last_h = r._last_screen.height if r._last_screen is not None else 0
                if k == "render":
                    layout.container.js = op["scr"]
                    flag["mouse"] = bool(op.get("mouse", 0))
                    style.key = op.get("key", 0)
                    self.app.cursor.shape = op.get("shape", 0)
                    self.app.color_depth = DEPTHS[op_depth(case, op)]
                    r.render(self.app, layout, is_done=bool(op["done"]))
                elif k == "erase":
                    r.erase(leave_alternate_screen=bool(op.get("la", 1)))
                elif k == "clear":
                    r.clear()
                else:
                    return      # size change / bare reset: the chain property is not defined beyond
                yield op, self.take(), last_h


def scratch_vt(case, js, done, top, depth):
    """clear + draw `js` from scratch with the real differ on a fresh terminal"""
    W, H, fs = case["W"], case["H"], bool(case["fs"])
    buf = io.StringIO()
    out = Vt100_Output(buf, lambda: Size(rows=H, columns=W), term="xterm", enable_cpr=False)
    style = StubStyle(style_table(case))
    afs = _StyleStringToAttrsCache(style.get_attrs_for_style_str, DummyStyleTransformation())
    hs = _StyleStringHasStyleCache(afs)
    app = StubApp(depth)
    _output_screen_diff(app, out, build_screen(js), Point(0, 0), app.color_depth, None, None, done, fs, afs, hs,
                        Size(rows=H, columns=W), 0)
    out.flush()
    vt = VT(W, H - top, top)
    vt.feed(buf.getvalue())
    return vt


SKIPS: list = []


def oracle(case):
    if not case.get("chain", True):
        return []
    case = resolve(case)
    W, H, fs = case["W"], case["H"], bool(case["fs"])
    top = 0 if fs else case.get("top", 0)
    vt = VT(W, H - top, top)
    v = []
    site = "_output_screen_diff"

    def bad(cond, msg):
        if not any(x["signature"].endswith("| " + cond) for x in v):
            v.append(_viol(site, cond, msg))

    real = _Real(case)
    for i, (op, data, last_h) in enumerate(real.steps()):
        k = op["op"]
        scrolled0 = vt.scrolled
        vt.writes = []
        if "scr" in op:
            # preconditions of the property (a layout never violates them; a shrunk replay might)
            js = op["scr"]
            cx0, cy0 = js.get("cur") or [0, 0]
            # (a wide character whose right half would lie beyond the last column is excluded by the property:
            #  what a terminal does with it when autowrap is off is not defined by the terminal model.  Real
            #  layouts produce it rarely: Window with wrap_lines=False and a line wider than the window.)
            straddle = any(c[1] < W < c[1] + (Char(c[2], "").width or 0) for c in js["cells"])
            if js["h"] > vt.H - vt.top or not (cx0 < max(W, 1) and cy0 < max(1, js["h"])) or straddle or \
                    any(c[0] >= js["h"] for c in js["cells"]):
                SKIPS.append((f"op#{i}", js["h"], vt.H - vt.top, (cx0, cy0)))
                if case.get("from_layout") and (any(c[0] >= js["h"] for c in js["cells"]) or cx0 >= max(W, 1)):
                    # a real layout must establish these: the differ relies on them
                    v.append(_viol("layout", "screen violates WFScreen / cursor outside the terminal",
                                   f"op#{i}: height={js['h']} cursor={(cx0, cy0)} rows={sorted({c[0] for c in js['cells']})}"))
                return v
        rest = ""
        if k == "render" and op.get("done") and "\x1b[?1049l" in data:
            cut = data.index("\x1b[?1049l")      # Renderer.reset() after the done render leaves the alt screen
            data, rest = data[:cut], data[cut:]
        vt.feed(data)
        where = f"op#{i} {k} W={W} H={H} fs={int(fs)}"
        if k == "clear":
            vt.top = 0
        if vt.unknown:
            bad("unknown escape sequence", f"{where}: {vt.unknown[:3]}")
            vt.unknown = []
        if vt.oob:
            bad("cursor moved past the top/left margin of the owned area", where)
            vt.oob = False
        legit_shift = 1 if (k in ("render", "diff") and op.get("done")
                            and min(op["scr"]["h"], H) >= vt.H - vt.top) else 0
        if any(c != vt.sentinel for y in range(max(0, vt.top - min(legit_shift, vt.scrolled - scrolled0)))
               for c in vt.grid[y]):
            bad("rows above the origin changed", where)
        if k == "init":
            continue
        if k in ("erase", "clear"):
            g = vt.owned()
            if any(vis(c) != (" ", VT.PLAIN) for row in g for c in row):
                bad(f"{k}: output not erased", where)
            if (vt.row, vt.col) != (vt.top, 0):
                bad(f"{k}: cursor not at the origin", f"{where}: cursor {(vt.row - vt.top, vt.col)}")
            if vt.sgr != VT.PLAIN or not vt.autowrap:
                bad(f"{k}: attributes / autowrap not restored", where)
            if vt.scrolled != scrolled0:
                bad("scrolled", where)
            continue
        js, done = op["scr"], bool(op["done"])
        new_h = min(js["h"], H)
        bound = min(max(last_h, js["h"]), H)
        shift = vt.scrolled - scrolled0
        if done:
            if shift != legit_shift:
                bad("scrolled", f"{where}: done render scrolled {shift} lines, output height {new_h}")
        elif shift:
            bad("scrolled", f"{where}: scrolled {shift} lines")
        outside = [(y - vt.top + shift, x) for (y, x) in vt.writes
                   if not (vt.top <= y + shift < vt.top + bound and x < W)]
        if outside and not shift:
            bad("wrote outside the owned rows", f"{where}: cells {outside[:4]} bound rows<{bound}")
        depth = op_depth(case, op)       # colours are compared as emitted at the depth of THIS render
        exp = expected_cells(js, case, W, H, depth)
        d = compare_grid(vt, exp, W, H, shift)
        if d:
            bad("terminal does not show the screen",
                f"{where}: cell (y={d[0]},x={d[1]}) want {d[2]} got {d[3]}; screen={js}")
        sv = scratch_vt(case, js, done, vt.top, depth)
        # compare with the from-scratch draw (same origin-relative coordinates)
        ga, gb = vt.owned(), sv.owned()
        diffc = None
        for y in range(min(len(ga), len(gb))):
            for x in range(W):
                if vis(ga[y][x]) != vis(gb[y][x]):
                    diffc = diffc or (y, x, ga[y][x], gb[y][x])
        if diffc:
            bad("incremental != from-scratch (cells)",
                f"{where}: cell (y={diffc[0]},x={diffc[1]}) incremental {diffc[2]} scratch {diffc[3]}; screen={js}")
        if (vt.row - vt.top, vt.col) != (sv.row - sv.top, sv.col):
            bad("incremental != from-scratch (cursor)",
                f"{where}: cursor {(vt.row - vt.top, vt.col)} vs scratch {(sv.row - sv.top, sv.col)}")
        after_reset = done and case["kind"] != "diff"      # Renderer.reset() shows the cursor again
        if vt.sgr != VT.PLAIN:
            bad("attributes not reset after render", where)
        if vt.autowrap != (done or not fs):
            bad("autowrap state", f"{where}: autowrap={vt.autowrap}")
        if done:
            if (vt.row - vt.top, vt.col) != (new_h - shift, 0):
                bad("done: cursor not on the line below the output",
                    f"{where}: cursor {(vt.row - vt.top, vt.col)} output height {new_h}")
            vt.feed(rest)
            if vt.visible != (True if after_reset else bool(js["show"])):
                bad("cursor visibility", f"{where}: visible={vt.visible} after the done render")
            vt = vt.fresh()             # the next prompt starts on a fresh terminal (modes are kept)
        else:
            if vt.visible != sv.visible:
                bad("incremental != from-scratch (cursor visibility)", where)
            if vt.visible != bool(js["show"]):
                bad("cursor visibility", f"{where}: visible={vt.visible} show_cursor={js['show']}")
            cx, cy = js.get("cur") or [0, 0]
            if (vt.row - vt.top, vt.col) != (cy, min(cx, W - 1)):
                bad("cursor position", f"{where}: cursor {(vt.row - vt.top, vt.col)} want {(cy, min(cx, W - 1))}")
    return v


# ------------------------------------------------------------------ generators
STYLES = [[2, "", "ansired", "0000000"], [3, "ansiblue", "", "1000000"], [4, "ansiblue", "", "1000000"],
          [5, "", "", "1000000"], [6, "", "", "0100000"], [7, "ff8800", "004400", "0000010"],
          [8, "ff8800", "", "0000000"], [9, "", "", "0001001"]]
GLYPHS = ["a", "b", "x", "y", "_"]


def rand_screen(rng, W, H, rich=True, wild=False):
    h = rng.choice([0, 1, 1, 2, H, H, max(H - 1, 0), rng.randrange(0, H + 1)] + ([H + 1] if wild else []))
    if not wild:
        h = min(h, H)
    cells, zwe = [], []
    for y in range(h):
        if rng.random() < 0.25:
            continue
        L = rng.choice([0, 1, W, W, max(W - 1, 0), rng.randrange(0, W + 1)] + ([W + 2] if rich else []))
        x = 0
        while x < L:
            k = rng.random()
            sid = rng.choice([0, 0, 1, 2, 3, 4, 5, 6, 7, 8, 9])
            if k < 0.12:
                x += 1                      # gap: the default char
                continue
            if k < 0.45:
                cells.append([y, x, rng.choice(GLYPHS), sid])
            elif k < 0.70:
                cells.append([y, x, " ", sid])
            elif rich and k < 0.80 and (x + 1 < W or x >= W):
                cells.append([y, x, rng.choice(["世", "界", "\x01", "\x1b"]), sid])
                cells.append([y, x + 1, "", sid])
                x += 1
            elif rich and k < 0.84:
                cells.append([y, x, "é", sid])
            elif rich and k < 0.87:
                cells.append([y, x, "\xa0", sid])
            else:
                cells.append([y, x, rng.choice(GLYPHS), 0])
            if rich and rng.random() < 0.03:
                zwe.append([y, x, "\x1b]8;;u\x1b\\"])
            x += 1
    hh = max(1, min(h, H))
    cur = [rng.choice([0, max(W - 1, 0), rng.randrange(0, W)]), rng.randrange(0, hh)]
    if wild and rng.random() < 0.1:
        cur[0] = W + rng.randrange(0, 2)
    return {"h": h, "cur": cur, "show": rng.randrange(2), "cells": cells, "zwe": zwe}


def mutate_screen(rng, js, W, H):
    """a small edit of the previous screen (what typing does): the interesting case for a differ"""
    js = {"h": js["h"], "cur": list(js["cur"]), "show": js["show"], "cells": [list(c) for c in js["cells"]],
          "zwe": [list(z) for z in js.get("zwe", [])]}
    # never split a wide pair: only edit narrow single cells
    narrow = [i for i, c in enumerate(js["cells"]) if len(c[2]) == 1 and get_cwidth(Char(c[2], "").char) == 1
              and not (i + 1 < len(js["cells"]) and js["cells"][i + 1][2] == "")]
    for _ in range(rng.randrange(1, 4)):
        k = rng.random()
        if k < 0.4 and narrow:
            i = rng.choice(narrow)
            js["cells"][i][2] = rng.choice(GLYPHS + [" "])
        elif k < 0.6 and narrow:
            i = rng.choice(narrow)
            js["cells"][i][3] = rng.choice([0, 1, 2, 3, 4, 5, 6])
        elif k < 0.8 and narrow:
            i = rng.choice(narrow)
            js["cells"].pop(i)
            narrow = [j if j < i else j - 1 for j in narrow if j != i]
        else:
            hh = max(1, min(js["h"], H))
            js["cur"] = [rng.randrange(0, max(W, 1)), rng.randrange(0, hh)]
    return js


def rand_chain(rng, tier):
    W = rng.choice([1, 2, 3, 4, 5, 8, 12])
    H = rng.choice([1, 2, 3, 4, 6])
    fs = rng.randrange(2)
    depth = rng.choice([1, 4, 8, 24, 24])
    kind = rng.choice(["rend", "rend", "rend", "diff"])
    top = 0 if fs else rng.choice([0, 0, 1, 2, H - 1])
    top = max(0, min(top, H - 1))
    case = {"kind": kind, "W": W, "H": H, "top": top, "fs": fs, "depth": depth, "styles": STYLES, "chain": True,
            "ops": []}
    avail = H - top
    n = rng.randrange(1, 9)
    prev = None
    fresh = True
    cur_depth = depth
    drawn_depth = None
    for _ in range(n):
        if rng.random() < 0.2:
            cur_depth = rng.choice([1, 4, 8, 24])      # app.color_depth changes between two renders
        if prev is not None and rng.random() < 0.5:
            js = mutate_screen(rng, prev, W, avail)
        else:
            js = rand_screen(rng, W, avail)
        done = 1 if rng.random() < 0.12 else 0
        if kind == "diff":
            op = {"op": "diff", "scr": js, "done": done, "depth": cur_depth}
            if drawn_depth is not None and cur_depth != drawn_depth and not fresh:
                # the differ itself does not look at the depth of the previous call: a caller that changes the
                # depth must forget the previous screen (as Renderer.render does)
                op["noprev"] = 1
            if fresh:
                op["noprev"] = 1
                op["pos"] = [0, 0]
            case["ops"].append(op)
        else:
            op = {"op": "render", "scr": js, "done": done, "mouse": int(rng.random() < 0.1),
                  "key": int(rng.random() < 0.1), "shape": rng.choice([0, 0, 0, 1, 2]), "depth": cur_depth}
            case["ops"].append(op)
            r = rng.random()
            if not done and r < 0.06:
                case["ops"].append({"op": "erase", "la": rng.randrange(2)})
                prev = None
            elif not done and r < 0.09:
                case["ops"].append({"op": "clear"})
                prev = None
                avail = H
        drawn_depth = cur_depth
        fresh = bool(done)
        if done:
            avail = H - top          # the next prompt starts on a fresh terminal with the origin at `top`
        prev = None if done else js
        if done and fs:
            break       # after leaving the alternate screen a new session starts
    return case


def rand_free(rng):
    """direct calls of the differ with arbitrary current_pos / last_style / previous_width / previous screen:
    correspondence only (the terminal need not show the previous screen)"""
    W = rng.choice([0, 1, 2, 3, 5, 9])
    H = rng.choice([0, 1, 2, 4])
    case = {"kind": "diff", "W": W, "H": H, "fs": rng.randrange(2), "depth": rng.choice([1, 4, 8, 24]),
            "styles": STYLES, "chain": False, "nogrid": 1, "ops": []}
    for _ in range(rng.randrange(1, 5)):
        op = {"op": "diff", "scr": rand_screen(rng, max(W, 1), max(H, 1), wild=True), "done": int(rng.random() < 0.2)}
        if rng.random() < 0.7:
            op["pos"] = [rng.randrange(0, W + 3), rng.randrange(0, H + 3)]
        if rng.random() < 0.7:
            op["last"] = rng.choice([None, 0, 1, 2, 3, 4, 5])
        if rng.random() < 0.3:
            op["pw"] = rng.choice([0, W, W + 1])
        if rng.random() < 0.2:
            op["noprev"] = 1
        case["ops"].append(op)
    return case


def rand_resize(rng):
    """Renderer-level sequences with size changes, style-key changes, bare resets: call correspondence only"""
    W, H = rng.choice([2, 3, 5]), rng.choice([1, 2, 3])
    case = {"kind": "rend", "W": W, "H": H, "fs": rng.randrange(2), "depth": rng.choice([1, 4, 8, 24]),
            "styles": STYLES, "chain": False, "nogrid": 1, "ops": []}
    for _ in range(rng.randrange(2, 8)):
        r = rng.random()
        if r < 0.15:
            W, H = rng.choice([2, 3, 5]), rng.choice([1, 2, 3])
            case["ops"].append({"op": "size", "W": W, "H": H})
        elif r < 0.25:
            case["ops"].append({"op": "reset", "sc": rng.randrange(2), "la": rng.randrange(2)})
        elif r < 0.32:
            case["ops"].append({"op": "erase", "la": rng.randrange(2)})
        elif r < 0.36:
            case["ops"].append({"op": "clear"})
        else:
            case["ops"].append({"op": "render", "scr": rand_screen(rng, W, H, wild=True), "done": int(rng.random() < 0.15),
                                "mouse": rng.randrange(2), "key": rng.randrange(3), "shape": rng.randrange(4),
                                "depth": rng.choice([case["depth"], case["depth"], 1, 24])})
    return case


def rand_layout(rng):
    W = rng.choice([12, 16, 20, 30, 40])
    H = rng.choice([4, 6, 8, 10])
    fs = int(rng.random() < 0.25)
    cfg = {"text": rng.choice(["", "", "hello", "ab\ncd", "世界 x"]), "multiline": int(rng.random() < 0.4),
           "completer": int(rng.random() < 0.5), "menu": rng.choice([0, 1, 2, 3]),
           "toolbar": rng.choice([None, None, "tb", "tool 世 bar"]), "rprompt": rng.choice([None, None, "<r>"]),
           "wrap": int(rng.random() < 0.7), "cpr": int(rng.random() < 0.7),
           "message": rng.choice(["> ", "世> ", [["bold", "p"], ["", "> "]], [["bg:ansired", " "], ["", "$ "]], ""])}
    keys = [rng.choice(LAYOUT_KEYS) for _ in range(rng.randrange(1, 10))]
    if rng.random() < 0.6:
        keys.append("\x1b\r" if cfg["multiline"] and rng.random() < 0.8 else "\r")
    depths = [rng.choice([1, 4, 8, 24]) if rng.random() < 0.2 else 0 for _ in keys]
    return {"kind": "layout", "W": W, "H": H, "top": 0, "fs": fs, "depth": rng.choice([1, 4, 8, 24]), "cfg": cfg,
            "keys": keys, "depths": depths, "chain": True}


SMALL_KINDS = [None, ("a", 0), (" ", 2)]


def small_screens(W, H):
    out = []
    for h in range(H + 1):
        for tup in itertools.product(range(len(SMALL_KINDS)), repeat=W * h):
            cells = []
            for i, k in enumerate(tup):
                if SMALL_KINDS[k] is not None:
                    cells.append([i // W, i % W, SMALL_KINDS[k][0], SMALL_KINDS[k][1]])
            out.append({"h": h, "cells": cells, "zwe": []})
    return out


def small_cases(sizes, n, sample=None, modes=(0, 1)):
    for (W, H) in sizes:
        scr = small_screens(W, H)
        idx = 0
        if sample:
            rng, cnt = sample
            tuples = [tuple(rng.randrange(len(scr)) for _ in range(n)) for _ in range(cnt)]
        else:
            tuples = itertools.product(range(len(scr)), repeat=n)
        for tup in tuples:
            for fs in modes:
                ops = []
                for j, si in enumerate(tup):
                    base = scr[si]
                    hh = max(1, base["h"])
                    cur = [0, 0] if (idx + j) % 2 == 0 else [W - 1, hh - 1]
                    ops.append({"op": "render", "scr": dict(base, cur=cur, show=(idx + j) % 3 != 0), "done": 0})
                # every fourth chain changes the colour depth before its second render (8 bit -> 1 bit / 24 bit)
                if idx % 4 == 1 and len(ops) > 1:
                    ops[1]["depth"] = 1 if idx % 8 == 1 else 24
                # every third chain ends with a done render of its last screen
                if idx % 3 == 0:
                    ops.append(dict(ops[-1], done=1))
                idx += 1
                yield {"kind": "rend", "W": W, "H": H, "fs": fs, "depth": 8,
                       "styles": [[2, "", "ansired", "0000000"]], "chain": True, "ops": ops}


def cases(tier, rng):
    if tier == "quick":
        yield from small_cases([(1, 1), (2, 1), (3, 1), (1, 2)], 2)
        yield from small_cases([(2, 2)], 2, modes=(0,))
        nrand, nfree, nres, nlay = 2500, 1200, 500, 120
    else:
        yield from small_cases([(1, 1), (2, 1), (3, 1), (1, 2), (2, 2)], 2)
        yield from small_cases([(1, 1), (2, 1), (3, 1), (1, 2)], 3)
        yield from small_cases([(3, 2)], 2, sample=(rng, 12000))
        nrand, nfree, nres, nlay = 50000, 15000, 6000, 1200
    for _ in range(nrand):
        yield rand_chain(rng, tier)
    for _ in range(nfree):
        yield rand_free(rng)
    for _ in range(nres):
        yield rand_resize(rng)
    for _ in range(nlay):
        yield rand_layout(rng)


def nontrivial(case):
    if case.get("kind") == "layout":
        return len(case["keys"]) >= 2
    scr = [op["scr"] for op in case["ops"] if "scr" in op and op["scr"]["cells"]]
    return len({repr(s["cells"]) for s in scr}) >= 2


def sample_view(case):
    return case


def distribution(cases_):
    d = {"kind": {}, "W": {}, "H": {}, "ops": {}, "renders_per_case": {}, "wide_cells": 0, "done_renders": 0,
         "full_screen": 0, "chain": 0, "depth_changes": 0}
    for c in cases_:
        d["kind"][c["kind"]] = d["kind"].get(c["kind"], 0) + 1
        if c["kind"] == "layout":
            d["ops"]["key"] = d["ops"].get("key", 0) + len(c["keys"])
            d["depth_changes"] += sum(1 for x in c.get("depths") or [] if x and x != c["depth"])
            continue
        d["W"][str(c["W"])] = d["W"].get(str(c["W"]), 0) + 1
        d["H"][str(c["H"])] = d["H"].get(str(c["H"]), 0) + 1
        d["full_screen"] += int(bool(c["fs"]))
        d["chain"] += int(bool(c.get("chain", True)))
        n = 0
        last_depth = c["depth"]
        for op in c["ops"]:
            d["ops"][op["op"]] = d["ops"].get(op["op"], 0) + 1
            if "scr" in op:
                d["depth_changes"] += int(op.get("depth", c["depth"]) != last_depth)
                last_depth = op.get("depth", c["depth"])
            if "scr" in op:
                n += 1
                d["done_renders"] += int(bool(op["done"]))
                d["wide_cells"] += sum(1 for cell in op["scr"]["cells"] if cell[2] == "")
        d["renders_per_case"][str(n)] = d["renders_per_case"].get(str(n), 0) + 1
    return d


if __name__ == "__main__":
    sys.exit(core.main(sys.modules[__name__]))
