#!/venv/bin/python
"""C02 — Document coordinates and motion queries: correspondence with Ptk.Model.C02 + property oracle.

case = {"text": str, "curs": [int], "qs": [[op, args...]], "share": bool}
  text-level queries  : ["T"], ["I", i], ["R", row, col]
  cursor-level queries: ["V"], ["M"], ["COL", k], ["LR", n], ["UD", n, pref|None], ["PAR", n],
                        ["F", sub, n], ["W", n], ["WS", n], ["WB"], ["BR", l, r, end|None],
                        ["BL", l, r, start|None], ["BM", start|None, end|None]
       ("WS": the declarative SPECIFICATION of the word motions, Ptk.Model.C02Spec, n >= 1)
One protocol line per text-level query and per (cursor-level query, cursor).
case = {"kind": "scan", "texts": [str]}: the regex scanners alone against the compiled regexes of
       prompt_toolkit.document (one "SC" line per text), over an alphabet with Unicode word characters.
case = {"kind": "cache", "kops": [...]}: cache-level operations.
"""
from __future__ import annotations

import itertools
import os
import re
import sys

sys.path.insert(0, os.path.dirname(os.path.abspath(__file__)))
import core
from core import enc_str, enc_bool, enc_opt_int, enc_list

from prompt_toolkit.document import Document

ID = "C02"
DRIVER = "drv_c02"
PROPS = ["Ptk.Props.C02", "Ptk.Props.C02Extra", "Ptk.Props.C02Find", "Ptk.Props.C02Para", "Ptk.Props.C02Bracket",
         "Ptk.Props.C02WordB", "Ptk.Props.C02Words", "Ptk.Props.C02Gen"]
TECHNIQUE = "Lean 4 proof over hand-written executable model + differential correspondence with the real code"
LEVEL_TEXT = ("Lean 4 theorems over an executable model of prompt_toolkit.document.Document: index<->(row,col) "
              "translations are mutually inverse, agree with split('\\n') and clamp every integer row/column "
              "(total specification); before/after/current-line/row/col/current char/line flags describe the same "
              "text; every modelled relative motion keeps 0 <= cursor+offset <= len(text), within-line motions stay "
              "on the line; find / find_backwards / find_all report exactly the count-th nearest non-overlapping "
              "occurrence (every count, also within the current line); the four word / WORD motions are proved EQUAL "
              "to a declarative specification ('the count-th offset whose target starts / ends a run of word "
              "characters or punctuation') for all texts, cursors and counts; bracket queries report the first "
              "bracket that balances and None only when none does; start/end_of_paragraph, the matching-line "
              "loops, word boundaries with whitespace flags, word under / before the cursor, leading whitespace and "
              "trailing empty lines have exact characterisations; the shared line-table cache is transparent; the "
              "model is tied to /repo on every run by regenerated regex pattern strings and character-class tables "
              "of the compiled regexes (side conditions re-decided by the kernel), a differential correspondence "
              "(exhaustive small scope + random texts incl. wide characters and Unicode blanks, a scanner-vs-`re` "
              "differential over Unicode word characters, the Lean specification against the real code) and the "
              "property oracle")
LEVEL_NOTE = ("trusted: Lean kernel, axioms propext/Classical.choice/Quot.sound only; the hand-written model and "
              "regex scanners (validated by the correspondence, the pattern pins and the regenerated class tables, "
              "not proved equal to the Python); CPython str/re semantics, bisect = the binary search of Lib/bisect.py")
RULE = ("exhaustive: every text over {a . space \\n ( )} (and over {B _ tab [ ] wide-char}) up to the tier's "
        "length bound x every cursor x every query family with counts -2..3 (oversized included), needles of "
        "length 0..2, all flag combinations, bracket limits -1..len+1, the word-motion specification for counts "
        "1..3; then seeded random texts (up to 60 chars; letters, digits, punctuation, brackets, quotes, tabs, "
        "Unicode blanks, wide characters) with boundary-biased cursors and needles cut from the text; documents "
        "with equal text share the line-table cache (share=true) or are re-created per query (share=false); "
        "cache-level cases interleave line/index queries on 1-3 texts through fresh Document objects with garbage "
        "collection of entries, where a Document is either constructed from its text or PRODUCED by "
        "paste_clipboard_data (3 data types x 3 paste modes x counts, data with / without newlines), insert_after / "
        "insert_before or cut_selection (exhaustive over 4 small texts x every cursor, then random), and after every "
        "op every live Document must satisfy lines == text.split, line_count, row/col and the index round trips; "
        "scan cases run the regex scanners of the model against the compiled regexes of "
        "document.py on every string over {a e-acute _ wide combining-acute arabic-digit . space U+2028} up to "
        "length 3 (thorough: 4) plus random strings over 13 symbols up to length 20; a case is non-trivial when "
        "the text is non-empty (cache cases: more than one op; scan cases: a non-empty string)")
EXHAUSTIVE = True
EXHAUSTIVE_SCOPE = {"quick": "alphabet {a . space \\n ( )} len<=4 and {B _ tab [ ] wide} len<=3, all cursors, all query families; "
                             "scanner differential: 9 symbols incl. Unicode word characters, len<=3",
                    "thorough": "alphabet {a . space \\n ( )} len<=5, {B _ tab [ ] wide} len<=4, {a space \\n (} len=6 (reduced query set), "
                                "all cursors, all query families; scanner differential: 9 symbols, len<=4"}
TRUSTED = ["harness/c02.py compares every query result field by field",
           "Ptk/Model/C02.lean is a hand translation of document.py (correspondence-checked)",
           "the six word regexes are replaced by run scanners; the pattern strings, their flags, the character "
           "classes of the compiled regex objects over all code points, the bracket pairs and the boundary alphabet "
           "are regenerated from /repo by harness/gen_c02.py and pinned by kernel-decided theorems "
           "(Ptk.Props.C02Gen: gen_patterns_ok, gen_ok, gen_space_ok, gen_brackets_ok, gen_alphabet_ok)",
           "the shared line-table cache is written only by the two lazy getters Document.lines / "
           "Document._line_start_indexes: pinned by gen_cache_writers_ok over the ast-derived set of functions that "
           "assign _cache.lines / _cache.line_indexes (seedLines_ok / seedLines_wrong_breaks: a producing method may "
           "seed the cache only with text.split)",
           "harness/gen_c02.py is trusted to print what `re` / `ast` report"]
ASSUMPTIONS = ["CPython str slicing/split semantics; bisect.bisect_right is the binary search of Lib/bisect.py "
               "(modelled as that loop and proved equal to its specification on the sorted line-start table)",
               "regex \\s and str.isspace tables regenerated from the interpreter (regex \\s is a subset of "
               "str.isspace: re-decided on every run)",
               "re.IGNORECASE = ASCII case folding on the generated alphabet (no non-ASCII cased letters)",
               "selection-dependent queries run in Emacs mode (vi_mode() False)"]
PARTIAL_SCOPE = ["selection_range(s) / selection_range_at_line / cut_selection / paste_clipboard_data / insert_after / "
                 "insert_before are not modelled (C09); they are driven as document PRODUCERS in the cache sessions "
                 "(the produced documents and all equal-text documents must keep consistent coordinates)",
                 "custom `pattern=` argument of find_start_of_previous_word / get_word_before_cursor not modelled",
                 "negative cursor positions and count = 0 of the word motions are outside the property (modelled and "
                 "correspondence-checked, no theorem); negative rows of translate_row_col_to_index: proved as the "
                 "code behaves (Python wrap-around of lines[row] first, row 0 only on IndexError)",
                 "find_previous_word_ending at cursor == len(text): known finding (off by one); the refinement theorem "
                 "prevWordEnding_refines_partial and prevWordEnding_lands_partial exclude exactly that region, "
                 "prevWordEnding_defect / prevWordEnding_refines_fails_at_end prove the witness",
                 "count < 1 of find / find_backwards / matching lines / paragraphs: modelled and correspondence-checked, "
                 "theorems are stated for count >= 1 (the property's quantifier)",
                 "ignore_case with non-ASCII cased letters is not generated (the theorems hold for every character "
                 "equality `eq`)",
                 "bisect.bisect_right is a standard-library function: the model follows the loop of Lib/bisect.py "
                 "(bisectRightAlg_eq: equal to 'number of entries <= x' on sorted lists; the C accelerator is "
                 "assumed to implement the same search)"]
MODELLED = {"src/prompt_toolkit/document.py": [
    "_DocumentCache.__init__", "Document.__init__",
    "Document.current_char", "Document.char_before_cursor", "Document.text_before_cursor",
    "Document.text_after_cursor", "Document.current_line_before_cursor", "Document.current_line_after_cursor",
    "Document.lines", "Document._line_start_indexes", "Document.lines_from_current", "Document.line_count",
    "Document.current_line", "Document.leading_whitespace_in_current_line",
    "Document._get_char_relative_to_cursor", "Document.on_first_line", "Document.on_last_line",
    "Document.cursor_position_row", "Document.cursor_position_col", "Document._find_line_start_index",
    "Document.translate_index_to_position", "Document.translate_row_col_to_index",
    "Document.is_cursor_at_the_end", "Document.is_cursor_at_the_end_of_line",
    "Document.has_match_at_current_position", "Document.find", "Document.find_all", "Document.find_backwards",
    "Document.get_word_before_cursor", "Document._is_word_before_cursor_complete",
    "Document.find_start_of_previous_word", "Document.find_boundaries_of_current_word",
    "Document.find_boundaries_of_current_word.get_regex", "Document.get_word_under_cursor",
    "Document.find_next_word_beginning", "Document.find_next_word_ending",
    "Document.find_previous_word_beginning", "Document.find_previous_word_ending",
    "Document.find_next_matching_line", "Document.find_previous_matching_line",
    "Document.get_cursor_left_position", "Document.get_cursor_right_position",
    "Document.get_cursor_up_position", "Document.get_cursor_down_position",
    "Document.find_enclosing_bracket_right", "Document.find_enclosing_bracket_left",
    "Document.find_matching_bracket_position", "Document.get_start_of_document_position",
    "Document.get_end_of_document_position", "Document.get_start_of_line_position",
    "Document.get_end_of_line_position", "Document.last_non_blank_of_current_line_position",
    "Document.get_column_cursor_position", "Document.empty_line_count_at_the_end",
    "Document.start_of_paragraph", "Document.start_of_paragraph.match_func",
    "Document.end_of_paragraph", "Document.end_of_paragraph.match_func"]}
ANCHORS = ["src/prompt_toolkit/document.py"]

ALPHA = ["a", ".", " ", "\n", "(", ")"]
RAND_ALPHA = list("abcXY_09") + list(".,;-+") + [" ", " ", " ", "\n", "\n", "\t"] + list("()[]{}<>") + \
    ["'", '"', "世", "界", "　", "\xa0", "\x0b", "\x1c", "\x85", " ", "́"]

TEXT_OPS = ("T", "I", "R")


# ------------------------------------------------------------------ protocol
def q_line(text, cur, q):
    op = q[0]
    t = enc_str(text)
    if op == "T":
        return f"T {t}"
    if op == "I":
        return f"I {t} {q[1]}"
    if op == "R":
        return f"R {t} {q[1]} {q[2]}"
    if op in ("V", "M", "WB"):
        return f"{op} {t} {cur}"
    if op in ("COL", "LR", "PAR", "W", "WS"):
        return f"{op} {t} {cur} {q[1]}"
    if op == "UD":
        return f"UD {t} {cur} {q[1]} {enc_opt_int(q[2])}"
    if op == "F":
        return f"F {t} {cur} {enc_str(q[1])} {q[2]}"
    if op in ("BR", "BL"):
        return f"{op} {t} {cur} {enc_str(q[1])} {enc_str(q[2])} {enc_opt_int(q[3])}"
    if op == "BM":
        return f"BM {t} {cur} {enc_opt_int(q[1])} {enc_opt_int(q[2])}"
    raise ValueError(q)


def expand(case):
    """(cursor or None, query) pairs in protocol order"""
    out = []
    for q in case["qs"]:
        if q[0] in TEXT_OPS:
            out.append((None, q))
        else:
            for c in case["curs"]:
                out.append((c, q))
    return out


def kop_tokens(op):
    k, t = op[0], enc_str(op[1])
    if k in ("L", "S", "G"):
        return [k, t]
    if k == "I":
        return [k, t, str(op[2])]
    if k == "R":
        return [k, t, str(op[2]), str(op[3])]
    raise ValueError(op)


def model_lines(case):
    if case.get("kind") == "cache":
        return ["K " + " ".join(tok for op in case["kops"] for tok in kop_tokens(op))]
    if case.get("kind") == "scan":
        return [f"SC {enc_str(t)}" for t in case["texts"]]
    return [q_line(case["text"], c, q) for c, q in expand(case)]


def kv(k, v):
    return f"{k}={v}"


def blank(s: str) -> bool:
    return not s or s.isspace()


def answer(d: Document, q) -> str:
    """what the REAL Document answers to one query, in the driver's output format"""
    op = q[0]
    if op == "T":
        return " ".join([kv("lines", enc_list(d.lines, enc_str)), kv("starts", enc_list(d._line_start_indexes)),
                         kv("n", d.line_count), kv("empty_end", d.empty_line_count_at_the_end())])
    if op == "I":
        r, c = d.translate_index_to_position(q[1])
        return f"{r} {c}"
    if op == "R":
        return str(d.translate_row_col_to_index(q[1], q[2]))
    if op == "V":
        return " ".join([
            kv("before", enc_str(d.text_before_cursor)), kv("after", enc_str(d.text_after_cursor)),
            kv("lb", enc_str(d.current_line_before_cursor)), kv("la", enc_str(d.current_line_after_cursor)),
            kv("cl", enc_str(d.current_line)), kv("row", d.cursor_position_row), kv("col", d.cursor_position_col),
            kv("cc", enc_str(d.current_char)), kv("cb", enc_str(d.char_before_cursor)),
            kv("first", enc_bool(d.on_first_line)), kv("last", enc_bool(d.on_last_line)),
            kv("atend", enc_bool(d.is_cursor_at_the_end)), kv("ateol", enc_bool(d.is_cursor_at_the_end_of_line)),
            kv("lws", enc_str(d.leading_whitespace_in_current_line)),
            kv("lfc", enc_list(d.lines_from_current, enc_str))])
    if op == "M":
        return " ".join([
            kv("sol0", d.get_start_of_line_position(False)), kv("sol1", d.get_start_of_line_position(True)),
            kv("eol", d.get_end_of_line_position()), kv("lnb", d.last_non_blank_of_current_line_position()),
            kv("sod", d.get_start_of_document_position()), kv("eod", d.get_end_of_document_position())])
    if op == "COL":
        return str(d.get_column_cursor_position(q[1]))
    if op == "LR":
        return " ".join([kv("left", d.get_cursor_left_position(q[1])), kv("right", d.get_cursor_right_position(q[1]))])
    if op == "UD":
        return " ".join([kv("up", d.get_cursor_up_position(q[1], q[2])), kv("down", d.get_cursor_down_position(q[1], q[2]))])
    if op == "PAR":
        n = q[1]
        return " ".join([
            kv("sop0", d.start_of_paragraph(n, False)), kv("sop1", d.start_of_paragraph(n, True)),
            kv("eop0", d.end_of_paragraph(n, False)), kv("eop1", d.end_of_paragraph(n, True)),
            kv("nml", enc_opt_int(d.find_next_matching_line(blank, n))),
            kv("pml", enc_opt_int(d.find_previous_matching_line(blank, n)))])
    if op == "F":
        sub, n = q[1], q[2]
        out = []
        for icl in (False, True):
            for inc in (False, True):
                for ic in (False, True):
                    out.append(kv(f"find{enc_bool(icl)}{enc_bool(inc)}{enc_bool(ic)}",
                                  enc_opt_int(d.find(sub, in_current_line=icl, include_current_position=inc,
                                                     ignore_case=ic, count=n))))
        for icl in (False, True):
            for ic in (False, True):
                out.append(kv(f"fb{enc_bool(icl)}{enc_bool(ic)}",
                              enc_opt_int(d.find_backwards(sub, in_current_line=icl, ignore_case=ic, count=n))))
        out.append(kv("hm", enc_bool(d.has_match_at_current_position(sub))))
        out.append(kv("fa0", enc_list(d.find_all(sub, ignore_case=False))))
        out.append(kv("fa1", enc_list(d.find_all(sub, ignore_case=True))))
        return " ".join(out)
    if op == "W":
        n = q[1]
        out = []
        for W in (False, True):
            w = enc_bool(W)
            out += [kv(f"nwb{w}", enc_opt_int(d.find_next_word_beginning(count=n, WORD=W))),
                    kv(f"nwe0{w}", enc_opt_int(d.find_next_word_ending(include_current_position=False, count=n, WORD=W))),
                    kv(f"nwe1{w}", enc_opt_int(d.find_next_word_ending(include_current_position=True, count=n, WORD=W))),
                    kv(f"pwb{w}", enc_opt_int(d.find_previous_word_beginning(count=n, WORD=W))),
                    kv(f"pwe{w}", enc_opt_int(d.find_previous_word_ending(count=n, WORD=W))),
                    kv(f"spw{w}", enc_opt_int(d.find_start_of_previous_word(count=n, WORD=W)))]
        return " ".join(out)
    if op == "WS":
        n = q[1]
        out = []
        for W in (False, True):
            w = enc_bool(W)
            out += [kv(f"nwb{w}", enc_opt_int(d.find_next_word_beginning(count=n, WORD=W))),
                    kv(f"nwe0{w}", enc_opt_int(d.find_next_word_ending(include_current_position=False, count=n, WORD=W))),
                    kv(f"nwe1{w}", enc_opt_int(d.find_next_word_ending(include_current_position=True, count=n, WORD=W))),
                    kv(f"pwb{w}", enc_opt_int(d.find_previous_word_beginning(count=n, WORD=W))),
                    kv(f"pwe{w}", enc_opt_int(d.find_previous_word_ending(count=n, WORD=W)))]
        return " ".join(out)
    if op == "WB":
        out = []
        for W in (False, True):
            for lead in (False, True):
                for trail in (False, True):
                    s, e = d.find_boundaries_of_current_word(WORD=W, include_leading_whitespace=lead,
                                                             include_trailing_whitespace=trail)
                    out.append(kv(f"b{enc_bool(W)}{enc_bool(lead)}{enc_bool(trail)}", f"{s},{e}"))
        out += [kv("wuc0", enc_str(d.get_word_under_cursor(WORD=False))),
                kv("wuc1", enc_str(d.get_word_under_cursor(WORD=True))),
                kv("wbc0", enc_str(d.get_word_before_cursor(WORD=False))),
                kv("wbc1", enc_str(d.get_word_before_cursor(WORD=True)))]
        return " ".join(out)
    if op == "BR":
        return enc_opt_int(d.find_enclosing_bracket_right(q[1], q[2], end_pos=q[3]))
    if op == "BL":
        return enc_opt_int(d.find_enclosing_bracket_left(q[1], q[2], start_pos=q[3]))
    if op == "BM":
        return str(d.find_matching_bracket_position(start_pos=q[1], end_pos=q[2]))
    raise ValueError(q)


def make_docs(case):
    """share=True: one Document per cursor created up front, all sharing one `_DocumentCache`
    (plus one more with equal text created first, so the cache is already referenced);
    share=False: a fresh Document per query."""
    text = case["text"]
    if case.get("share", True):
        keep = Document(text, 0)
        docs = {c: Document(text, c) for c in case["curs"]}
        docs[None] = keep
        return lambda c: docs[c]
    return lambda c: Document(text, 0 if c is None else c)


def produce(recipe):
    """a Document PRODUCED by a method of document.py (instead of constructed from its text):
       ["paste", base, cur, data, type, mode, count] | ["after", base, cur, ins] | ["before", base, cur, ins]
       | ["cut", base, cur, origin, type]"""
    from prompt_toolkit.clipboard import ClipboardData
    from prompt_toolkit.selection import PasteMode, SelectionState, SelectionType

    kind = recipe[0]
    if kind == "paste":
        _, base, cur, data, typ, mode, count = recipe
        return Document(base, cur).paste_clipboard_data(ClipboardData(data, SelectionType[typ]),
                                                        paste_mode=PasteMode[mode], count=count)
    if kind == "after":
        return Document(recipe[1], recipe[2]).insert_after(recipe[3])
    if kind == "before":
        return Document(recipe[1], recipe[2]).insert_before(recipe[3])
    if kind == "cut":
        _, base, cur, origin, typ = recipe
        return Document(base, cur, SelectionState(origin, SelectionType[typ])).cut_selection()[0]
    raise ValueError(recipe)


def live_problems(x: Document):
    """the coordinate part of the property on one live Document (whatever filled its shared cache)"""
    t = x.text
    lines = t.split("\n")
    if list(x.lines) != lines:
        return f"lines {list(x.lines)!r} != text.split"
    if x.line_count != len(lines):
        return f"line_count {x.line_count}"
    c = x.cursor_position
    if 0 <= c <= len(t):
        row, col = t[:c].count("\n"), c - (t.rfind("\n", 0, c) + 1)
        if (x.cursor_position_row, x.cursor_position_col) != (row, col):
            return f"row/col {(x.cursor_position_row, x.cursor_position_col)} != {(row, col)}"
    for i in {0, len(t) // 2, len(t)}:
        r, cc = x.translate_index_to_position(i)
        if x.translate_row_col_to_index(r, cc) != i or r != t[:i].count("\n"):
            return f"index {i} -> {(r, cc)} -> {x.translate_row_col_to_index(r, cc)}"
    return None


def run_cache_ops(case):
    """cache-level case: every query is asked through a NEW Document object -- constructed from its
    text, or PRODUCED by paste_clipboard_data / insert_after / insert_before / cut_selection
    (case["via"][n] is the recipe of op n) --; documents with equal text stay alive (and therefore
    share one `_DocumentCache`) until a "G" op drops them all, which lets the weak dictionary forget
    the entry.  Returns [(op, answer, shared_ok, problem of some live document or None)]."""
    import prompt_toolkit.document as D

    live = {}
    out = []
    d = docs = None
    via = case.get("via") or []
    for n, op in enumerate(case["kops"]):
        k, t = op[0], op[1]
        d = docs = None          # (do not keep the previous Document alive through a local)
        if k == "G":
            live.pop(t, None)
            out.append((op, None, t not in D._text_to_document_cache, None))
            continue
        recipe = via[n] if n < len(via) else None
        if recipe is not None:
            d = produce(recipe)
            if d.text != t:
                raise AssertionError(f"recipe {recipe} produces {d.text!r}, case says {t!r}")
        else:
            d = Document(t, (n * 7) % (len(t) + 1))
        docs = live.setdefault(t, [])
        shared = all(x._cache is d._cache for x in docs) and D._text_to_document_cache.get(t) is d._cache
        docs.append(d)
        if k == "L":
            a = list(d.lines)
        elif k == "S":
            a = list(d._line_start_indexes)
        elif k == "I":
            a = d.translate_index_to_position(op[2])
        elif k == "R":
            a = d.translate_row_col_to_index(op[2], op[3])
        else:
            raise ValueError(op)
        out.append((op, a, shared, _first_live_problem(live)))
    return out


def _first_live_problem(live):
    # (a function of its own: no reference to a Document may survive in the caller's locals,
    #  otherwise a later "G" cannot release the cache entry)
    for tt, xs in live.items():
        for x in xs:
            pr = live_problems(x)
            if pr:
                return f"live Document({tt!r}, {x.cursor_position}): {pr}"
    return None


def impl_lines(case):
    if case.get("kind") == "cache":
        parts = []
        for op, a, _, _ in run_cache_ops(case):
            k = op[0]
            if k == "G":
                parts.append("G")
            elif k == "L":
                parts.append("L " + enc_list(a, enc_str))
            elif k == "S":
                parts.append("S " + enc_list(a))
            elif k == "I":
                parts.append(f"I {a[0]} {a[1]}")
            else:
                parts.append(f"R {a}")
        return [" | ".join(parts)]
    if case.get("kind") == "scan":
        return [scan_answer(t) for t in case["texts"]]
    get = make_docs(case)
    return [answer(get(c), q) for c, q in expand(case)]


def scan_answer(t: str) -> str:
    """what the compiled regexes of prompt_toolkit.document report on `t` (driver format of "SC")"""
    import prompt_toolkit.document as D

    def runs(rx):
        return enc_list([f"{m.start(1)}:{m.end(1)}" for m in rx.finditer(t)])

    def end1(rx):
        m = rx.search(t)
        return "N" if m is None else str(m.end(1))

    out = []
    for W, rx, cur, curws in (
            (False, D._FIND_WORD_RE, D._FIND_CURRENT_WORD_RE, D._FIND_CURRENT_WORD_INCLUDE_TRAILING_WHITESPACE_RE),
            (True, D._FIND_BIG_WORD_RE, D._FIND_CURRENT_BIG_WORD_RE,
             D._FIND_CURRENT_BIG_WORD_INCLUDE_TRAILING_WHITESPACE_RE)):
        w = enc_bool(W)
        out += [kv(f"runs{w}", runs(rx)), kv(f"cw{w}", end1(cur)), kv(f"cww{w}", end1(curws))]
    return " ".join(out)


# ------------------------------------------------------------------ oracle
_W = re.compile(r"[a-zA-Z0-9_]")
_S = re.compile(r"\s")


def wcls(c: str, WORD: bool) -> int:
    """class of a character for word (0 blank, 1 word, 2 other) / WORD (0 blank, 1 non-blank) motions"""
    if WORD:
        return 0 if _S.match(c) else 1
    if _W.match(c):
        return 1
    return 0 if _S.match(c) else 2


def is_word_start(text, p, WORD):
    return 0 <= p < len(text) and wcls(text[p], WORD) != 0 and (p == 0 or wcls(text[p - 1], WORD) != wcls(text[p], WORD))


def is_word_end(text, p, WORD):
    """p is an exclusive end of a word"""
    return 1 <= p <= len(text) and wcls(text[p - 1], WORD) != 0 and (p == len(text) or wcls(text[p], WORD) != wcls(text[p - 1], WORD))


def same(a: str, b: str, ic: bool) -> bool:
    return a.lower() == b.lower() if ic else a == b


def occurrences_fwd(text, sub, lo, hi, ic):
    """start positions of the leftmost non-overlapping occurrences of `sub` that lie inside [lo, hi]
    (an empty needle occurs at every position lo..hi)"""
    out, p, L = [], lo, len(sub)
    while p + L <= hi:
        if same(text[p:p + L], sub, ic):
            out.append(p)
            p += max(L, 1)
        else:
            p += 1
    return out


def occurrences_bwd(text, sub, lo, hi, ic):
    """the same, scanning from `hi` towards `lo` (rightmost first, non-overlapping)"""
    out, L = [], len(sub)
    p = hi - L
    while p >= lo:
        if same(text[p:p + L], sub, ic):
            out.append(p)
            p -= max(L, 1)
        else:
            p -= 1
    return out


def run_len(s: str, WORD: bool) -> int:
    """length of the word / WORD that starts at s[0] (0 when s is empty or starts with a blank)"""
    if not s or wcls(s[0], WORD) == 0:
        return 0
    k = 1
    while k < len(s) and wcls(s[k], WORD) == wcls(s[0], WORD):
        k += 1
    return k


def blank_run(s: str) -> int:
    k = 0
    while k < len(s) and wcls(s[k], True) == 0:
        k += 1
    return k


def oracle_text(text, d: Document, q, bad):
    lines = text.split("\n")
    op = q[0]
    if op == "T":
        if list(d.lines) != lines or d.line_count != text.count("\n") + 1:
            bad("Document.lines", "split", "lines / line_count disagree with split('\\n')")
        if "\n".join(d.lines) != text:
            bad("Document.lines", "join", "lines do not join back to the text")
        starts = [sum(len(l) + 1 for l in lines[:k]) for k in range(len(lines))]
        if list(d._line_start_indexes) != starts:
            bad("Document._line_start_indexes", "starts", "line start indexes are not the cumulative line lengths")
        ne = d.empty_line_count_at_the_end()
        if not (0 <= ne <= len(lines) and all(blank(l) for l in lines[len(lines) - ne:])
                and (ne == len(lines) or not blank(lines[len(lines) - ne - 1]))):
            bad("Document.empty_line_count_at_the_end", "suffix",
                f"{ne} is not the length of the longest all-blank suffix of the lines")
        # both round trips, for every index and every valid (row, col)
        for i in range(len(text) + 1):
            r, c = d.translate_index_to_position(i)
            if r != text[:i].count("\n") or c != i - (text.rfind("\n", 0, i) + 1):
                bad("Document.translate_index_to_position", "split", f"index {i} -> {(r, c)}")
            elif d.translate_row_col_to_index(r, c) != i:
                bad("Document.translate_row_col_to_index", "roundtrip", f"index {i} -> {(r, c)} -> other index")
        for r, l in enumerate(lines):
            for c in range(len(l) + 1):
                i = d.translate_row_col_to_index(r, c)
                if not (0 <= i <= len(text)) or d.translate_index_to_position(i) != (r, c):
                    bad("Document.translate_row_col_to_index", "roundtrip", f"(row,col) {(r, c)} -> {i} -> other position")
    elif op == "R":
        r, c = q[1], q[2]
        i = d.translate_row_col_to_index(r, c)
        if not (0 <= i <= len(text)):
            bad("Document.translate_row_col_to_index", "out of range", f"{(r, c)} -> {i}")
        elif r >= 0:
            rr = min(r, len(lines) - 1)
            cc = max(0, min(c, len(lines[rr])))
            if d.translate_index_to_position(i) != (rr, cc):
                bad("Document.translate_row_col_to_index", "clamp", f"{(r, c)} -> {i}, expected position {(rr, cc)}")
    elif op == "I":
        i = q[1]
        if i <= len(text):
            r, c = d.translate_index_to_position(i)
            if not (0 <= r < len(lines) and 0 <= c <= len(lines[r])):
                bad("Document.translate_index_to_position", "out of range", f"{i} -> {(r, c)}")


def oracle_cur(text, cur, d: Document, q, bad):
    n = len(text)
    lines = text.split("\n")
    row = text[:cur].count("\n")
    ls = text.rfind("\n", 0, cur) + 1            # start of the current line
    le = text.find("\n", cur)
    le = n if le < 0 else le                      # end of the current line (exclusive)
    col = cur - ls
    line = text[ls:le]
    op = q[0]

    def inb(site, m, what=""):
        if m is None:
            return False
        if not (0 <= cur + m <= n):
            bad(site, "out of bounds", f"{what} offset {m} leaves 0..{n}")
            return False
        return True

    def on_line(site, m, what=""):
        if m is None:
            return False
        if not inb(site, m, what):
            return False
        if not (ls <= cur + m <= le):
            bad(site, "leaves the line", f"{what} offset {m} leaves line [{ls},{le}]")
            return False
        return True

    if op == "V":
        if d.text_before_cursor + d.text_after_cursor != text or len(d.text_before_cursor) != cur:
            bad("Document.text_before_cursor", "concat", "before + after != text")
        if d.cursor_position_row != row or d.cursor_position_col != col:
            bad("Document.cursor_position_row", "row/col", f"row/col {(d.cursor_position_row, d.cursor_position_col)} != {(row, col)}")
        if d.current_line != line or d.current_line != lines[row]:
            bad("Document.current_line", "lines[row]", "current_line != lines[row]")
        if d.current_line_before_cursor != line[:col] or d.current_line_after_cursor != line[col:]:
            bad("Document.current_line_before_cursor", "split at col", "line before/after cursor")
        if d.current_char != text[cur:cur + 1]:
            bad("Document.current_char", "char", "current_char != text[cur:cur+1]")
        if d.char_before_cursor != (text[cur - 1:cur] if cur > 0 else ""):
            bad("Document.char_before_cursor", "cursor 0 wraps to last char" if cur == 0 else "char",
                f"char_before_cursor == {d.char_before_cursor!r}")
        if d.on_first_line != (row == 0) or d.on_last_line != (row == len(lines) - 1):
            bad("Document.on_first_line", "row", "on_first_line / on_last_line")
        if d.is_cursor_at_the_end != (cur == n) or d.is_cursor_at_the_end_of_line != (cur == le):
            bad("Document.is_cursor_at_the_end", "end", "is_cursor_at_the_end(_of_line)")
        if list(d.lines_from_current) != lines[row:]:
            bad("Document.lines_from_current", "lines[row:]", "lines_from_current")
        lw = d.leading_whitespace_in_current_line
        if not (line.startswith(lw) and (lw == "" or lw.isspace()) and not line[len(lw):len(lw) + 1].isspace()):
            bad("Document.leading_whitespace_in_current_line", "prefix", "leading whitespace")
    elif op == "M":
        m = d.get_start_of_line_position(False)
        if on_line("Document.get_start_of_line_position", m) and cur + m != ls:
            bad("Document.get_start_of_line_position", "target", "not the line start")
        m = d.get_start_of_line_position(True)
        if on_line("Document.get_start_of_line_position", m, "after_whitespace"):
            k = cur + m - ls
            if not (line[:k] == "" or line[:k].isspace()) or line[k:k + 1].isspace():
                bad("Document.get_start_of_line_position", "after whitespace", "not the first non-blank column")
        m = d.get_end_of_line_position()
        if on_line("Document.get_end_of_line_position", m) and cur + m != le:
            bad("Document.get_end_of_line_position", "target", "not the line end")
        m = d.last_non_blank_of_current_line_position()
        if on_line("Document.last_non_blank_of_current_line_position", m):
            k = cur + m - ls
            if blank(line):
                if k != 0:
                    bad("Document.last_non_blank_of_current_line_position", "blank line", "blank line: must stay at column 0")
            elif line[k:k + 1].isspace() or line[k:k + 1] == "" or not blank(line[k + 1:]):
                bad("Document.last_non_blank_of_current_line_position", "target", "not the last non-blank character")
        if cur + d.get_start_of_document_position() != 0 or cur + d.get_end_of_document_position() != n:
            bad("Document.get_start_of_document_position", "target", "start/end of document")
    elif op == "COL":
        m = d.get_column_cursor_position(q[1])
        if on_line("Document.get_column_cursor_position", m) and cur + m - ls != max(0, min(q[1], len(line))):
            bad("Document.get_column_cursor_position", "target", "column not clamp(column, 0, len(line))")
    elif op == "LR":
        k = q[1]
        for name, m, sign in (("left", d.get_cursor_left_position(k), -1), ("right", d.get_cursor_right_position(k), 1)):
            site = f"Document.get_cursor_{name}_position"
            if on_line(site, m):
                want = sign * k
                exp = max(ls - cur, min(le - cur, want))
                if m != exp:
                    bad(site, "target", f"count {k}: offset {m}, expected {exp}")
    elif op == "UD":
        k, pref = q[1], q[2]
        for name, m, tr in (("up", d.get_cursor_up_position(k, pref), max(0, row - k)),
                            ("down", d.get_cursor_down_position(k, pref), min(len(lines) - 1, row + k))):
            site = f"Document.get_cursor_{name}_position"
            if inb(site, m):
                p = cur + m
                pr = text[:p].count("\n")
                pc = p - (text.rfind("\n", 0, p) + 1)
                want_col = max(0, min(col if pref is None else pref, len(lines[tr])))
                if (pr, pc) != (tr, want_col):
                    bad(site, "target", f"count {k} pref {pref}: lands on {(pr, pc)}, expected {(tr, want_col)}")
    elif op == "PAR":
        k = q[1]
        for before in (False, True):
            m = d.start_of_paragraph(k, before)
            if inb("Document.start_of_paragraph", m) and m > 0:
                bad("Document.start_of_paragraph", "direction", "moves forward")
            m = d.end_of_paragraph(k, before)
            if inb("Document.end_of_paragraph", m) and m < 0:
                bad("Document.end_of_paragraph", "direction", "moves backward")
        r = d.find_next_matching_line(blank, k)
        if r is not None and not (1 <= r and row + r < len(lines) and blank(lines[row + r])):
            bad("Document.find_next_matching_line", "target", "reported line does not match")
        rp = d.find_previous_matching_line(blank, k)
        if rp is not None and not (rp <= -1 and row + rp >= 0 and blank(lines[row + rp])):
            bad("Document.find_previous_matching_line", "target", "reported line does not match")
        if k >= 1:
            # exactly which blank line: the min(count, total)-th one counted away from the cursor row
            starts = [sum(len(l) + 1 for l in lines[:j]) for j in range(len(lines))]
            above = [j for j in range(row - 1, -1, -1) if blank(lines[j])]
            below = [j for j in range(row + 1, len(lines)) if blank(lines[j])]
            ea = above[min(k, len(above)) - 1] - row if above else None
            eb = below[min(k, len(below)) - 1] - row if below else None
            if rp != ea:
                bad("Document.find_previous_matching_line", "not the count-th matching line", f"count {k}: {rp}, expected {ea}")
            if r != eb:
                bad("Document.find_next_matching_line", "not the count-th matching line", f"count {k}: {r}, expected {eb}")
            for flag in (False, True):
                if ea is None:
                    exp = -cur
                else:
                    tr = row + ea
                    exp = min(0, starts[tr] + min(col, len(lines[tr])) + (0 if flag else 1) - cur)
                m = d.start_of_paragraph(k, flag)
                if m != exp:
                    bad("Document.start_of_paragraph", "target", f"count {k} before={flag}: offset {m}, expected {exp}")
                if eb is None:
                    exp = n - cur
                else:
                    tr = row + eb
                    exp = max(0, starts[tr] + min(col, len(lines[tr])) - (0 if flag else 1) - cur)
                m = d.end_of_paragraph(k, flag)
                if m != exp:
                    bad("Document.end_of_paragraph", "target", f"count {k} after={flag}: offset {m}, expected {exp}")
    elif op == "F":
        sub, k = q[1], q[2]
        found = {(icl, inc, ic): d.find(sub, in_current_line=icl, include_current_position=inc, ignore_case=ic, count=k)
                 for icl in (False, True) for inc in (False, True) for ic in (False, True)}
        foundb = {(icl, ic): d.find_backwards(sub, in_current_line=icl, ignore_case=ic, count=k)
                  for icl in (False, True) for ic in (False, True)}
        for (icl, inc, ic), m in found.items():
            site = "Document.find"
            if m is None:
                continue
            ok = on_line(site, m, "in_current_line") if icl else inb(site, m)
            if not ok:
                continue
            p = cur + m
            if m < (0 if inc else 1):
                bad(site, "direction", f"offset {m} not after the start point")
            elif not same(text[p:p + len(sub)], sub, ic) or (icl and p + len(sub) > le):
                bad(site, "no match at target", f"{sub!r} does not occur at {p}")
            elif k == 1:
                lo = cur + (0 if inc else 1)
                for x in range(lo, p):
                    if same(text[x:x + len(sub)], sub, ic) and x + len(sub) <= (le if icl else n):
                        bad(site, "not nearest", f"{sub!r} already occurs at {x} < {p}")
                        break
        for (icl, ic), m in foundb.items():
            site = "Document.find_backwards"
            if m is None:
                continue
            ok = on_line(site, m, "in_current_line") if icl else inb(site, m)
            if not ok:
                continue
            p = cur + m
            if p + len(sub) > cur:
                bad(site, "direction", f"match at {p} is not entirely before the cursor")
            elif not same(text[p:p + len(sub)], sub, ic):
                bad(site, "no match at target", f"{sub!r} does not occur at {p}")
            elif k == 1:
                for x in range(p + 1, cur - len(sub) + 1):
                    if same(text[x:x + len(sub)], sub, ic) and (not icl or x >= ls):
                        bad(site, "not nearest", f"{sub!r} also occurs at {x} > {p}")
                        break
        if k >= 1:
            # exactly the count-th non-overlapping occurrence (None iff there are fewer)
            for (icl, inc, ic), m in found.items():
                hi = le if icl else n
                occ = [] if (not inc and cur >= hi) else occurrences_fwd(text, sub, cur + (0 if inc else 1), hi, ic)
                exp = occ[k - 1] - cur if len(occ) >= k else None
                if m != exp:
                    bad("Document.find", "not the count-th match",
                        f"in_current_line={icl} include_current_position={inc} ignore_case={ic} count {k}: {m}, expected {exp}")
            for (icl, ic), m in foundb.items():
                occ = occurrences_bwd(text, sub, ls if icl else 0, cur, ic)
                exp = occ[k - 1] - cur if len(occ) >= k else None
                if m != exp:
                    bad("Document.find_backwards", "not the count-th match",
                        f"in_current_line={icl} ignore_case={ic} count {k}: {m}, expected {exp}")
        if d.has_match_at_current_position(sub) != (text[cur:cur + len(sub)] == sub):
            bad("Document.has_match_at_current_position", "match", "has_match_at_current_position")
        for ic in (False, True):
            fa = d.find_all(sub, ignore_case=ic)
            for p in fa:
                if not (0 <= p <= n and same(text[p:p + len(sub)], sub, ic)):
                    bad("Document.find_all", "no match at target", f"{sub!r} does not occur at {p}")
                    break
            else:
                if list(fa) != occurrences_fwd(text, sub, 0, n, ic):
                    bad("Document.find_all", "not all non-overlapping occurrences", f"{sub!r}: {list(fa)}")
    elif op == "W":
        k = q[1]
        swap = {"find_next_word_beginning": "find_previous_word_beginning",
                "find_previous_word_beginning": "find_next_word_beginning",
                "find_next_word_ending": "find_previous_word_ending",
                "find_previous_word_ending": "find_next_word_ending"}
        # (kind of target, largest / smallest offset allowed for count >= 1)
        spec = {"find_next_word_beginning": ("start", 1, None),
                "find_next_word_ending": ("end", 1, None),
                "find_previous_word_beginning": ("start", None, -1),
                "find_previous_word_ending": ("end", None, 0),
                "find_start_of_previous_word": ("start", None, -1)}
        for W in (False, True):
            results = [
                ("find_next_word_beginning", d.find_next_word_beginning(count=k, WORD=W)),
                ("find_next_word_ending", d.find_next_word_ending(include_current_position=False, count=k, WORD=W)),
                ("find_next_word_ending", d.find_next_word_ending(include_current_position=True, count=k, WORD=W)),
                ("find_previous_word_beginning", d.find_previous_word_beginning(count=k, WORD=W)),
                ("find_previous_word_ending", d.find_previous_word_ending(count=k, WORD=W)),
                ("find_start_of_previous_word", d.find_start_of_previous_word(count=k, WORD=W)),
            ]
            for name, m in results:
                site = "Document." + name
                if m is None or k == 0 or not inb(site, m):
                    continue            # count 0 is outside the property (counts >= 1)
                eff = swap[name] if (k < 0 and name in swap) else name   # negative counts delegate
                kind, lo, hi = spec[eff]
                p = cur + m
                good = is_word_start(text, p, W) if kind == "start" else is_word_end(text, p, W)
                if eff == "find_previous_word_ending" and cur == n and (not good or m > 0):
                    bad("Document.find_previous_word_ending", "cursor at end of text",
                        f"count {k} WORD={W}: offset {m} -> index {p} is not a word end before the cursor")
                elif not good:
                    bad(site, f"not a word {kind}", f"count {k} WORD={W}: offset {m} -> index {p}")
                elif (lo is not None and m < lo) or (hi is not None and m > hi):
                    bad(site, "direction", f"count {k} WORD={W}: offset {m}")
            if k != 0:
                # exactly the |count|-th word start / word end counted away from the cursor
                starts = [x for x in range(n) if is_word_start(text, x, W)]
                ends = [x for x in range(1, n + 1) if is_word_end(text, x, W)]
                kk = abs(k)

                def pick(cands):
                    return cands[kk - 1] - cur if len(cands) >= kk else None

                exp_nwb = pick([x for x in starts if x > cur])
                exp_pwb = pick([x for x in reversed(starts) if x < cur])
                exp_nwe = {inc: pick([x for x in ends if x >= cur + (1 if inc else 2)]) for inc in (False, True)}
                exp_pwe = pick([x for x in reversed(ends) if x <= cur]) if cur < n else "D1"
                if k > 0:
                    exp = [exp_nwb, exp_nwe[False], exp_nwe[True], exp_pwb, exp_pwe, exp_pwb]
                else:   # negative counts delegate (find_next_word_ending(-n) ignores include_current_position)
                    exp = [exp_pwb, exp_pwe, exp_pwe, exp_nwb, exp_nwe[False], None]
                for idx, ((name, m), e) in enumerate(zip(results, exp)):
                    if e == "D1" or (k < 0 and idx == 5):
                        continue     # known finding region / find_start_of_previous_word has no negative counts
                    if m != e:
                        bad("Document." + name, "not the count-th word boundary",
                            f"count {k} WORD={W}: offset {m}, expected {e}")
    elif op == "WB":
        for W in (False, True):
            for lead in (False, True):
                for trail in (False, True):
                    s, e = d.find_boundaries_of_current_word(WORD=W, include_leading_whitespace=lead,
                                                             include_trailing_whitespace=trail)
                    site = "Document.find_boundaries_of_current_word"
                    if not (on_line(site, s, "start") and on_line(site, e, "end")):
                        continue
                    if s > 0 or e < 0:
                        bad(site, "direction", f"boundaries {(s, e)}")
                    elif not lead and not trail:
                        w = text[cur + s:cur + e]
                        if w and (len({wcls(c, W) for c in w}) != 1 or wcls(w[0], W) == 0):
                            bad(site, "not one word", f"{w!r} is not a single word")
                        elif e > 0 and not is_word_end(text, cur + e, W):
                            bad(site, "not a word end", f"end {e}")
                        elif s < 0 and not is_word_start(text, cur + s, W):
                            bad(site, "not a word start", f"start {s}")
                    # all flag combinations: the word part around the cursor, extended by exactly the
                    # adjacent run of blanks of the line on a side whose flag is set
                    aft, bef = text[cur:le], text[ls:cur][::-1]
                    ea, eb = run_len(aft, W), run_len(bef, W)
                    if not W and ea and eb and (wcls(text[cur - 1], False) == 1) != (wcls(text[cur], False) == 1):
                        eb = 0
                    if trail and ea:
                        ea += blank_run(aft[ea:])
                    if lead and eb:
                        eb += blank_run(bef[eb:])
                    if (s, e) != (-eb, ea):
                        bad(site, "whitespace flags" if (lead or trail) else "not the word under the cursor",
                            f"WORD={W} lead={lead} trail={trail}: {(s, e)}, expected {(-eb, ea)}")
            w = d.get_word_under_cursor(WORD=W)
            s, e = d.find_boundaries_of_current_word(WORD=W)
            if w != text[cur + s:cur + e]:
                bad("Document.get_word_under_cursor", "slice", "word under cursor != text[start:end]")
            w = d.get_word_before_cursor(WORD=W)
            if not text[:cur].endswith(w) or any(wcls(c, True) == 0 for c in w):
                bad("Document.get_word_before_cursor", "suffix", f"{w!r} is not a blank-free suffix of the text before the cursor")
            elif (w == "") != (cur == 0 or text[cur - 1].isspace()):
                bad("Document.get_word_before_cursor", "empty", f"{w!r}: must be empty exactly after a blank / at the start")
            elif w and (len({wcls(c, W) for c in w}) != 1
                        or (cur - len(w) > 0 and wcls(text[cur - len(w) - 1], W) == wcls(w[0], W))):
                bad("Document.get_word_before_cursor", "not the word before the cursor",
                    f"{w!r} is not the maximal single word that ends at the cursor")
    elif op in ("BR", "BL"):
        l, r = q[1], q[2]
        if op == "BR":
            m = d.find_enclosing_bracket_right(l, r, end_pos=q[3])
            site, ch = "Document.find_enclosing_bracket_right", r
        else:
            m = d.find_enclosing_bracket_left(l, r, start_pos=q[3])
            site, ch = "Document.find_enclosing_bracket_left", l
        if m is not None and inb(site, m):
            p = cur + m
            if p >= n or text[p] != ch or (op == "BR" and m < 0) or (op == "BL" and m > 0):
                bad(site, "no bracket at target", f"offset {m}")
            elif l != r and m != 0:
                inner = text[cur + 1:p] if op == "BR" else text[p + 1:cur]
                if inner.count(l) != inner.count(r):
                    bad(site, "unbalanced", f"interior {inner!r} is not balanced")
        if l != r and (m is None or m != 0) and 0 <= cur <= n:
            # the first bracket that balances is reported; None only when none in range balances
            if op == "BR":
                lim = n if q[3] is None else min(n, q[3])
                cand = range(cur + 1, lim if m is None else min(lim, cur + m))
                hit = [x for x in cand if text[x] == r and text[cur + 1:x].count(l) == text[cur + 1:x].count(r)]
                if m is None and text[cur:cur + 1] == r:
                    hit = [cur]
            else:
                lim = 0 if q[3] is None else max(0, q[3])
                cand = range(lim if m is None else max(lim, cur + m + 1), cur)
                hit = [x for x in cand if text[x] == l and text[x + 1:cur].count(l) == text[x + 1:cur].count(r)]
                if m is None and text[cur:cur + 1] == l:
                    hit = [cur]
            if hit:
                bad(site, "missed balancing bracket" if m is None else "not the first balancing bracket",
                    f"offset {m}, but the bracket at {hit[0]} balances")
    elif op == "BM":
        m = d.find_matching_bracket_position(start_pos=q[1], end_pos=q[2])
        site = "Document.find_matching_bracket_position"
        if inb(site, m) and m != 0:
            a, b = text[cur], text[cur + m] if cur + m < n else ""
            pair = (a + b) if m > 0 else (b + a)
            if pair not in ("()", "[]", "{}", "<>"):
                bad(site, "no partner at target", f"offset {m}: {pair!r}")
            else:
                inner = text[cur + 1:cur + m] if m > 0 else text[cur + m + 1:cur]
                if inner.count(pair[0]) != inner.count(pair[1]):
                    bad(site, "unbalanced", f"interior {inner!r} is not balanced")
        ch = text[cur:cur + 1]
        for a, b in ("()", "[]", "{}", "<>"):
            if ch == a and m >= 0:
                lim = n if q[2] is None else min(n, q[2])
                cand = range(cur + 1, lim if m == 0 else min(lim, cur + m))
                hit = [x for x in cand if text[x] == b and text[cur + 1:x].count(a) == text[cur + 1:x].count(b)]
            elif ch == b and m <= 0:
                lim = 0 if q[1] is None else max(0, q[1])
                cand = range(lim if m == 0 else max(lim, cur + m + 1), cur)
                hit = [x for x in cand if text[x] == a and text[x + 1:cur].count(a) == text[x + 1:cur].count(b)]
            else:
                continue
            if hit:
                bad(site, "missed partner" if m == 0 else "not the first balancing partner",
                    f"offset {m}, but the bracket at {hit[0]} balances")


def oracle_cache(case):
    """documents with equal text share one line table, and every answer read through the shared
    (possibly pre-filled, possibly just re-created) table equals the direct computation"""
    v = []
    seen = set()

    def bad(site, cond, msg):
        sig = f"{site} | {cond}"
        if sig not in seen:
            seen.add(sig)
            v.append({"signature": sig, "msg": msg})

    for op, a, shared, prob in run_cache_ops(case):
        k, t = op[0], op[1]
        lines = t.split("\n")
        if prob:
            bad("Document._cache", "live document disagrees with its text",
                f"after op {op} (via {(case.get('via') or [None])[:12]}): {prob}")
        starts = [sum(len(l) + 1 for l in lines[:j]) for j in range(len(lines))]
        if not shared:
            bad("Document._cache", "not shared / not released",
                f"op {op}: documents with equal text do not share the cache entry (or G did not release it)")
        if k == "L" and a != lines:
            bad("Document.lines", "cached split", f"op {op}: {a!r}")
        elif k == "S" and a != starts:
            bad("Document._line_start_indexes", "cached starts", f"op {op}: {a!r}")
        elif k == "I" and op[2] <= len(t):
            i = op[2]
            if tuple(a) != (t[:i].count("\n"), i - (t.rfind("\n", 0, i) + 1)):
                bad("Document.translate_index_to_position", "cached split", f"op {op}: {a!r}")
        elif k == "R" and 0 <= op[2] < len(lines):
            exp = starts[op[2]] + max(0, min(op[3], len(lines[op[2]])))
            if a != exp:
                bad("Document.translate_row_col_to_index", "cached clamp", f"op {op}: {a!r} != {exp}")
    return v


SCAN_QS = [["W", 1], ["W", 2], ["WB"]]


def oracle(case):
    if case.get("kind") == "cache":
        return oracle_cache(case)
    if case.get("kind") == "scan":
        # the property on the real Document for every text of the batch: word motions and word
        # boundaries at every cursor (character classes decided by `re`, not by the model)
        v, seen = [], set()
        for t in case["texts"]:
            curs = list(range(len(t) + 1)) if len(t) <= 6 else sorted({0, 1, len(t) // 2, len(t) - 1, len(t)})
            for sub in oracle({"text": t, "curs": curs, "share": True, "qs": SCAN_QS}):
                if sub["signature"] not in seen:
                    seen.add(sub["signature"])
                    v.append(sub)
        return v
    v = []
    text = case["text"]
    get = make_docs(case)
    seen = set()
    for c, q in expand(case):
        def bad(site, cond, msg, _c=c, _q=q):
            sig = f"{site} | {cond}"
            if sig not in seen:
                seen.add(sig)
                v.append({"signature": sig, "msg": f"{msg}: text={text!r} cur={_c} query={_q}"})
        if c is None:
            oracle_text(text, get(None), q, bad)
        elif 0 <= c <= len(text):
            oracle_cur(text, c, get(c), q, bad)
    return v


# ------------------------------------------------------------------ generators
NEEDLES_X = ["", "a", ".a", "\n", "aa", "A", " "]


def queries_for(text, needles, counts_w, pairs=(("(", ")"),)):
    n = len(text)
    lines = text.split("\n")
    maxl = max(len(l) for l in lines)
    qs = [["T"]]
    for i in range(n + 2):
        qs.append(["I", i])
    for r in range(-1, len(lines) + 1):
        for c in range(-1, maxl + 2):
            qs.append(["R", r, c])
    qs += [["V"], ["M"], ["WB"]]
    for k in (-1, 0, 1, 2, maxl, maxl + 1):
        qs.append(["COL", k])
    for k in counts_w:
        qs.append(["LR", k])
        qs.append(["W", k])
        if k >= 1:
            qs.append(["WS", k])
    for k in (1, 2, 3):
        for pref in (None, 0, 1, maxl + 1):
            qs.append(["UD", k, pref])
    for k in (0, 1, 2, 3):
        qs.append(["PAR", k])
    for sub in needles:
        for k in (1, 2, 3):
            qs.append(["F", sub, k])
    qs.append(["F", "a", 0])
    qs.append(["BM", None, None])
    for l, r in pairs:
        for lim in [None] + list(range(-1, n + 2)):
            qs.append(["BR", l, r, lim])
            qs.append(["BL", l, r, lim])
    for s in (0, 1, n):
        for e in (0, n - 1, n + 1):
            qs.append(["BM", s, e])
    return qs


def rand_text(rng, n):
    # a few "shapes": prose-like, bracket-heavy, blank-heavy, fully random
    shape = rng.randrange(4)
    if shape == 0:
        pool = list("abcXY_09") + [" ", " ", "\n", ".", ","]
    elif shape == 1:
        pool = list("()[]{}<>") + list("ab") + [" ", "\n", "'", '"']
    elif shape == 2:
        pool = [" ", "\t", "\n", "\n", "a", ".", "　", "\xa0", "\x0b", "\x85", " ", "\x1c"]
    else:
        pool = RAND_ALPHA
    return "".join(rng.choice(pool) for _ in range(n))


def rand_queries(rng, text, cur_hint):
    n = len(text)
    lines = text.split("\n")
    maxl = max(len(l) for l in lines)
    qs = [["T"], ["V"], ["M"], ["WB"], ["BM", None, None]]
    for _ in range(3):
        qs.append(["I", rng.randrange(0, n + 3)])
        qs.append(["R", rng.randrange(-2, len(lines) + 2), rng.randrange(-2, maxl + 3)])
    qs.append(["COL", rng.randrange(-2, maxl + 3)])
    for _ in range(2):
        k = rng.choice([1, 1, 2, 3, 5, -1, -2, 0, n, n + 1])
        qs.append(["LR", k])
        qs.append(["W", rng.choice([1, 1, 2, 3, 4, -1, -2, 0])])
        qs.append(["WS", rng.choice([1, 1, 2, 3, 4, 7])])
    for _ in range(2):
        qs.append(["UD", rng.choice([1, 1, 2, 3, len(lines), len(lines) + 1]),
                   rng.choice([None, None, 0, 1, maxl, maxl + 3, -1])])
    qs.append(["PAR", rng.choice([0, 1, 1, 2, 3, -1])])
    for _ in range(3):
        if n and rng.random() < 0.8:
            a = rng.randrange(0, n)
            sub = text[a:a + rng.choice([1, 1, 2, 3])]
            if rng.random() < 0.2:
                sub = sub.swapcase()
        else:
            sub = rng.choice(["", "zz", "a", "\n\n", " "])
        # ignore_case is compared under ASCII folding: keep needles / texts free of non-ASCII cased letters
        qs.append(["F", sub, rng.choice([1, 1, 2, 3, 0])])
    for l, r in rng.sample([("(", ")"), ("[", "]"), ("{", "}"), ("<", ">"), ("'", "'"), ('"', '"'), ("a", "b")], 3):
        lim = rng.choice([None, None, rng.randrange(-2, n + 3)])
        qs.append(["BR", l, r, lim])
        qs.append(["BL", l, r, lim])
    qs.append(["BM", rng.choice([None, rng.randrange(-1, n + 2)]), rng.choice([None, rng.randrange(-1, n + 2)])])
    rng.shuffle(qs)
    return qs


ALPHA2 = ["B", "_", "\t", "[", "]", "世"]
ALPHA3 = ["a", " ", "\n", "("]
NEEDLES_2 = ["", "B", "_B", "\t", "b", "世", "]"]


def exhaustive(alpha, lens, needles, pairs, counts_w=(-2, -1, 0, 1, 2, 3)):
    for n in lens:
        for tup in itertools.product(alpha, repeat=n):
            text = "".join(tup)
            yield {"text": text, "curs": list(range(n + 1)), "share": (n + text.count(alpha[0])) % 2 == 0,
                   "qs": queries_for(text, needles, counts_w, pairs)}


# alphabet of the scanner differential: ASCII word characters, non-ASCII letters (not in
# [a-zA-Z0-9_]: class "other"), a wide character, a combining mark, a non-ASCII digit, punctuation,
# an ASCII blank and two Unicode blanks (one of them a line separator that "\n".split does not cut)
SCAN_ALPHA = ["a", "Z", "7", "_", "é", "ß", "世", "́", "٣", ".", " ", "\u2028", "\xa0"]
SCAN_BATCH = 40


def scan_cases(tier, rng):
    texts = []
    small = ["a", "é", "_", "世", "́", "٣", ".", " ", "\u2028"]
    for n in range(0, 4 if tier == "quick" else 5):
        for tup in itertools.product(small, repeat=n):
            texts.append("".join(tup))
    for _ in range(2500 if tier == "quick" else 40000):
        n = rng.choice([4, 5, 6, 8, 12, 20])
        texts.append("".join(rng.choice(SCAN_ALPHA) for _ in range(n)))
    for i in range(0, len(texts), SCAN_BATCH):
        yield {"kind": "scan", "text": "", "curs": [], "qs": [], "texts": texts[i:i + SCAN_BATCH]}


def cases(tier, rng):
    if tier == "quick":
        yield from exhaustive(ALPHA, range(0, 5), NEEDLES_X, (("(", ")"),))
        yield from exhaustive(ALPHA2, range(1, 4), NEEDLES_2, (("[", "]"),))
    else:
        yield from exhaustive(ALPHA, range(0, 6), NEEDLES_X, (("(", ")"),))
        yield from exhaustive(ALPHA2, range(1, 5), NEEDLES_2, (("[", "]"),))
        yield from exhaustive(ALPHA3, range(6, 7), ["a", "a "], (("(", ")"),), counts_w=(-1, 1, 2))
    nrand = 1500 if tier == "quick" else 20000
    for _ in range(nrand):
        n = rng.choice([0, 1, 2, 3, 5, 8, 13, 21, 34, 60])
        text = rand_text(rng, n)
        lines_b = [i for i, c in enumerate(text) if c == "\n"]
        curs = {0, len(text), rng.randrange(0, len(text) + 1), rng.randrange(0, len(text) + 1)}
        if lines_b:
            b = rng.choice(lines_b)
            curs.add(b)
            curs.add(b + 1)
        yield {"text": text, "curs": sorted(curs), "share": rng.random() < 0.7,
               "qs": rand_queries(rng, text, None)}
    yield from cache_cases(tier, rng)
    yield from scan_cases(tier, rng)


def rand_recipe(rng):
    base = rand_text(rng, rng.choice([0, 1, 3, 6, 12]))
    cur = rng.randrange(0, len(base) + 1)
    kind = rng.choice(["paste", "paste", "paste", "after", "before", "cut"])
    if kind == "paste":
        data = rng.choice(["x", "x\ny", "ab\ncd\n", "\n", "", "p q"]) if rng.random() < 0.6 else rand_text(rng, rng.choice([1, 3, 5]))
        return ["paste", base, cur, data, rng.choice(["CHARACTERS", "LINES", "LINES", "BLOCK"]),
                rng.choice(["EMACS", "VI_AFTER", "VI_BEFORE"]), rng.choice([1, 1, 2, 3])]
    if kind in ("after", "before"):
        return [kind, base, cur, rand_text(rng, rng.choice([0, 1, 3]))]
    return ["cut", base, cur, rng.randrange(0, len(base) + 1), rng.choice(["CHARACTERS", "LINES", "BLOCK"])]


def session_ops(rng, t, nops):
    nl = t.count("\n") + 1
    ops = []
    for _ in range(nops):
        k = rng.choice("LLSSIIRR")
        if k == "I":
            ops.append(["I", t, rng.randrange(0, len(t) + 2)])
        elif k == "R":
            ops.append(["R", t, rng.randrange(-1, nl + 1), rng.randrange(-1, len(t) + 2)])
        else:
            ops.append([k, t])
    return ops


def produced_exhaustive():
    """small scope: every paste (3 data types x 3 modes x counts 1,2 x data with / without newline)
    into small texts at every cursor, insert_after / insert_before, cut of every selection; the
    produced document is queried first (empty cache), then plain documents of the same text"""
    recipes = []
    for base in ["", "a", "a\nb", "ab\n"]:
        for cur in range(len(base) + 1):
            for data in ["x", "x\ny", "\n"]:
                for typ in ("CHARACTERS", "LINES", "BLOCK"):
                    for mode in ("EMACS", "VI_AFTER", "VI_BEFORE"):
                        for count in (1, 2):
                            recipes.append(["paste", base, cur, data, typ, mode, count])
            for ins in ["", "x", "\ny"]:
                recipes.append(["after", base, cur, ins])
                recipes.append(["before", base, cur, ins])
            for origin in range(len(base) + 1):
                for typ in ("CHARACTERS", "LINES", "BLOCK"):
                    recipes.append(["cut", base, cur, origin, typ])
    for r in recipes:
        t = produce(r).text
        n = len(t)
        ops = [["L", t], ["S", t], ["I", t, n], ["R", t, t.count("\n"), 1], ["G", t], ["S", t], ["L", t], ["I", t, n // 2]]
        via = [r, None, None, None, None, None, r, None]
        yield {"kind": "cache", "text": t, "curs": [], "qs": [], "kops": ops, "via": via}


def cache_cases(tier, rng):
    yield from produced_exhaustive()
    n = 400 if tier == "quick" else 6000
    for _ in range(n):
        pool = [(rand_text(rng, rng.choice([0, 1, 3, 6, 12])), None) for _ in range(rng.choice([1, 2, 3]))]
        if rng.random() < 0.6:
            for _ in range(rng.choice([1, 2])):
                r = rand_recipe(rng)
                pool.append((produce(r).text, r))
        ops, via = [], []
        for _ in range(rng.randrange(3, 14)):
            t, r = rng.choice(pool)
            if rng.random() < 0.12:
                ops.append(["G", t])
                via.append(None)
                continue
            ops += session_ops(rng, t, 1)
            # a text that has a recipe is reached through the producing method or by plain construction
            via.append(r if (r is not None and rng.random() < 0.5) else None)
        yield {"kind": "cache", "text": pool[0][0], "curs": [], "qs": [], "kops": ops, "via": via}


def sample_view(case):
    if case.get("kind") == "cache":
        return case
    if case.get("kind") == "scan":
        return dict(case, texts=case["texts"][:4] + [f"... {len(case['texts'])} texts"])
    return dict(case, qs=case["qs"][:6] + [f"... {len(case['qs'])} queries x {len(case['curs'])} cursors"])


def nontrivial(case):
    if case.get("kind") == "cache":
        return len(case["kops"]) > 1
    if case.get("kind") == "scan":
        return any(case["texts"])
    return len(case["text"]) > 0


def distribution(cases):
    d = {"text_len": {}, "queries": {}, "share": {"true": 0, "false": 0}, "lines": 0, "cache_cases": 0,
         "cache_ops": {}, "scan_cases": 0, "scan_texts": 0}
    for c in cases:
        if c.get("kind") == "scan":
            d["scan_cases"] += 1
            d["scan_texts"] += len(c["texts"])
            d["lines"] += len(c["texts"])
            continue
        if c.get("kind") == "cache":
            d["cache_cases"] += 1
            d["lines"] += 1
            for op in c["kops"]:
                d["cache_ops"][op[0]] = d["cache_ops"].get(op[0], 0) + 1
            continue
        n = len(c["text"])
        key = str(n) if n < 6 else ("6-20" if n <= 20 else "21+")
        d["text_len"][key] = d["text_len"].get(key, 0) + 1
        d["share"]["true" if c.get("share", True) else "false"] += 1
        for q in c["qs"]:
            mult = 1 if q[0] in TEXT_OPS else len(c["curs"])
            d["queries"][q[0]] = d["queries"].get(q[0], 0) + mult
            d["lines"] += mult
    return d


if __name__ == "__main__":
    sys.exit(core.main(sys.modules[__name__]))
