#!/venv/bin/python
"""C10 — displayed content cannot inject control sequences.

Correspondence with Ptk.Model.C10* (Char.__init__ on every code point, Vt100_Output.write,
print_formatted_text, Window._copy_body, _output_screen_diff + Vt100_Output) and the property
oracle (end-to-end: real PromptSession / full-screen Application with hostile content rendered
by the real Renderer to a real Vt100_Output on a StringIO; output tokenised)."""
from __future__ import annotations

import ast
import asyncio
import io
import os
import re
import sys

sys.path.insert(0, os.path.dirname(os.path.abspath(__file__)))
import core
from core import enc_str, enc_bool, enc_list

from prompt_toolkit.data_structures import Point, Size
from prompt_toolkit.layout.screen import _CHAR_CACHE, Char, Screen, WritePosition
from prompt_toolkit.output.vt100 import Vt100_Output
from prompt_toolkit.output.color_depth import ColorDepth
from prompt_toolkit.utils import get_cwidth

ID = "C10"
DRIVER = "drv_c10"
PROPS = ["Ptk.Props.C10", "Ptk.Props.C10Copy", "Ptk.Props.C10Diff", "Ptk.Props.C10Tok", "Ptk.Props.C10Stream",
         "Ptk.Props.C10Bytes", "Ptk.Props.C10Wire", "Ptk.Props.C10Grammar", "Ptk.Props.C10Out", "Ptk.Props.C10Final", "Ptk.Props.C10Select"]
ANCHORS = ["src/prompt_toolkit/layout/screen.py", "src/prompt_toolkit/output/vt100.py",
           "src/prompt_toolkit/output/plain_text.py", "src/prompt_toolkit/output/flush_stdout.py",
           "src/prompt_toolkit/renderer.py", "src/prompt_toolkit/layout/containers.py",
           "src/prompt_toolkit/layout/controls.py", "src/prompt_toolkit/shortcuts/prompt.py",
           "src/prompt_toolkit/patch_stdout.py", "src/prompt_toolkit/formatted_text/utils.py",
           "src/prompt_toolkit/utils.py", "src/prompt_toolkit/layout/utils.py",
           "src/prompt_toolkit/output/defaults.py"]
#: functions of /repo whose bodies the Lean model follows line by line AND the correspondence exercises
MODELLED = {
    "src/prompt_toolkit/layout/screen.py": ["Char.__init__", "get_display_width"],
    "src/prompt_toolkit/utils.py": ["_CharSizesCache.__missing__", "get_cwidth"],
    "src/prompt_toolkit/layout/containers.py": ["Window._copy_body", "Window._copy_body.copy",
                                                "Window._copy_body.copy_line"],
    "src/prompt_toolkit/layout/utils.py": ["explode_text_fragments"],
    "src/prompt_toolkit/formatted_text/utils.py": ["fragment_list_to_text", "fragment_list_width"],
    "src/prompt_toolkit/renderer.py": ["_output_screen_diff", "_output_screen_diff.reset_attributes",
                                       "_output_screen_diff.move_cursor", "_output_screen_diff.output_char",
                                       "_output_screen_diff.get_max_column_index", "print_formatted_text",
                                       "Renderer.reset", "Renderer.erase"],
    "src/prompt_toolkit/output/vt100.py": [
        "Vt100_Output.write", "Vt100_Output.write_raw", "Vt100_Output.flush", "Vt100_Output.set_title",
        "Vt100_Output.clear_title", "Vt100_Output.erase_screen", "Vt100_Output.enter_alternate_screen",
        "Vt100_Output.quit_alternate_screen", "Vt100_Output.enable_mouse_support",
        "Vt100_Output.disable_mouse_support", "Vt100_Output.erase_end_of_line", "Vt100_Output.erase_down",
        "Vt100_Output.reset_attributes", "Vt100_Output.disable_autowrap", "Vt100_Output.enable_autowrap",
        "Vt100_Output.enable_bracketed_paste", "Vt100_Output.disable_bracketed_paste",
        "Vt100_Output.reset_cursor_key_mode", "Vt100_Output.cursor_goto", "Vt100_Output.cursor_up",
        "Vt100_Output.cursor_down", "Vt100_Output.cursor_forward", "Vt100_Output.cursor_backward",
        "Vt100_Output.hide_cursor", "Vt100_Output.show_cursor", "Vt100_Output.set_cursor_shape",
        "Vt100_Output.reset_cursor_shape", "Vt100_Output.ask_for_cpr", "Vt100_Output.bell"],
    "src/prompt_toolkit/output/plain_text.py": ["PlainTextOutput.write", "PlainTextOutput.write_raw",
                                                "PlainTextOutput.flush"],
    "src/prompt_toolkit/output/flush_stdout.py": ["flush_stdout"],
    "src/prompt_toolkit/output/defaults.py": ["create_output"],
    "src/prompt_toolkit/shortcuts/prompt.py": ["PromptSession._dumb_prompt",
                                               "PromptSession._dumb_prompt.on_text_changed"],
    "src/prompt_toolkit/patch_stdout.py": ["StdoutProxy._write_and_flush.write_and_flush"],
}
LEVEL_TEXT = (
    "Lean 4 theorems over an executable model of the whole display path, from characters to the BYTES on the "
    "wire and back through the terminal's decoder. Text is a list of CODE POINTS (any natural number: lone "
    "surrogates U+D800-DFFF included). Proved for all inputs: Char.__init__ over ANY display table satisfying "
    "decidable side conditions (re-decided by the kernel on the regenerated Char.display_mappings) never yields "
    "a control character; the zero-width merge and the whole Window._copy_body keep every screen cell "
    "control-free; _output_screen_diff sends cell text only through the escaping writer and only zero-width "
    "escapes raw; Vt100_Output.write never emits ESC; the _buffer / flush / flush_stdout / "
    "encode(enc,'replace') stage, for UTF-8 (written-out encoder + streaming decoder, round trip proved) and "
    "every regenerated single-byte code page (ascii, latin-1, iso8859-15, cp1252, cp437, cp850, koi8-r, "
    "mac-roman; any table satisfying decidable side conditions), never changes what a terminal of that "
    "encoding reads except that unencodable characters (lone surrogates, characters outside the code page) "
    "become '?': no stray byte, no raw C1 byte, flush boundaries irrelevant; the output grammar (C0/C1, CSI, "
    "ESC and string sequences) is unambiguous (tokens prefix-free, at most one parse) and the tokenizer "
    "computes that parse; capstone hostile_content_unique_reading: for any content and any lawful codec the "
    "decoded byte stream has exactly one reading and its control tokens are exactly the renderer's own. Also "
    "modelled and proved: every other emitter of Vt100_Output and Renderer.reset/erase (pure-ASCII sentences "
    "of the grammar for every amount/position/state), set_title (any title is exactly one OSC token), the "
    "dumb-terminal prompt (only the text's own newlines survive as controls), patch_stdout "
    "raw/safe, print_formatted_text on Vt100_Output and PlainTextOutput, and create_output()'s choice of the "
    "writer class (a tty always gets the escaping Vt100_Output, PlainTextOutput only non-ttys, $TERM never "
    "decides; decision table of the real function regenerated and re-decided). Tied to /repo on every run by "
    "regenerated tables (display table, emitter strings, code pages, probes), a differential correspondence "
    "(every code point incl. surrogates through Char and through every codec, copy_body, diff, print, real "
    "binary streams with every error handler, CPython's decoders vs the model's) and an end-to-end oracle on "
    "text streams and on byte streams")
LEVEL_NOTE = ("trusted: Lean kernel, axioms propext/Classical.choice/Quot.sound only; the hand-written model "
              "(validated by the correspondence, not proved equal to the Python); wcwidth only by "
              "correspondence; terminal semantics = (a) decode the byte stream in the stream's encoding "
              "(model decoder correspondence-checked against CPython's), (b) act on the control tokens of the "
              "ECMA-48 grammar (unambiguity proved; that real terminals implement this grammar is assumed)")
RULE = ("Char(c) for every code point incl. lone surrogates (thorough) / stratified sample incl. all of U+0000-33FF, "
        "all surrogates and every wcwidth range boundary (quick); multi-character cell strings; Vt100_Output.write; "
        "print_formatted_text (Vt100_Output and PlainTextOutput; text and binary streams); Window._copy_body and "
        "_output_screen_diff on hostile fragment lines (wrap, prefixes, scroll, zero-width escapes, wide/zero-width "
        "characters, surrogates), a quarter of them on real binary streams; flush_stdout over real TextIOWrapper/"
        "BytesIO streams with encoding x errors in {strict, replace, surrogateescape, backslashreplace, ignore, "
        "xmlcharrefreplace, namereplace, surrogatepass} and over minimal stream objects with/without "
        "encoding/buffer; every code point through every codec; the model's terminal decoders vs CPython's on "
        "well-formed and ill-formed byte strings; _buffer op sequences; the grammar recognisers/parser vs an "
        "independent regex form; every emitter, Renderer.reset/erase in all flag combinations; set_title; the real "
        "_dumb_prompt; StdoutProxy._write_and_flush; end-to-end renders of a real PromptSession and a full-screen "
        "Application (half of them on binary streams, surrogates in buffer, prompt, toolbar, completion display/"
        "meta); a case is non-trivial when its content contains a control character, NBSP or a lone surrogate")
EXHAUSTIVE = True
EXHAUSTIVE_SCOPE = {
    "quick": "Char(c): all code points U+0000-33FF + all 2048 surrogates + all wcwidth range boundaries + 40k random; "
             "copy_body: all lines over a 7-symbol alphabet up to length 3 x widths 1-4 x wrap on/off; bytes: all "
             "strings over an 8-symbol alphabet (ASCII, lone surrogate, C1, wide, ESC, Latin-1, euro, non-BMP) up to "
             "length 2 x 9 codecs x 8 error handlers; U+0000-04FF + the code page's whole repertoire through every "
             "codec; all write/write_raw/flush sequences up to length 3 on both output classes; Renderer.reset/erase: "
             "all 8 flag combinations x leave_alternate_screen; set_title: every C0/DEL/C1 code point alone, "
             "embedded, leading and trailing + all pairs over 8 symbols",
    "thorough": "Char(c): every code point U+0000-10FFFF incl. surrogates; every code point through every one of the "
                "9 codecs; copy_body: all lines over a 7-symbol alphabet up to length 4 x widths 1-4 x wrap on/off; "
                "bytes: all strings over the 8-symbol alphabet up to length 3 x 9 codecs x 8 error handlers"}
TRUSTED = ["harness/c10.py compares (char, style, width) of Char, buffered output text, write/write_raw pieces and the "
           "bytes a real binary stream received",
           "Ptk/Model/C10*.lean are hand translations of Char.__init__, _copy_body, _output_screen_diff, the "
           "Vt100_Output / PlainTextOutput methods, flush_stdout, print_formatted_text, Renderer.reset/erase, "
           "_dumb_prompt, StdoutProxy._write_and_flush (correspondence-checked)",
           "harness/gen_c10.py prints Char.display_mappings, the emitter strings, wcwidth / isprintable ranges and "
           "the code-page tables of the running interpreter faithfully"]
ASSUMPTIONS = ["wcwidth of the running interpreter (regenerated table; theorems hold for every width function "
               "under ValuesWidthPos)",
               "style -> Attrs -> SGR escape code is a parameter (C19's domain); theorems assume each SGR code is "
               "a complete, pure-ASCII sentence of the grammar; the driver re-checks this on every real code it is given",
               "the terminal decodes the byte stream with the encoding Python used (stdout.encoding) and acts only on "
               "the control tokens of the ECMA-48 grammar (C0/C1, CSI, ESC, string sequences); a terminal whose "
               "encoding differs from stdout.encoding is outside the claim",
               "stateless ASCII-superset codecs only: UTF-8 and the 8 regenerated code pages (UTF-16/32, UTF-7, "
               "ISO-2022 and EBCDIC code pages are outside the byte-level theorems)",
               "the OSError branches of flush_stdout (EINTR / errno 0 swallowed) may drop part of one flush; they "
               "add nothing"]
PARTIAL_SCOPE = ["repaired during this work (fixed entries in known_findings.json, witnesses in corpus/C10): the "
                 "dumb-terminal prompt wrote control characters raw (/repo 16862de; dumbPreFix_injects is kept as a "
                 "statement about the old rule, dumb_prompt_clean holds for the code as it is), set_title deleted only "
                 "ESC and BEL (/repo f7226c7; setTitlePreFix_st_injects / setTitle_one_token)",
                 "Win32Output / ConEmuOutput / Windows10_Output: the modules assert sys.platform == 'win32' and load "
                 "ctypes.windll at import, they cannot be imported or run here; Windows10_Output delegates to "
                 "Vt100_Output (the modelled write/write_raw); Win32Output.write goes to WriteConsoleW on a console "
                 "without VT processing; not modelled",
                 "template interpolation (ANSI(t).format(v), ANSI(t) % v, HTML(t).format(v)): that every interpolated "
                 "value is inert is C18's theorem (ansiFormat_inert); C10 checks its end-to-end consequence only "
                 "(oracle kind 'tpl': hostile str and non-str values in prompt message, toolbar and printed text, "
                 "text and byte streams: no zero-width escape that the template did not mark, no control token "
                 "outside the renderer's repertoire)",
                 "create_output(): POSIX branch only (the win32 branch cannot run here); StdoutProxy unwrapping is not "
                 "modelled; the decision is probed with fake streams (all 270 combinations, kernel-checked) and driven on "
                 "real ptys / pipes by the oracle (TERM in xterm, dumb, unknown, unset)",
                 "PlainTextOutput (stdout is not a terminal) does not escape by design: printPlain_adds_nothing only",
                 "Renderer.render's prelude (alternate screen, bracketed paste, mouse, cursor key mode, cursor shape) "
                 "and CPR requests: each emitter is modelled and proved (vtCall_ok), their sequencing inside render() "
                 "is exercised end to end by the oracle only; StdoutProxy line buffering / threads are C20's domain",
                 "cursor line/column highlighting, digraph / pending-key display, fill_area restyling, menus and "
                 "ScrollablePane are exercised end to end by the oracle only (they rebuild cells from "
                 "existing cell text through _CHAR_CACHE: theorem mkCell_clean)",
                 "explicitly marked zero-width escapes are the caller's: the byte-level capstone is stated for "
                 "content without marked fragments (a marked payload with unencodable characters is altered by "
                 "'replace' like any text)",
                 "bidi/format characters (U+202E, U+2028...) are not control characters of the property"]
TECHNIQUE = "proof"

# ------------------------------------------------------------------ helpers
STYLES = ["", "class:a", "bold", "fg:ansired", "bg:ansiblue underline", "class:bottom-toolbar",
          "reverse", "[transparent]"]
ZWE = "[ZeroWidthEscape]"
NBSP_SUF = " class:nbsp "
CTL_SUF = " class:control-character "

HOSTILE_SEQS = ["\x1b[31m", "\x1b[2J", "\x1b[6n", "\x1b[?1049h", "\x1b]0;EVIL\x07", "\x1b]52;c;QQ==\x07",
                "\x1bP+q544e\x1b\\", "\x9b31m", "\x9b2J", "\x9d0;EVIL\x9c", "\x90q\x9c", "\x1bc", "\x1b(0",
                "\x1b[200~", "\x1b[10;10H", "\x1b#8", "\x98x\x9c", "\x1b_G\x1b\\", "\r\n", "\x08\x08", "\x07",
                "\x0e", "\x0f", "\x7f", "\xa0", "\x85", "\x00"]
PRINTABLE = ["a", "b", "Z", " ", "~", "[", "?", "^", "<", "9", "世", "界", "́", "‍", "​",
             " ", "‮", "é", "\U0001F600", "\xad", "　", "\x9f", "\x80", "\x1f", "\x1b"]
# lone surrogates: what os.fsdecode / os.listdir / sys.argv / surrogateescape input make of the raw bytes
# 0x80..0xFF (U+DC80+b), plus the ends of the surrogate block and an unpaired "pair"
SURROGATES = ["\udc9b", "\udc9d", "\udc90", "\udc9c", "\udc85", "\udc80", "\udc9f", "\udcff", "\udc1b",
              "\ud800", "\udbff", "\udc00", "\udfff", "\ud83d\ude00", "\udc9b31m", "\udc9d0;pwned\udc9c",
              "\udc90q\udc9c", "\udce4\udcb8"]


def is_control(c: str) -> bool:
    o = ord(c)
    return o < 0x20 or 0x7F <= o <= 0x9F


def has_control(s: str) -> bool:
    return any(is_control(c) for c in s)


def rand_hostile(rng, n):
    out = []
    for _ in range(n):
        k = rng.randrange(11)
        if k < 3:
            out.append(rng.choice(HOSTILE_SEQS))
        elif k < 5:
            out.append(chr(rng.choice(list(range(0x20)) + list(range(0x7F, 0xA1)))))
        elif k == 10:
            out.append(rng.choice(SURROGATES))
        else:
            out.append(rng.choice(PRINTABLE))
    return "".join(out)


class RecOutput(Vt100_Output):
    """A real Vt100_Output that additionally records, per call, what write / write_raw appended to
    the buffer (the methods themselves are the real ones)."""

    def __init__(self, *a, **kw):
        super().__init__(*a, **kw)
        self.pieces: list[tuple[str, str]] = []

    def write(self, data):
        n = len(self._buffer)
        Vt100_Output.write(self, data)
        self.pieces.append(("w", "".join(self._buffer[n:])))

    def write_raw(self, data):
        n = len(self._buffer)
        Vt100_Output.write_raw(self, data)
        self.pieces.append(("r", "".join(self._buffer[n:])))


# ------------------------------------------------------------------ the byte level
def codec_names():
    """codec registry shared with the driver: index 0 = UTF-8, i+1 = the i-th regenerated code page"""
    import gen_c10
    return ["utf-8"] + list(gen_c10.CHARMAPS)


def codec_index(name):
    """index of the codec Python resolves the stream's encoding name to"""
    import codecs
    return codec_names().index(codecs.lookup(name).name)


STREAM_ERRORS = ["strict", "replace", "surrogateescape", "backslashreplace", "ignore", "xmlcharrefreplace",
                 "namereplace", "surrogatepass"]
WIRE_ENCODINGS = ["utf-8", "UTF-8", "latin-1", "ascii", "ANSI_X3.4-1968", "cp1252", "iso8859-15", "cp437", "cp850",
                  "koi8-r", "mac-roman"]


def binary_stream(enc, errors):
    """a real text stream over a real binary stream, as sys.stdout is"""
    raw = io.BytesIO()
    return io.TextIOWrapper(raw, encoding=enc, errors=errors, newline=""), raw


def rand_wire(rng):
    return {"enc": rng.choice(WIRE_ENCODINGS),
            "errors": rng.choice(STREAM_ERRORS[:4] + STREAM_ERRORS[:3] + STREAM_ERRORS)}


def terminal_view(data: bytes, enc: str):
    """How a terminal that uses `enc` reads a byte stream (written independently of the model):
    returns (text, stray) where `stray` lists the bytes that are not part of any character: bytes outside
    a well-formed UTF-8 sequence, or undefined in the code page."""
    import codecs
    name = codecs.lookup(enc).name
    stray = []
    if name == "utf-8":
        t = data.decode("utf-8", "surrogateescape")
        out = []
        for ch in t:
            if 0xDC80 <= ord(ch) <= 0xDCFF:
                stray.append(ord(ch) - 0xDC00)
            else:
                out.append(ch)
        return "".join(out), stray
    out = []
    for b in data:
        try:
            out.append(bytes([b]).decode(name))
        except UnicodeDecodeError:
            stray.append(b)
    return "".join(out), stray


def ctrl_seq(s):
    return [c for c in s if is_control(c)]


def is_subseq(a, b):
    it = iter(b)
    return all(x in it for x in a)


def check_wire(site, data: bytes, enc: str, text: str, v):
    """the byte-level property for one stream: a terminal of that encoding must read the bytes as the text
    (unencodable characters as '?'): no stray byte, no control character that the text did not contain, as
    many characters as the text has.  Returns the terminal's view (or None after a violation)."""
    seen, stray = terminal_view(data, enc)
    if stray:
        v.append({"signature": f"{site} | raw byte outside any character reached the terminal",
                  "msg": f"encoding {enc}: bytes {[hex(b) for b in stray[:8]]} in {data[:80]!r} for text {text[:60]!r}"})
        return None
    if not is_subseq(ctrl_seq(seen), ctrl_seq(text)):
        v.append({"signature": f"{site} | encoding created a control character",
                  "msg": f"encoding {enc}: terminal reads {seen[:80]!r} for text {text[:60]!r}"})
        return None
    if len(seen) != len(text):
        v.append({"signature": f"{site} | encoding changed the number of characters",
                  "msg": f"encoding {enc}: terminal reads {seen[:80]!r} for text {text[:60]!r}"})
        return None
    return seen


def new_output(rows=24, cols=80, rec=True, depth=ColorDepth.DEPTH_8_BIT, wire=None):
    """a real Vt100_Output on a StringIO, or (wire = {"enc", "errors"}) on a real binary stream whose
    `.errors` is configured as given; the second result has `.getvalue()` (str resp. bytes)"""
    if wire is None:
        stream = buf = io.StringIO()
    else:
        stream, buf = binary_stream(wire["enc"], wire["errors"])
    cls = RecOutput if rec else Vt100_Output
    out = cls(stream, lambda: Size(rows=rows, columns=cols), term="xterm", default_color_depth=depth)
    return out, buf


def enc_bytes(b: bytes) -> str:
    return "s:" + ",".join(str(x) for x in b)


_STYLE = None


def ui_style():
    global _STYLE
    if _STYLE is None:
        from prompt_toolkit.styles import default_ui_style
        _STYLE = default_ui_style()
    return _STYLE


def style_env(styles, out, depth=ColorDepth.DEPTH_8_BIT):
    """parameters of the model that are C19's domain, computed by the real code:
    style string -> (attrs id, style_string_has_style), attrs id -> escape code"""
    from prompt_toolkit.renderer import _StyleStringHasStyleCache, _StyleStringToAttrsCache
    from prompt_toolkit.styles import DummyStyleTransformation

    a4s = _StyleStringToAttrsCache(ui_style().get_attrs_for_style_str, DummyStyleTransformation())
    has = _StyleStringHasStyleCache(a4s)
    ids: dict = {}
    rows = []
    seen = set()
    for s in styles:
        for v in (s, s + CTL_SUF, s + NBSP_SUF):
            if v in seen:
                continue
            seen.add(v)
            at = a4s[v]
            if at not in ids:
                ids[at] = len(ids)
            rows.append((v, ids[at], bool(has[v])))
    sg = [(i, out._escape_code_caches[depth][at]) for at, i in ids.items()]
    line = "env " + enc_list(rows, lambda r: f"{enc_str(r[0])} {r[1]} {enc_bool(r[2])}") + " " + \
        enc_list(sg, lambda r: f"{r[0]} {enc_str(r[1])}")
    return line, a4s, has, dict(sg)


# ------------------------------------------------------------------ tokenizer (oracle side)
def tokenize(s: str):
    """ECMA-48 style split of an output stream into ('t', printable run) and ('c', control token)."""
    out = []
    i, n = 0, len(s)
    run = []

    def flush():
        if run:
            out.append(("t", "".join(run)))
            run.clear()

    while i < n:
        c = s[i]
        o = ord(c)
        if c == "\x1b":
            flush()
            if i + 1 >= n:
                out.append(("c", c))
                i += 1
            elif s[i + 1] == "[":
                j = i + 2
                while j < n and 0x30 <= ord(s[j]) <= 0x3F:
                    j += 1
                while j < n and 0x20 <= ord(s[j]) <= 0x2F:
                    j += 1
                if j < n and 0x40 <= ord(s[j]) <= 0x7E:
                    j += 1
                out.append(("c", s[i:j]))
                i = j
            elif s[i + 1] in "]PX^_":
                j = i + 2
                while j < n and s[j] != "\x07" and not (s[j] == "\x1b" and j + 1 < n and s[j + 1] == "\\") \
                        and s[j] != "\x9c":
                    j += 1
                j = min(n, j + (2 if j < n and s[j] == "\x1b" else 1))
                out.append(("c", s[i:j]))
                i = j
            else:
                j = i + 1
                while j < n and 0x20 <= ord(s[j]) <= 0x2F:
                    j += 1
                j = min(n, j + 1)
                out.append(("c", s[i:j]))
                i = j
        elif is_control(c):
            flush()
            if o == 0x9B:
                j = i + 1
                while j < n and 0x30 <= ord(s[j]) <= 0x3F:
                    j += 1
                while j < n and 0x20 <= ord(s[j]) <= 0x2F:
                    j += 1
                if j < n and 0x40 <= ord(s[j]) <= 0x7E:
                    j += 1
                out.append(("c", s[i:j]))
                i = j
            else:
                out.append(("c", c))
                i += 1
        else:
            run.append(c)
            i += 1
    flush()
    return out


# the renderer's own repertoire (what Vt100_Output's emitters can produce)
REPERTOIRE = re.compile(
    r"\x1b\[\?(?:25|7|12|2004|1|1000|1003|1015|1006|1049)[hl]"
    r"|\x1b\[[0-9;]*m"
    r"|\x1b\[[0-9]*[ABCD]"
    r"|\x1b\[[JK]|\x1b\[2J|\x1b\[H|\x1b\[[0-9]+;[0-9]+H"
    r"|\x1b\[[0-6] q"
    r"|\x1b\[6n"
    r"|\r|\n|\x08")
REPS = re.compile("(?:" + REPERTOIRE.pattern + ")+")
SGR = re.compile(r"\x1b\[[0-9;]*m")
CRLFS = re.compile(r"\r|(?:\r\n)+")


def check_stream(site, text, pieces, zwe_payloads, v):
    """the property over one recorded output stream"""
    def bad(cond, msg):
        v.append({"signature": f"{site} | {cond}", "msg": msg[:600]})

    if pieces is not None and "".join(p for _, p in pieces) != text:
        bad("output bypassed write/write_raw", "stream is not the concatenation of the recorded pieces")
    zre = None
    if zwe_payloads:
        # zero_width_escapes[y][x] += text concatenates payloads; horizontal scrolling explodes a marked
        # fragment and may drop a prefix of it, so a raw piece is a concatenation of payload suffixes
        sufs = {z[i:] for z in zwe_payloads for i in range(len(z))}
        zre = re.compile("(?:" + "|".join(re.escape(z) for z in sorted(sufs, key=len, reverse=True)) + ")+") \
            if sufs else None
    for kind, p in pieces or []:
        if kind == "w":
            if "\x1b" in p:
                bad("ESC through the safe writer", f"write() produced ESC: {p!r}")
            elif has_control(p) and not CRLFS.fullmatch(p):
                bad("control character through the escaping writer", f"write() payload {p!r}")
        else:
            if p == "" or REPS.fullmatch(p):
                continue
            if zre is not None and zre.fullmatch(p):
                continue
            bad("raw write outside the renderer's repertoire", f"write_raw() payload {p!r}")
    for kind, tk in tokenize(text):
        if kind != "c":
            continue
        if REPERTOIRE.fullmatch(tk):
            continue
        if any(tk in z for z in zwe_payloads or []):
            continue
        bad("control token outside the renderer's repertoire", f"token {tk!r} in output stream")
        break


# ------------------------------------------------------------------ case kinds
def chunk_cps(case):
    if "range" in case:
        return range(case["range"][0], case["range"][1])
    return case["cps"]


def is_sur(cp):
    return 0xD800 <= cp <= 0xDFFF


def ml_chars(case):
    st = enc_str(case["style"])
    return [f"cell s:{cp} {st}" for cp in chunk_cps(case)]


def il_chars(case):
    out = []
    style = case["style"]
    use_cache = case.get("cache", False)
    for cp in chunk_cps(case):
        ch = _CHAR_CACHE[chr(cp), style] if use_cache else Char(chr(cp), style)
        out.append(f"{enc_str(ch.char)} {enc_str(ch.style)} {ch.width}")
    return out


def or_chars(case):
    v = []
    style = case["style"]
    for cp in chunk_cps(case):
        c = chr(cp)
        ch = Char(c, style)
        if has_control(ch.char):
            v.append({"signature": "Char.__init__ | control character in cell text",
                      "msg": f"Char({c!r}).char = {ch.char!r}"})
            break
        if is_control(c) and ch.width < 1:
            v.append({"signature": "Char.__init__ | control character displayed with width 0 (would be merged raw)",
                      "msg": f"Char({c!r}) = {ch.char!r} width {ch.width}"})
            break
        if ch.width != get_cwidth(ch.char):
            v.append({"signature": "Char.__init__ | width is not the width of the displayed text",
                      "msg": f"Char({c!r}) = {ch.char!r} width {ch.width}"})
            break
    return v


def ml_str(case):
    return [f"cell {enc_str(case['s'])} {enc_str(case['style'])}"]


def il_str(case):
    ch = _CHAR_CACHE[case["s"], case["style"]]
    return [f"{enc_str(ch.char)} {enc_str(ch.style)} {ch.width}"]


def or_str(case):
    s = case["s"]
    ch = Char(s, case["style"])
    if not has_control(s) and has_control(ch.char):
        return [{"signature": "Char.__init__ | control character in cell text",
                 "msg": f"Char({s!r}).char = {ch.char!r}"}]
    return []


def ml_write(case):
    return [f"write {enc_str(p)}" for p in case["ops"]]


def il_write(case):
    out = []
    o, buf = new_output(rec=False)
    for p in case["ops"]:
        o.write(p)
        o.flush()
        out.append(enc_str(buf.getvalue()))
        buf.seek(0)
        buf.truncate()
    return out


def or_write(case):
    o, buf = new_output(rec=False)
    for p in case["ops"]:
        o.write(p)
    o.flush()
    t = buf.getvalue()
    v = []
    if "\x1b" in t:
        v.append({"signature": "Vt100_Output.write | ESC in output", "msg": f"{case['ops']!r} -> {t!r}"})
    if len(t) != sum(len(p) for p in case["ops"]):
        v.append({"signature": "Vt100_Output.write | length changed", "msg": f"{case['ops']!r} -> {t!r}"})
    return v


def run_print(case):
    """-> (output object, text stream, bytes or None)"""
    from prompt_toolkit.renderer import print_formatted_text
    wire = case.get("wire")
    o, buf = new_output(wire=wire)
    frs = [(s, t) for s, t in case["frags"]]
    print_formatted_text(o, frs, ui_style(), color_depth=ColorDepth.DEPTH_8_BIT)
    if wire is None:
        return o, buf.getvalue(), None
    return o, "".join(p for _, p in o.pieces), buf.getvalue()


def ml_wire_on(case):
    w = case.get("wire")
    return [] if w is None else [f"wire {codec_index(w['enc'])}"]


def ml_wire_off(case):
    return [] if case.get("wire") is None else ["wire N"]


def ml_print(case):
    o, _ = new_output()
    env, _, _, _ = style_env(sorted({s for s, _ in case["frags"]}), o)
    return [env] + ml_wire_on(case) + \
        ["print " + enc_list(case["frags"], lambda f: f"{enc_str(f[0])} {enc_str(f[1])}")] + ml_wire_off(case)


def enc_pieces(pieces):
    return enc_list(pieces, lambda p: f"{p[0]} {enc_str(p[1])}")


def il_print(case):
    o, text, data = run_print(case)
    w = ["ok"] if data is not None else []
    return ["ok"] + w + [enc_str(text) + " " + enc_pieces(o.pieces) + ("" if data is None else " " + enc_bytes(data))] + w


def or_print(case):
    o, text, data = run_print(case)
    v = []
    if data is not None:
        seen = check_wire("print_formatted_text", data, case["wire"]["enc"], text, v)
        if seen is not None:
            # the safe print path at the byte level: every ESC the terminal reads was written raw
            esc_raw = sum(p.count("\x1b") for k, p in o.pieces if k == "r")
            if seen.count("\x1b") != esc_raw:
                v.append({"signature": "print_formatted_text | ESC through the safe print path",
                          "msg": f"{case['frags']!r} -> terminal reads {seen!r}"})
    zw = [t for s, t in case["frags"] if ZWE in s]
    if case.get("_zw") is not None:   # only these payloads were marked explicitly (template interpolation)
        zw = list(case["_zw"])
    esc_raw = sum(p.count("\x1b") for k, p in o.pieces if k == "r")
    if text.count("\x1b") != esc_raw:
        v.append({"signature": "print_formatted_text | ESC through the safe print path",
                  "msg": f"{case['frags']!r} -> {text!r}"})
    for k, p in o.pieces:
        if k == "w" and "\x1b" in p:
            v.append({"signature": "print_formatted_text | ESC through the safe print path",
                      "msg": f"write piece {p!r}"})
            break
        if k == "r" and not (REPERTOIRE.fullmatch(p) or p in zw):
            v.append({"signature": "print_formatted_text | raw write outside the renderer's repertoire",
                      "msg": f"write_raw piece {p!r}"})
            break
    if "".join(p for _, p in o.pieces) != text:
        v.append({"signature": "print_formatted_text | output bypassed write/write_raw", "msg": repr(text)})
    return v



# ------------------------------------------------------------------ copy_body + diff (kind "render")
TRANSPARENT = "[transparent]"


def enc_frags(frs):
    return enc_list(frs, lambda f: f"{enc_str(f[0])} {enc_str(f[1])}")


def case_styles(case):
    st = {TRANSPARENT, ""}
    for fr in case["ops"]:
        for cp in fr["copies"]:
            for ln in cp["lines"]:
                st.update(s for s, _ in ln)
            for pre in cp.get("pre") or []:
                st.update(s for s, _ in pre)
    return sorted(st)


def case_zwe(case):
    z = []
    for fr in case["ops"]:
        for cp in fr["copies"]:
            for ln in cp["lines"]:
                z += [t for s, t in ln if ZWE in s]
            for pre in cp.get("pre") or []:
                z += [t for s, t in pre if ZWE in s]
    return z


def ml_render(case):
    cols, rows = case["size"]
    o, _ = new_output(rows, cols)
    env, _, _, _ = style_env(case_styles(case), o)
    out = [env, "resetr"] + ml_wire_on(case)
    for fr in case["ops"]:
        out.append("newscreen")
        for cp in fr["copies"]:
            pre = cp.get("pre")
            out.append("copy %d %d %d %d %s %d %d %d %d %s %s %s %s" % (
                cp["xpos"], cp["ypos"], cp["width"], cp["height"], enc_bool(cp["wrap"]), cp["hscroll"],
                cp.get("align", 0), cp["vscroll"], cp["vscroll2"], enc_bool(pre is not None),
                enc_frags(pre[0] if pre else []), enc_frags(pre[1] if pre else []),
                enc_list(cp["lines"], enc_frags)))
        d = fr.get("diff")
        if d:
            out.append("diff %s %s %d %d %d %d %s" % (enc_bool(d["is_done"]), enc_bool(d["full_screen"]), cols, rows,
                                                     d["cursor"][0], d["cursor"][1], enc_bool(d["show_cursor"])))
    return out + ml_wire_off(case)


def dump_screen(screen):
    cells = []
    for y, row in screen.data_buffer.items():
        for x, c in row.items():
            if not (c.char == " " and c.style == TRANSPARENT and c.width == 1):
                cells.append((y, x, c))
    cells.sort(key=lambda t: (t[0], t[1]))
    zw = []
    for y, row in screen.zero_width_escapes.items():
        for x, t in row.items():
            zw.append((y, x, t))
    zw.sort(key=lambda t: (t[0], t[1]))
    return (f"{screen.height} " +
            enc_list(cells, lambda t: f"{t[0]} {t[1]} {enc_str(t[2].char)} {enc_str(t[2].style)} {t[2].width}") + " " +
            enc_list(zw, lambda t: f"{t[0]} {t[1]} {enc_str(t[2])}"))


class _StubLayout:
    def __init__(self, w):
        self.current_window = w


class _StubApp:
    def __init__(self, w):
        self.layout = _StubLayout(w)


def run_render(case):
    """the real Window._copy_body and _output_screen_diff on the real Screen / Vt100_Output"""
    from prompt_toolkit.layout.containers import Window, WindowAlign
    from prompt_toolkit.layout.controls import UIContent
    from prompt_toolkit.renderer import _output_screen_diff

    cols, rows = case["size"]
    wire = case.get("wire")
    out, buf = new_output(rows, cols, wire=wire)
    _, a4s, has, _ = style_env(case_styles(case), out)
    lines_out = ["ok", "ok"] + (["ok"] if wire else [])
    screens, stream = [], []
    win = Window()
    app = _StubApp(win)
    prev, pos, last, prev_width = None, Point(x=0, y=0), None, 0
    for fr in case["ops"]:
        screen = Screen()
        lines_out.append("ok")
        for cp in fr["copies"]:
            lines = [[(s, t) for s, t in ln] for ln in cp["lines"]]
            ui = UIContent(get_line=(lambda i, lines=lines: lines[i]), line_count=len(lines), show_cursor=False)
            wp = WritePosition(cp["xpos"], cp["ypos"], cp["width"], cp["height"])
            glp = None
            if cp.get("pre") is not None:
                p0 = [(s, t) for s, t in cp["pre"][0]]
                pn = [(s, t) for s, t in cp["pre"][1]]
                glp = (lambda lineno, wrap_count, p0=p0, pn=pn: p0 if wrap_count == 0 else pn)
            Window()._copy_body(ui, screen, wp, 0, cp["width"], vertical_scroll=cp["vscroll"],
                                horizontal_scroll=cp["hscroll"], wrap_lines=cp["wrap"],
                                vertical_scroll_2=cp["vscroll2"], get_line_prefix=glp,
                                align=[WindowAlign.LEFT, WindowAlign.CENTER, WindowAlign.RIGHT][cp.get("align", 0)])
            lines_out.append(dump_screen(screen))
        screens.append(screen)
        d = fr.get("diff")
        if d:
            screen.set_cursor_position(win, Point(x=d["cursor"][0], y=d["cursor"][1]))
            screen.show_cursor = d["show_cursor"]
            n = len(out.pieces)
            pos, last = _output_screen_diff(app, out, screen, pos, ColorDepth.DEPTH_8_BIT, prev, last,
                                            d["is_done"], d["full_screen"], a4s, has,
                                            Size(rows=rows, columns=cols), prev_width)
            out.flush()
            data = buf.getvalue()
            buf.seek(0)
            buf.truncate()
            pieces = [p for p in out.pieces[n:] if p[1] != ""]
            text = data if wire is None else "".join(p for _, p in out.pieces[n:])
            stream.append((text, out.pieces[n:], None if wire is None else data))
            lines_out.append(f"{pos.x} {pos.y} {'N' if last is None else enc_str(last)} {enc_str(text)} "
                             f"{enc_pieces(pieces)}" + ("" if wire is None else " " + enc_bytes(data)))
            prev, prev_width = screen, cols
    return lines_out + (["ok"] if wire else []), screens, stream


def il_render(case):
    return run_render(case)[0]


def or_render(case):
    v = []
    _, screens, stream = run_render(case)
    for sc in screens:
        scan_screen("Window._copy_body", sc, v)
    zw = case_zwe(case)
    for text, pieces, data in stream:
        if data is not None:
            seen = check_wire("_output_screen_diff", data, case["wire"]["enc"], text, v)
            if seen is None:
                continue
            # what the terminal reads must satisfy the stream property too
            check_stream("_output_screen_diff (terminal view)", seen, None,
                         [terminal_view(z.encode(case["wire"]["enc"], "replace"), case["wire"]["enc"])[0] for z in zw], v)
        check_stream("_output_screen_diff", text, pieces, zw, v)
    if not zw:
        for sc in screens:
            if any(t for row in sc.zero_width_escapes.values() for t in row.values()):
                v.append({"signature": "Window._copy_body | unmarked text stored as zero-width escape", "msg": ""})
    return v


# ------------------------------------------------------------------ end to end
def _mk_completer(comps):
    from prompt_toolkit.completion import Completer, Completion

    class C(Completer):
        def get_completions(self, document, complete_event):
            for t, d, m in comps:
                yield Completion(t, 0, display=d, display_meta=m)
    return C()


def to_ft(x):
    """case encoding of formatted text: str or list of [style, text]"""
    if isinstance(x, str):
        return x
    return [(s, t) for s, t in x]


def ft_zwe(x):
    return [] if isinstance(x, str) or x is None else [t for s, t in x if ZWE in s]


def scan_screen(site, screen, v):
    for y, row in screen.data_buffer.items():
        for x, cell in row.items():
            if type(cell) is not Char:
                v.append({"signature": f"{site} | screen cell is not a Char", "msg": f"({y},{x}) {cell!r}"})
                return
            if has_control(cell.char):
                v.append({"signature": f"{site} | control character in a screen cell",
                          "msg": f"({y},{x}) {cell!r}"})
                return


def finish_stream(site, case, out, buf, zw, v):
    """the property over everything a real output object sent: on a StringIO the text stream; on a binary
    stream additionally the BYTES, read back the way a terminal of that encoding reads them"""
    wire = case.get("wire")
    if wire is None:
        check_stream(site, buf.getvalue(), out.pieces, zw, v)
        return
    text = "".join(p for _, p in out.pieces)
    check_stream(site, text, out.pieces, zw, v)
    seen = check_wire(site, buf.getvalue(), wire["enc"], text, v)
    if seen is not None:
        zw2 = [terminal_view(z.encode(wire["enc"], "replace"), wire["enc"])[0] for z in zw]
        check_stream(site + " (terminal view)", seen, None, zw2, v)


def e2e_prompt(case):
    from prompt_toolkit import PromptSession
    from prompt_toolkit.application.current import set_app
    from prompt_toolkit.buffer import CompletionState
    from prompt_toolkit.completion import Completion
    from prompt_toolkit.document import Document
    from prompt_toolkit.input import DummyInput
    from prompt_toolkit.shortcuts import CompleteStyle
    from prompt_toolkit.validation import ValidationError

    v: list = []
    rows, cols = case.get("rows", 24), case.get("cols", 80)

    async def main():
        out, buf = new_output(rows, cols, wire=case.get("wire"))
        kw = {}
        if case.get("toolbar") is not None:
            kw["bottom_toolbar"] = to_ft(case["toolbar"])
        if case.get("rprompt") is not None:
            kw["rprompt"] = to_ft(case["rprompt"])
        if case.get("placeholder") is not None:
            kw["placeholder"] = to_ft(case["placeholder"])
        if case.get("continuation") is not None:
            cont = to_ft(case["continuation"])
            kw["prompt_continuation"] = lambda width, line_number, wrap_count: cont
        comps = case.get("completions") or []
        s = PromptSession(message=to_ft(case["message"]), input=DummyInput(), output=out,
                          completer=_mk_completer(comps), multiline=case.get("multiline", True),
                          wrap_lines=case.get("wrap", True),
                          complete_style=[CompleteStyle.COLUMN, CompleteStyle.MULTI_COLUMN][case.get("cstyle", 0)],
                          **kw)
        app = s.app
        zw = ft_zwe(case["message"]) + ft_zwe(case.get("toolbar")) + ft_zwe(case.get("rprompt")) + \
            ft_zwe(case.get("continuation")) + ft_zwe(case.get("placeholder"))
        if case.get("_zw") is not None:   # only these payloads were marked explicitly (template interpolation)
            zw = list(case["_zw"])
        with set_app(app):
            b = s.default_buffer
            texts = case["texts"]
            for i, t in enumerate(texts):
                cur = min(len(t), case.get("cursor", len(t)))
                b.set_document(Document(t, cur), bypass_readonly=True)
                if comps and i >= case.get("comp_from", 0):
                    cl = [Completion(tt, 0, display=d, display_meta=m) for tt, d, m in comps]
                    b.complete_state = CompletionState(b.document, cl)
                    b.complete_state.go_to_index(i % len(cl))
                if case.get("verror") is not None and i == len(texts) - 1:
                    b.validation_error = ValidationError(0, case["verror"])
                if case.get("keybuf"):
                    from prompt_toolkit.key_binding.key_processor import KeyPress
                    app.key_processor.key_buffer = [KeyPress("x", case["keybuf"])]
                if case.get("height_known", True):
                    app.renderer.report_absolute_cursor_row(case.get("cpr_row", 1))
                app.renderer.render(app, app.layout)
                scan_screen("Renderer.render(prompt)", app.renderer._last_screen, v)
            app.renderer.render(app, app.layout, is_done=True)
            out.flush()
            finish_stream("Renderer.render(prompt)", case, out, buf, zw, v)

    asyncio.run(main())
    return v


def e2e_full(case):
    from prompt_toolkit.application import Application
    from prompt_toolkit.application.current import set_app
    from prompt_toolkit.input import DummyInput
    from prompt_toolkit.layout import FormattedTextControl, HSplit, Layout, VSplit, Window, ScrollablePane
    from prompt_toolkit.layout.containers import WindowAlign
    from prompt_toolkit.layout.margins import NumberedMargin, ScrollbarMargin
    from prompt_toolkit.widgets import Frame, Label, TextArea, Button, Box

    v: list = []
    rows, cols = case.get("rows", 20), case.get("cols", 60)

    async def main():
        out, buf = new_output(rows, cols, wire=case.get("wire"))
        ta = TextArea(text=case["texts"][0], multiline=True, wrap_lines=case.get("wrap", False),
                      line_numbers=True, scrollbar=True)
        ftc = FormattedTextControl(to_ft(case["message"]))
        body = HSplit([
            Frame(ta, title=case["title"]),
            VSplit([Window(ftc, wrap_lines=True, align=WindowAlign.CENTER, cursorline=True, height=3),
                    Label(case["label"]), Button(case["label"][:20] or "x")]),
            ScrollablePane(HSplit([Label(case["label"]), Window(FormattedTextControl(to_ft(case["toolbar"])),
                                                                height=3)]), height=4),
            Window(FormattedTextControl(to_ft(case["toolbar"])), height=1, style="class:bottom-toolbar",
                   align=WindowAlign.RIGHT),
        ])
        app = Application(layout=Layout(body, focused_element=ta), full_screen=True, input=DummyInput(), output=out)
        zw = ft_zwe(case["message"]) + ft_zwe(case["toolbar"])
        with set_app(app):
            for t in case["texts"]:
                ta.buffer.set_document(ta.document.__class__(t, min(len(t), case.get("cursor", len(t)))),
                                       bypass_readonly=True)
                app.renderer.render(app, app.layout)
                scan_screen("Renderer.render(full screen)", app.renderer._last_screen, v)
            app.renderer.render(app, app.layout, is_done=True)
            out.flush()
            finish_stream("Renderer.render(full screen)", case, out, buf, zw, v)

    asyncio.run(main())
    return v


# ------------------------------------------------------------------ AST pin
ALLOWED_RAW_SITES = {("renderer.py", "_output_screen_diff"), ("renderer.py", "print_formatted_text"),
                     ("patch_stdout.py", "write_and_flush")}


def ast_scan():
    """Static pins: every screen cell is built by Char.__init__ (directly or through _CHAR_CACHE),
    nothing mutates cell text or the display table afterwards, and variable data reaches
    write_raw only at the known sites."""
    v = []
    src = os.path.join(core.REPO, "src", "prompt_toolkit")

    def bad(cond, msg):
        v.append({"signature": f"source scan | {cond}", "msg": msg})

    for dp, _, fns in os.walk(src):
        for fn in fns:
            if not fn.endswith(".py"):
                continue
            path = os.path.join(dp, fn)
            rel = os.path.relpath(path, src)
            try:
                tree = ast.parse(open(path, encoding="utf-8").read())
            except SyntaxError as e:
                bad("unparsable source", f"{rel}: {e}")
                continue
            parents = {}
            for node in ast.walk(tree):
                for ch in ast.iter_child_nodes(node):
                    parents[ch] = node

            def enclosing(node, kinds):
                n = parents.get(node)
                while n is not None and not isinstance(n, kinds):
                    n = parents.get(n)
                return n

            for node in ast.walk(tree):
                # subclasses of Char
                if isinstance(node, ast.ClassDef):
                    for b in node.bases:
                        if (isinstance(b, ast.Name) and b.id == "Char") or \
                                (isinstance(b, ast.Attribute) and b.attr == "Char"):
                            bad("subclass of Char", f"{rel}:{node.lineno} class {node.name}")
                # stores to <x>.char / <x>.width on something that is not `self` inside an __init__
                if isinstance(node, ast.Attribute) and isinstance(node.ctx, (ast.Store, ast.Del)) \
                        and node.attr in ("char",):
                    fn_ = enclosing(node, (ast.FunctionDef, ast.AsyncFunctionDef))
                    ok = isinstance(node.value, ast.Name) and node.value.id == "self" and fn_ is not None \
                        and fn_.name == "__init__"
                    if not ok:
                        bad("cell text mutated outside a constructor", f"{rel}:{node.lineno}")
                # mutation of display_mappings
                if isinstance(node, ast.Attribute) and node.attr == "display_mappings":
                    p = parents.get(node)
                    if isinstance(p, ast.Subscript) and isinstance(p.ctx, (ast.Store, ast.Del)):
                        bad("display_mappings mutated", f"{rel}:{node.lineno}")
                    if isinstance(p, ast.Attribute) and p.attr in ("update", "pop", "clear", "setdefault",
                                                                    "popitem", "__setitem__", "__delitem__"):
                        bad("display_mappings mutated", f"{rel}:{node.lineno}")
                    if isinstance(node.ctx, (ast.Store, ast.Del)):
                        bad("display_mappings mutated", f"{rel}:{node.lineno}")
                # object construction that bypasses __init__
                if isinstance(node, ast.Call) and isinstance(node.func, ast.Attribute) \
                        and node.func.attr == "__new__" and node.args \
                        and isinstance(node.args[0], ast.Name) and node.args[0].id == "Char":
                    bad("Char built without __init__", f"{rel}:{node.lineno}")
                # variable data to write_raw
                if isinstance(node, ast.Call):
                    f = node.func
                    nm = f.attr if isinstance(f, ast.Attribute) else f.id if isinstance(f, ast.Name) else None
                    if nm == "write_raw" and not rel.startswith("output" + os.sep):
                        const = bool(node.args) and isinstance(node.args[0], ast.Constant)
                        fn_ = enclosing(node, (ast.FunctionDef, ast.AsyncFunctionDef))
                        # innermost enclosing def for aliases inside nested functions
                        outer = fn_
                        while outer is not None and (os.path.basename(rel), outer.name) not in ALLOWED_RAW_SITES:
                            outer = enclosing(outer, (ast.FunctionDef, ast.AsyncFunctionDef))
                        if not const and outer is None:
                            bad("variable data written raw at an unknown site",
                                f"{rel}:{node.lineno} in {fn_.name if fn_ else '<module>'}")
            if rel == os.path.join("layout", "screen.py"):
                ok_cache = False
                for node in ast.walk(tree):
                    tgt = None
                    if isinstance(node, ast.AnnAssign) and isinstance(node.target, ast.Name):
                        tgt, val = node.target.id, node.value
                    elif isinstance(node, ast.Assign) and len(node.targets) == 1 and isinstance(node.targets[0], ast.Name):
                        tgt, val = node.targets[0].id, node.value
                    if tgt == "_CHAR_CACHE":
                        ok_cache = isinstance(val, ast.Call) and getattr(val.func, "id", "") == "FastDictCache" \
                            and val.args and isinstance(val.args[0], ast.Name) and val.args[0].id == "Char"
                if not ok_cache:
                    bad("_CHAR_CACHE is not FastDictCache(Char, ...)", rel)
            # cell stores
            if rel.startswith("layout" + os.sep) or rel == "renderer.py":
                v += scan_cell_stores(tree, rel, parents)
    # the pending-key display (_show_key_processor_key_buffer) builds a cell from KeyPress.data when
    # get_cwidth(data) == 1; multi-character strings bypass display_mappings, so no input sequence of
    # width 1 may contain a control character other than ESC (which the writer replaces)
    from prompt_toolkit.input.ansi_escape_sequences import ANSI_SEQUENCES
    for k in ANSI_SEQUENCES:
        if len(k) > 1 and get_cwidth(k) == 1 and has_control(k.replace("\x1b", "")):
            bad("multi-character key data of width 1 would be displayed unmapped", repr(k))
    # dynamic counterpart of the _CHAR_CACHE pin
    c = _CHAR_CACHE["\x1b", "x"]
    if type(c) is not Char or c.char != Char("\x1b", "x").char:
        bad("_CHAR_CACHE does not build cells with Char.__init__", repr(c))
    return v


def scan_cell_stores(tree, rel, parents):
    """`<buffer row>[x] = value`: value must be _CHAR_CACHE[...] / Char(...) / a local bound to one
    of those / a cell read from a screen buffer."""
    v = []
    for fn in ast.walk(tree):
        if not isinstance(fn, (ast.FunctionDef, ast.AsyncFunctionDef)):
            continue
        buf_names, cell_names, cache_names = set(), set(), {"_CHAR_CACHE"}

        def mentions_buf(e):
            for n in ast.walk(e):
                if isinstance(n, ast.Attribute) and n.attr == "data_buffer":
                    return True
                if isinstance(n, ast.Name) and n.id in buf_names:
                    return True
            return False

        def is_cell_expr(e):
            if isinstance(e, ast.Subscript):
                base = e.value
                if isinstance(base, ast.Name) and base.id in cache_names:
                    return True
                return mentions_buf(base)  # a cell read from a buffer
            if isinstance(e, ast.Call):
                f = e.func
                return (isinstance(f, ast.Name) and f.id == "Char") or (isinstance(f, ast.Attribute) and f.attr == "Char")
            if isinstance(e, ast.Name):
                return e.id in cell_names
            return False

        changed = True
        rounds = 0
        while changed and rounds < 6:
            changed = False
            rounds += 1
            for n in ast.walk(fn):
                pairs = []
                if isinstance(n, ast.Assign):
                    for t in n.targets:
                        pairs.append((t, n.value))
                elif isinstance(n, ast.AnnAssign) and n.value is not None:
                    pairs.append((n.target, n.value))
                elif isinstance(n, ast.For):
                    if mentions_buf(n.iter):
                        for t in ast.walk(n.target):
                            if isinstance(t, ast.Name) and t.id not in buf_names:
                                buf_names.add(t.id)
                                changed = True
                for t, val in pairs:
                    if not isinstance(t, ast.Name):
                        continue
                    if isinstance(val, ast.Name) and val.id in cache_names and t.id not in cache_names:
                        cache_names.add(t.id)
                        changed = True
                    elif is_cell_expr(val):
                        if t.id not in cell_names:
                            cell_names.add(t.id)
                            changed = True
                    elif mentions_buf(val) and t.id not in buf_names:
                        buf_names.add(t.id)
                        changed = True
        for n in ast.walk(fn):
            if isinstance(n, ast.Assign):
                for t in n.targets:
                    if isinstance(t, ast.Subscript) and mentions_buf(t.value) and not _is_escape_store(t):
                        if not is_cell_expr(n.value):
                            v.append({"signature": "source scan | screen cell not built by Char.__init__/_CHAR_CACHE",
                                      "msg": f"{rel}:{n.lineno} in {fn.name}: {ast.unparse(n)[:120]}"})
    # dedupe (nested functions are walked twice)
    seen, out = set(), []
    for x in v:
        if x["msg"] not in seen:
            seen.add(x["msg"])
            out.append(x)
    return out


def _is_escape_store(t):
    return any(isinstance(n, ast.Attribute) and n.attr == "zero_width_escapes" for n in ast.walk(t))


def ml_dwidth(case):
    return [f"dwidth {enc_str(t)}" for t in case["ops"]]


def il_dwidth(case):
    from prompt_toolkit.layout.screen import get_display_width
    return [str(get_display_width(t)) for t in case["ops"]]


def or_dwidth(case):
    """the scroll measure must agree with what _copy_body draws (sum of the cell widths)"""
    from prompt_toolkit.layout.screen import get_display_width
    for t in case["ops"]:
        drawn = sum(Char(c, "").width for c in t)
        if get_display_width(t) != drawn:
            return [{"signature": "get_display_width | differs from the width of the drawn cells",
                     "msg": f"{t!r}: {get_display_width(t)} != {drawn}"}]
    return []


def ml_tok(case):
    return [f"tok {enc_str(case['s'])}"]


def il_tok(case):
    return [enc_list([t for k, t in tokenize(case["s"]) if k == "c"], enc_str)]


GEN_SEQS = ["\x1b[0m", "\x1b[?25l", "\x1b[?7h", "\x1b[12C", "\x1b[A", "\x1b[K", "\x1b[J", "\r\n", "\r", "\x08",
            "\x1b[0;38;5;102;48;5;231;7m", "\x1b[?12l\x1b[?25h", "\x1b[2 q", "\x1b]133;A\x07", "\x1b]2;t\x1b\\"]


def gen_tok(rng):
    parts = []
    for _ in range(rng.randrange(0, 8)):
        k = rng.randrange(4)
        if k == 0:
            parts.append(rng.choice(GEN_SEQS))
        elif k == 1:
            parts.append(rand_hostile(rng, rng.randrange(1, 6)))
        elif k == 2:
            parts.append(rng.choice(["\x1b", "\x1b[", "\x1b[1;", "\x1b]0;", "\x1b(", "\x9b", "\x1b[1 ", "\x1bP", "\x1b\x1b"]))
        else:
            parts.append("".join(rng.choice(PRINTABLE[:19]) for _ in range(rng.randrange(1, 5))))
    return {"kind": "tok", "s": "".join(parts)}


# ------------------------------------------------------------------ byte-level kinds
def _flush_real(stream, text):
    from prompt_toolkit.output.flush_stdout import flush_stdout
    flush_stdout(stream, text)


def ml_enc(case):
    return [f"enc {codec_index(e)} {enc_str(t)}" for e, _err, t in case["ops"]]


def il_enc(case):
    out = []
    for e, err, t in case["ops"]:
        st, raw = binary_stream(e, err)
        _flush_real(st, t)
        out.append(enc_bytes(raw.getvalue()))
    return out


def or_enc(case):
    v = []
    for e, err, t in case["ops"]:
        st, raw = binary_stream(e, err)
        _flush_real(st, t)
        check_wire("flush_stdout", raw.getvalue(), e, t, v)
        if v:
            v[-1]["msg"] += f" [stream errors={err!r}]"
            break
    return v


def encchars_text(case):
    return "".join(chr(cp) for cp in chunk_cps(case))


def ml_encchars(case):
    return [f"enc {codec_index(case['enc'])} {enc_str(encchars_text(case))}"]


def il_encchars(case):
    st, raw = binary_stream(case["enc"], case["errors"])
    _flush_real(st, encchars_text(case))
    return [enc_bytes(raw.getvalue())]


def or_encchars(case):
    v = []
    t = encchars_text(case)
    st, raw = binary_stream(case["enc"], case["errors"])
    _flush_real(st, t)
    check_wire("flush_stdout", raw.getvalue(), case["enc"], t, v)
    if v:
        # narrow the message down to the first offending character
        for ch in t:
            st, raw = binary_stream(case["enc"], case["errors"])
            _flush_real(st, ch)
            v1 = []
            check_wire("flush_stdout", raw.getvalue(), case["enc"], ch, v1)
            if v1:
                v1[0]["msg"] += f" [stream errors={case['errors']!r}]"
                return v1
    return v


def ml_decode(case):
    return [f"decode {codec_index(e)} {enc_bytes(bytes(b))}" for e, b in case["ops"]]


def il_decode(case):
    """CPython's own decoder as the reference for what a terminal of that encoding reads"""
    import codecs
    out = []
    for e, b in case["ops"]:
        name = codecs.lookup(e).name
        items = []
        if name == "utf-8":
            for ch in bytes(b).decode("utf-8", "surrogateescape"):
                o = ord(ch)
                items.append(f"x{o - 0xDC00}" if 0xDC80 <= o <= 0xDCFF else f"c{o}")
        else:
            for x in b:
                try:
                    items.append("c%d" % ord(bytes([x]).decode(name)))
                except UnicodeDecodeError:
                    items.append(f"x{x}")
        out.append(enc_list(items))
    return out


class _AttrStream:
    """the least a stream needs for flush_stdout; attributes present only as asked"""

    def __init__(self, has_enc, has_buf, enc, errors):
        self.raw = io.BytesIO()
        self.text = []
        if has_enc:
            self.encoding = enc
        if has_buf:
            self.buffer = self.raw
        self.errors = errors

    def write(self, s):
        self.text.append(s)

    def flush(self):
        pass


def _flush_case(op):
    he, hb, e, err, t, real = op
    if real:  # a real TextIOWrapper (has both attributes) or a real StringIO (no buffer)
        if hb:
            st, raw = binary_stream(e, err)
            _flush_real(st, t)
            return "b", raw.getvalue(), None
        sio = io.StringIO()
        _flush_real(sio, t)
        return "t", None, sio.getvalue()
    st = _AttrStream(he, hb, e, err)
    _flush_real(st, t)
    if st.raw.getvalue() or (he and hb):
        return "b", st.raw.getvalue(), "".join(st.text)
    return "t", None, "".join(st.text)


def ml_flush(case):
    out = []
    for he, hb, e, err, t, real in case["ops"]:
        if real:
            he = True
        out.append(f"flush {enc_bool(he)} {enc_bool(hb)} {codec_index(e) if e else 'N'} {enc_str(t)}")
    return out


def il_flush(case):
    out = []
    for op in case["ops"]:
        k, data, text = _flush_case(op)
        out.append("b " + enc_bytes(data) if k == "b" else "t " + enc_str(text))
    return out


def or_flush(case):
    v = []
    for op in case["ops"]:
        he, hb, e, err, t, real = op
        k, data, text = _flush_case(op)
        if k == "b":
            if text:
                v.append({"signature": "flush_stdout | wrote both text and bytes", "msg": repr(op)})
            check_wire("flush_stdout", data, e or "utf-8", t, v)
        elif text != t:
            v.append({"signature": "flush_stdout | text stream received something else than the data",
                      "msg": f"{t!r} -> {text!r}"})
        if v:
            break
    return v


class _ChunkStream:
    """text-only stream that records every write call (one per flush_stdout)"""

    def __init__(self):
        self.chunks = []

    def write(self, s):
        self.chunks.append(s)

    def flush(self):
        pass


def _run_out(case):
    from prompt_toolkit.output.plain_text import PlainTextOutput
    st = _ChunkStream()
    if case["vt"]:
        o = Vt100_Output(st, lambda: Size(rows=24, columns=80), term="xterm")
    else:
        o = PlainTextOutput(st)
    for op in case["ops"]:
        if op[0] == "w":
            o.write(op[1])
        elif op[0] == "r":
            o.write_raw(op[1])
        else:
            o.flush()
    return list(o._buffer), st.chunks


def ml_out(case):
    def f(op):
        return "f" if op[0] == "f" else f"{op[0]} {enc_str(op[1])}"
    return ["out %s %s" % (enc_bool(case["vt"]), enc_list(case["ops"], f))]


def il_out(case):
    buf, chunks = _run_out(case)
    return [enc_list(buf, enc_str) + " " + enc_list(chunks, enc_str)]


def or_out(case):
    buf, chunks = _run_out(case)
    got = "".join(chunks) + "".join(buf)
    raw = "".join(op[1] for op in case["ops"] if op[0] == "r")
    safe = "".join(op[1] for op in case["ops"] if op[0] == "w")
    v = []
    if len(got) != len(raw) + len(safe):
        v.append({"signature": "Output buffer | pieces lost or duplicated across flush", "msg": repr(case["ops"])[:300]})
    if case["vt"] and got.count("\x1b") != raw.count("\x1b"):
        v.append({"signature": "Vt100_Output.write | ESC in output", "msg": repr(case["ops"])[:300]})
    exp, i = [], 0
    for op in case["ops"]:
        if op[0] != "f":
            exp.append(op[1] if (op[0] == "r" or not case["vt"]) else op[1].replace("\x1b", "?"))
    if got != "".join(exp):
        v.append({"signature": "Output buffer | stream is not the pieces in call order", "msg": repr(case["ops"])[:300]})
    return v


# ------------------------------------------------------------------ the output grammar (independent regex form)
TOKEN_RE = re.compile(
    "(?:\x1b\\[|\x9b)[0-?]*[ -/]*[@-~]"                      # CSI
    "|\x1b[\\]PX^_][^\x07\x9c\x1b]*(?:\x07|\x9c|\x1b\\\\)"    # OSC / DCS / SOS / PM / APC ... BEL | ST | ESC \
    "|\x1b[ -/]+[0-~]"                                        # ESC with intermediates
    "|\x1b(?![\\[\\]PX^_])[0-~]"                              # two-character ESC sequence
    "|[\x00-\x1a\x1c-\x1f\x7f-\x9a\x9c-\x9f]",                # single C0 / DEL / C1 control
    re.S)


def py_parse(s):
    """the (unique) parse of a stream into control tokens and non-control characters, or None"""
    out, i = [], 0
    while i < len(s):
        if not is_control(s[i]):
            out.append(("c", s[i]))
            i += 1
            continue
        m = TOKEN_RE.match(s, i)
        if not m:
            return None
        out.append(("t", m.group(0)))
        i = m.end()
    return out


def ml_gram(case):
    return [f"istok {enc_str(t)}" for t in case["toks"]] + [f"parse {enc_str(t)}" for t in case["streams"]]


def il_gram(case):
    out = [enc_bool(TOKEN_RE.fullmatch(t) is not None) for t in case["toks"]]
    for t in case["streams"]:
        p = py_parse(t)
        out.append("N" if p is None else enc_list(p, lambda x: f"c{ord(x[1])}" if x[0] == "c" else "t " + enc_str(x[1])))
    return out


def or_gram(case):
    """the oracle's tokenizer and the grammar must agree on every well-formed stream"""
    v = []
    for t in case["streams"]:
        p = py_parse(t)
        if p is not None and [x[1] for x in p if x[0] == "t"] != [tk for k, tk in tokenize(t) if k == "c"]:
            v.append({"signature": "output grammar | tokenizer and grammar disagree on a well-formed stream",
                      "msg": repr(t)})
            break
    return v


def mutate(rng, t):
    if not t or rng.random() < 0.3:
        return t
    k = rng.randrange(4)
    i = rng.randrange(len(t))
    if k == 0:
        return t[:i] + t[i + 1:]
    if k == 1:
        return t[:i] + rng.choice(["\x1b", "[", "0", " ", "m", "\x07", "\x9c", "\\", "a", "\x9b", "]", "?", "~", "\x7f", "/"]) + t[i:]
    if k == 2:
        return t[:i]
    return t + rng.choice(GEN_SEQS)


def gen_gram(rng):
    toks = [mutate(rng, rng.choice(GEN_SEQS + ["\x1b(0", "\x1b#8", "\x1bc", "\x9b31m", "\x1bPq\x1b\\", "\x1b_G\x9c",
                                               "\x1b[?1;2$y", "\x1b[ q", "\x07", "\x9c", "\x1b\x1b\\"]))
            for _ in range(8)]
    streams = [gen_tok(rng)["s"] for _ in range(3)]
    wf = []
    for _ in range(rng.randrange(0, 8)):
        wf.append(rng.choice(GEN_SEQS) if rng.random() < 0.5 else
                  "".join(rng.choice(PRINTABLE[:19] + SURROGATES[:4]) for _ in range(rng.randrange(1, 5))))
    streams.append("".join(wf))
    return {"kind": "gram", "toks": toks, "streams": streams}


# ------------------------------------------------------------------ the other writers (emitters, title, dumb prompt, patch_stdout)
CALL_NAMES = ["es", "ea", "qa", "em", "dm", "eb", "db", "rk", "cpr", "bell", "hide", "show", "rshape", "eol", "ed",
              "ra", "dw", "ew", "ctitle"]


def enc_call(c):
    if c[0] == "title":
        return "title " + enc_str(c[1])
    return " ".join(str(x) for x in c)


def apply_call(o, c):
    from prompt_toolkit.cursor_shapes import CursorShape
    k = c[0]
    simple = {"es": o.erase_screen, "ea": o.enter_alternate_screen, "qa": o.quit_alternate_screen,
              "em": o.enable_mouse_support, "dm": o.disable_mouse_support, "eb": o.enable_bracketed_paste,
              "db": o.disable_bracketed_paste, "rk": o.reset_cursor_key_mode, "cpr": o.ask_for_cpr, "bell": o.bell,
              "hide": o.hide_cursor, "show": o.show_cursor, "rshape": o.reset_cursor_shape,
              "eol": o.erase_end_of_line, "ed": o.erase_down, "ra": o.reset_attributes, "dw": o.disable_autowrap,
              "ew": o.enable_autowrap, "ctitle": o.clear_title}
    if k in simple:
        simple[k]()
    elif k == "goto":
        o.cursor_goto(c[1], c[2])
    elif k == "up":
        o.cursor_up(c[1])
    elif k == "down":
        o.cursor_down(c[1])
    elif k == "fwd":
        o.cursor_forward(c[1])
    elif k == "back":
        o.cursor_backward(c[1])
    elif k == "shape":
        o.set_cursor_shape(list(CursorShape)[c[1]])
    elif k == "title":
        o.set_title(c[1])
    else:
        raise ValueError(k)


def _calls_output(case):
    sio = io.StringIO()
    o = Vt100_Output(sio, lambda: Size(rows=24, columns=80), term="linux" if case.get("silent") else "xterm",
                     enable_bell=case.get("bell", True))
    return o, sio


def run_calls(case):
    o, sio = _calls_output(case)
    for c in case["ops"]:
        apply_call(o, c)
    o.flush()
    return sio.getvalue()


def ml_calls(case):
    return ["calls %s %s %s" % (enc_bool(case.get("bell", True)), enc_bool(case.get("silent", False)),
                                enc_list(case["ops"], enc_call))]


def il_calls(case):
    return [enc_str(run_calls(case))]


TITLE_TOKEN = re.compile("\x1b\\]2;[^\x00-\x1f\x7f-\x9f]*\x07", re.S)
TITLE_FRAME = ("\x1b]2;", "\x07")


def title_violation(term, title):
    """set_title judged on the real code: what is between the `ESC ] 2 ;` frame and the closing BEL must not
    contain any C0 / DEL / C1 character, whatever the title is"""
    sio = io.StringIO()
    o = Vt100_Output(sio, lambda: Size(rows=24, columns=80), term=term)
    o.set_title(title)
    o.flush()
    got = sio.getvalue()
    if got == "" and term in ("linux", "eterm-color"):
        return None
    pre, suf = TITLE_FRAME
    if not (got.startswith(pre) and got.endswith(suf) and len(got) >= len(pre) + len(suf)):
        return {"signature": "Vt100_Output.set_title | output is not ESC ] 2 ; <title> BEL",
                "msg": f"set_title({title!r}) wrote {got!r}"}
    body = got[len(pre):len(got) - len(suf)]
    if has_control(body):
        bad_cp = next(c for c in body if is_control(c))
        return {"signature": "Vt100_Output.set_title | control character inside the title sequence",
                "msg": f"set_title({title!r}) wrote {got!r}: U+{ord(bad_cp):04X} inside the title sequence"}
    return None


def or_calls(case):
    """everything an emitter writes is the renderer's own repertoire: complete control tokens, pure ASCII
    (the title text itself excepted), nothing between them; set_title never lets a control character of the
    title through"""
    v = []
    term = "linux" if case.get("silent") else "xterm"
    for c in case["ops"]:
        if c[0] == "title":
            x = title_violation(term, c[1])
            if x:
                return [x]
    text = run_calls(case)
    titles = [c[1] for c in case["ops"] if c[0] == "title"]
    for kind, tk in tokenize(text):
        if kind == "t":
            v.append({"signature": "Vt100_Output emitters | text outside a control sequence", "msg": repr(text)[:300]})
            break
        if not (REPERTOIRE.fullmatch(tk) or TITLE_TOKEN.fullmatch(tk) or tk in ("\x07",)):
            v.append({"signature": "Vt100_Output emitters | control token outside the renderer's repertoire",
                      "msg": f"{tk!r} in {text[:200]!r}"})
            break
    if not titles and not text.isascii():
        v.append({"signature": "Vt100_Output emitters | non-ASCII emitter output", "msg": repr(text)[:300]})
    return v


def run_renderer(case):
    from prompt_toolkit.renderer import Renderer
    sio = io.StringIO()
    o = Vt100_Output(sio, lambda: Size(rows=24, columns=80), term="xterm")
    r = Renderer(ui_style(), o, full_screen=False)   # the constructor runs reset(_scroll=True)
    for c in case["pre"]:
        apply_call(o, c)
    o.flush()
    sio.seek(0)
    sio.truncate()
    r._in_alternate_screen, r._mouse_support_enabled, r._bracketed_paste_enabled = case["flags"]
    r._cursor_pos = Point(x=case["pos"][0], y=case["pos"][1])
    if case["erase"]:
        r.erase(leave_alternate_screen=case["leave"])
    else:
        r.reset(leave_alternate_screen=case["leave"])
    return sio.getvalue(), (r._in_alternate_screen, r._mouse_support_enabled, r._bracketed_paste_enabled)


def ml_renderer(case):
    pre = [["rshape"], ["show"]] + case["pre"]   # what the constructor's reset() did to the output object
    return ["renderer %s %s %s %s %d %d %s %s" % (
        enc_bool(case["erase"]), enc_bool(case["flags"][0]), enc_bool(case["flags"][1]), enc_bool(case["flags"][2]),
        case["pos"][0], case["pos"][1], enc_bool(case["leave"]), enc_list(pre, enc_call))]


def il_renderer(case):
    text, fl = run_renderer(case)
    return [f"{enc_str(text)} {enc_bool(fl[0])} {enc_bool(fl[1])} {enc_bool(fl[2])}"]


def or_renderer(case):
    text, _ = run_renderer(case)
    v = []
    for kind, tk in tokenize(text):
        if kind == "t" or not REPERTOIRE.fullmatch(tk):
            v.append({"signature": "Renderer.reset/erase | output outside the renderer's repertoire",
                      "msg": f"{tk!r} in {text!r}"})
            break
    return v


def run_dumb(case):
    """the real PromptSession._dumb_prompt on a real Vt100_Output(term='dumb'); returns what each event wrote"""
    from prompt_toolkit import PromptSession
    from prompt_toolkit.application.current import set_app
    from prompt_toolkit.document import Document
    from prompt_toolkit.input import DummyInput

    res = []

    async def main():
        if case.get("wire"):
            stream, raw = binary_stream(case["wire"]["enc"], case["wire"]["errors"])
        else:
            stream = raw = io.StringIO()
        out = RecOutput(stream, lambda: Size(rows=24, columns=80), term="dumb")
        s = PromptSession(message=to_ft(case["message"]), input=DummyInput(), output=out)
        out.flush()
        n = len(out.pieces)
        with s._dumb_prompt(s.message) as app:
            res.append("".join(p for _, p in out.pieces[n:]))
            n = len(out.pieces)
            with set_app(app):
                for text, cur in case["docs"]:
                    s.default_buffer.set_document(Document(text, min(cur, len(text))), bypass_readonly=True)
                    res.append("".join(p for _, p in out.pieces[n:]))
                    n = len(out.pieces)
        res.append("".join(p for _, p in out.pieces[n:]))
        return out, raw

    out, raw = asyncio.run(main())
    return res, out, raw


def dumb_events(case):
    """the events the model is given: a text-change event only fires when the text really changed"""
    evs = [("s", to_ft(case["message"]))]
    prev = ""
    for text, cur in case["docs"]:
        cur = min(cur, len(text))
        if text != prev:
            evs.append(("c", text[:cur]))
        else:
            evs.append(None)
        prev = text
    evs.append(("f",))
    return evs


def ml_dumb(case):
    def f(e):
        if e[0] == "s":
            ft = e[1]
            frs = [["", ft]] if isinstance(ft, str) else ft
            return "s " + enc_frags(frs)
        if e[0] == "c":
            return "c " + enc_str(e[1])
        return "f"
    return ["dumb " + enc_list([e for e in dumb_events(case) if e is not None], f)]


def il_dumb(case):
    res, _, _ = run_dumb(case)
    evs = dumb_events(case)
    out = []
    for e, r in zip(evs, res):
        if e is None:
            if r != "":
                return ["impl: output without a text change: " + repr(r)]
            continue
        out.append(r)
    return [enc_list(out, enc_str)]


def or_dumb(case):
    """the property on the dumb-terminal path: the prompt message and the typed text must not put a control
    character on the terminal (newlines of the text itself and the final CR LF are the prompt's own)"""
    res, out, raw = run_dumb(case)
    v = []
    text = "".join(res)
    if "\x1b" in text:
        v.append({"signature": "PromptSession._dumb_prompt | ESC through the safe writer", "msg": repr(text)[:300]})
    body = "".join(res[:-1]).replace("\n", "")
    if has_control(body):
        v.append({"signature": "PromptSession._dumb_prompt | control character written to a dumb terminal",
                  "msg": f"message {case['message']!r} docs {case['docs']!r} -> {text!r}"})
    if res[-1] != "\r\n":
        v.append({"signature": "PromptSession._dumb_prompt | line ending", "msg": repr(res[-1])})
    if case.get("wire"):
        full = "".join(p for _, p in out.pieces)
        check_wire("PromptSession._dumb_prompt", raw.getvalue(), case["wire"]["enc"], full, v)
    return v


def run_proxy(case):
    from prompt_toolkit.application.current import create_app_session
    from prompt_toolkit.input import DummyInput
    from prompt_toolkit.patch_stdout import StdoutProxy
    out, buf = new_output()
    with create_app_session(input=DummyInput(), output=out):
        p = StdoutProxy(raw=case["raw"])
        try:
            p._write_and_flush(None, case["text"])
        finally:
            p.close()
    return out, buf.getvalue()


def ml_proxy(case):
    return [f"proxy {enc_bool(case['raw'])} {enc_str(case['text'])}"]


def il_proxy(case):
    out, text = run_proxy(case)
    return [enc_str(text) + " " + enc_pieces(out.pieces)]


def or_proxy(case):
    out, text = run_proxy(case)
    v = []
    if not case["raw"]:
        if text.count("\x1b") != sum(p.count("\x1b") for k, p in out.pieces if k == "r"):
            v.append({"signature": "patch_stdout | ESC through the safe print path", "msg": f"{case['text']!r} -> {text!r}"})
        if any(k == "r" and not REPS.fullmatch(p) for k, p in out.pieces if p):
            v.append({"signature": "patch_stdout | raw write outside the renderer's repertoire", "msg": repr(out.pieces)[:300]})
    if "".join(p for _, p in out.pieces) != text:
        v.append({"signature": "patch_stdout | output bypassed write/write_raw", "msg": repr(text)[:300]})
    return v


def rand_call(rng, titles=True):
    k = rng.randrange(12)
    if k < 5:
        return [rng.choice(CALL_NAMES)]
    if k == 5:
        return ["goto", rng.choice([0, 1, 7, 24, 120, 3000]), rng.choice([0, 1, 9, 80, 1000])]
    if k < 9:
        return [rng.choice(["up", "down", "fwd", "back"]), rng.choice([0, 1, 2, 3, 9, 10, 11, 99, 100, 12345])]
    if k == 9:
        return ["shape", rng.randrange(0, 7)]
    if k == 10 and titles:
        return ["title", rng.choice(["", "hi", "vim - a.txt", "世界 é", "a\x1bb\x07c", "\udc9bx", "x" * 40])]
    return [rng.choice(["hide", "show", "rshape"])]


def gen_out_writers(tier, rng):
    quick = tier == "quick"
    # every emitter once, every amount form, every shape, in both states
    yield {"kind": "calls", "ops": [[n] for n in CALL_NAMES] + [[n] for n in CALL_NAMES]}
    yield {"kind": "calls", "ops": [[d, n] for d in ("up", "down", "fwd", "back") for n in (0, 1, 2, 9, 10, 99, 100, 1234567)]}
    yield {"kind": "calls", "ops": [["shape", i] for i in range(7)] + [["rshape"], ["rshape"], ["shape", 0], ["rshape"]]}
    yield {"kind": "calls", "ops": [["goto", r, c] for r in (0, 1, 10, 255) for c in (0, 1, 80, 1000)]}
    yield {"kind": "calls", "silent": True, "ops": [["title", "x"], ["ctitle"], ["bell"]]}
    yield {"kind": "calls", "bell": False, "ops": [["bell"], ["title", "x"], ["ctitle"]]}
    for _ in range(80 if quick else 3000):
        yield {"kind": "calls", "bell": rng.random() < 0.8, "silent": rng.random() < 0.2,
               "ops": [rand_call(rng) for _ in range(rng.randrange(0, 12))]}
    # titles: every control code point alone, in the middle and at both ends; all pairs of {ESC, BEL, ST, CSI,
    # DEL, U+009F, NUL, a}; then hostile text
    ctl = list(range(0x20)) + list(range(0x7F, 0xA0))
    for cp in ctl:
        yield {"kind": "calls", "small": True,
               "ops": [["title", chr(cp)], ["title", "a" + chr(cp) + "b"], ["title", chr(cp) + "2J"], ["title", "t" + chr(cp)]]}
    import itertools
    for a_, b_ in itertools.product("\x1b\x07\x9c\x9b\x7f\x9f\x00a", repeat=2):
        yield {"kind": "calls", "small": True, "ops": [["title", "x" + a_ + b_ + "y"]]}
    for _ in range(40 if quick else 2000):
        yield {"kind": "calls", "silent": rng.random() < 0.1, "ops": [["title", rand_hostile(rng, rng.randrange(0, 8))]]}
    # Renderer.reset / erase: all flag combinations
    for erase in (False, True):
        for fl in range(8):
            for leave in (False, True):
                yield {"kind": "renderer", "erase": erase, "flags": [bool(fl & 1), bool(fl & 2), bool(fl & 4)],
                       "leave": leave, "pos": [rng.choice([0, 1, 2, 17]), rng.choice([0, 1, 2, 11])],
                       "pre": [rand_call(rng, titles=False) for _ in range(rng.randrange(0, 4))]}
    # the dumb-terminal prompt
    for msg in ("> ", "\x1b[31m> ", [["", "a"], [ZWE, "\x1b]133;A\x07"], ["class:x", "b\n> "]]):
        yield {"kind": "dumb", "message": msg, "docs": [["a", 1], ["ab", 2], ["ab", 1], ["a\x1bb", 2], ["", 0]]}
    for i in range(30 if quick else 1000):
        docs, t = [], ""
        for _ in range(rng.randrange(0, 5)):
            k = rng.randrange(4)
            if k == 0 and t:
                t = t[:-1]
            elif k == 1:
                t = t + rng.choice(PRINTABLE[:12])
            elif k == 2:
                t = t + rand_hostile(rng, 1)
            docs.append([t, rng.choice([len(t), len(t), max(0, len(t) - 1), 0])])
        c = {"kind": "dumb", "message": rand_ft(rng, 6) if rng.random() < 0.7 else rand_hostile(rng, 5), "docs": docs}
        if i % 3 == 0:
            c["wire"] = rand_wire(rng)
        yield c
    # print_formatted_text on a PlainTextOutput (text stream and binary streams)
    for i in range(40 if quick else 1500):
        c = {"kind": "printplain", "frags": rand_ft(rng, 8)}
        if i % 2 == 0:
            c["wire"] = rand_wire(rng)
        yield c
    # patch_stdout
    for raw in (False, True):
        yield {"kind": "proxy", "raw": raw, "text": "a\x1b[2J\x9b31m\udc9bb\n"}
    for _ in range(30 if quick else 1000):
        yield {"kind": "proxy", "raw": rng.random() < 0.3, "text": rand_hostile(rng, rng.randrange(0, 10))}


def run_printplain(case):
    from prompt_toolkit.output.plain_text import PlainTextOutput
    from prompt_toolkit.renderer import print_formatted_text
    w = case.get("wire")
    if w is None:
        stream = raw = io.StringIO()
    else:
        stream, raw = binary_stream(w["enc"], w["errors"])
    o = PlainTextOutput(stream)
    print_formatted_text(o, [(s, t) for s, t in case["frags"]], ui_style())
    return raw.getvalue()


def ml_printplain(case):
    w = case.get("wire")
    return ["printplain %s %s" % ("N" if w is None else codec_index(w["enc"]),
                                  enc_list(case["frags"], lambda f: f"{enc_str(f[0])} {enc_str(f[1])}"))]


def il_printplain(case):
    r = run_printplain(case)
    return ["t " + enc_str(r) if isinstance(r, str) else "b " + enc_bytes(r)]


def or_printplain(case):
    """PlainTextOutput adds no control sequence of its own (it does not escape either: not a terminal path)"""
    r = run_printplain(case)
    v = []
    src = "".join(t for _, t in case["frags"])
    if isinstance(r, bytes):
        expect = "".join(t if ZWE in s else t.replace("\r", "").replace("\n", "\r\n") for s, t in case["frags"])
        seen = check_wire("print_formatted_text(PlainTextOutput)", r, case["wire"]["enc"], expect, v)
        if seen is None:
            return v
        r = seen
    extra = [c for c in r if is_control(c) and c != "\r" and c not in src]
    if extra or r.count("\x1b") > src.count("\x1b"):
        v.append({"signature": "PlainTextOutput | control character that is not in the printed text",
                  "msg": f"{case['frags']!r} -> {r!r}"})
    return v


# ------------------------------------------------------------------ template interpolation, end to end
# (that ANSI(...).format / % and HTML(...).format make every interpolated value inert is C18's theorem
#  `ansiFormat_inert`; here its consequence is checked where C10 observes: at the terminal)
TPL_ANSI = ["\x1b[1m{}\x1b[0m $ ", "{} > ", "\x01\x1b]133;A\x07\x02\x1b[32m{}\x1b[0m> ", "[{:>12}] ", "cwd: {} \x1b[7m{}\x1b[0m"]
TPL_ANSI_MOD = ["\x1b[1m%s\x1b[0m $ ", "%s > ", "\x01\x1b]133;A\x07\x02%s> ", "%s:%s "]
TPL_HTML = ["<b>{}</b> $ ", "<style fg='ansired'>{}</style> &gt; ", "{} <u>{}</u>"]
TPL_VALUES = ["proj\x01\x1b]0;pwned\x07\x9b2J\x02dir", "\x01\x1b[2J\x02", "a\x1b[31mb", "\x9b2J", "\x07", "x\x01y",
              "\x02\x01\x1b]52;c;QQ==\x07\x02", "\x1b]2;title\x07", "plain", "\x08\x08", "<b>&amp;\x01\x1bc\x02"]


class _StrObj:
    def __init__(self, t):
        self.t = t

    def __str__(self):
        return self.t


class _FmtObj:
    def __init__(self, t):
        self.t = t

    def __format__(self, spec):
        return self.t

    def __str__(self):
        return "fmtobj"


def tpl_value(vkind, vtext):
    import pathlib
    if vkind == "str":
        return vtext
    if vkind == "strobj":
        return _StrObj(vtext)
    if vkind == "fmtobj":
        return _FmtObj(vtext)
    if vkind == "path":
        return pathlib.PurePosixPath(vtext)
    if vkind == "exc":
        return ValueError(vtext)
    if vkind == "int":
        return len(vtext) * 37 - 5
    if vkind == "float":
        return len(vtext) / 7.0
    raise ValueError(vkind)


def tpl_build(case, value):
    from prompt_toolkit.formatted_text import ANSI, HTML
    t, n = case["template"], case["nfields"]
    args = (value,) * n
    if case["fmt"] == "ansi_format":
        return ANSI(t).format(*args)
    if case["fmt"] == "ansi_mod":
        return ANSI(t) % (args if n > 1 else value)
    return HTML(t).format(*args)


def tpl_frags(case, value):
    from prompt_toolkit.formatted_text import to_formatted_text
    return [[s, t] for s, t, *_ in to_formatted_text(tpl_build(case, value))]


def or_tpl(case):
    """`template.format(value)` displayed / printed: nothing of the VALUE reaches the terminal raw.  The only
    zero-width escapes that may be written raw are the ones the TEMPLATE marks itself (found by formatting a
    harmless value)."""
    v = []
    try:
        allowed = [t for s, t in tpl_frags(case, "v") if ZWE in s]
        frags = tpl_frags(case, tpl_value(case["vkind"], case["vtext"]))
    except Exception:
        return v   # a template / value the formatter rejects is not displayed at all
    site = {"ansi_format": "ANSI.format", "ansi_mod": "ANSI %", "html_format": "HTML.format"}[case["fmt"]]
    extra = [t for s, t in frags if ZWE in s and t not in allowed]
    if extra:
        v.append({"signature": f"{site} | interpolated value became a zero-width escape nobody marked",
                  "msg": f"{case['template']!r} with {case['vkind']} {case['vtext']!r} -> raw payload {extra[0]!r}"})
    sub = {"wire": case.get("wire"), "_zw": allowed}
    if case["surface"] == "print":
        vv = or_print(dict(sub, kind="print", frags=frags))
    else:
        base = {"kind": "e2e_prompt", "message": "> ", "texts": ["ok"], "toolbar": None, "completions": [],
                "multiline": False, "wrap": True, "rows": 10, "cols": 60, "height_known": True}
        base[case["surface"]] = frags
        vv = e2e_prompt(dict(base, **sub))
    for x in vv:
        x = dict(x, signature=f"{site} -> {x['signature']}")
        v.append(x)
    return v


def gen_tpl(tier, rng):
    quick = tier == "quick"
    kinds = ["str", "strobj", "fmtobj", "path", "exc", "int", "float"]
    fams = [("ansi_format", TPL_ANSI), ("ansi_mod", TPL_ANSI_MOD), ("html_format", TPL_HTML)]

    def nfields(fmt, t):
        return t.count("%s") if fmt == "ansi_mod" else t.count("{")

    # exhaustive: every value kind x the three builders x the three surfaces, on the witness value
    i = 0
    for fmt, tpls in fams:
        for vk in kinds:
            for surface in ("message", "toolbar", "print"):
                t = tpls[i % len(tpls)]
                c = {"kind": "tpl", "fmt": fmt, "template": t, "nfields": nfields(fmt, t), "vkind": vk,
                     "vtext": TPL_VALUES[i % 3], "surface": surface}
                if i % 2:
                    c["wire"] = {"enc": ["utf-8", "latin-1", "ascii"][i % 3], "errors": "surrogateescape"}
                i += 1
                yield c
    for _ in range(40 if quick else 2000):
        fmt, tpls = rng.choice(fams)
        t = rng.choice(tpls)
        c = {"kind": "tpl", "fmt": fmt, "template": t, "nfields": nfields(fmt, t), "vkind": rng.choice(kinds),
             "vtext": rng.choice(TPL_VALUES) if rng.random() < 0.6 else rand_hostile(rng, rng.randrange(1, 8)),
             "surface": rng.choice(["message", "toolbar", "print"])}
        if rng.random() < 0.4:
            c["wire"] = rand_wire(rng)
        yield c


# ------------------------------------------------------------------ create_output(): which writer gets the terminal
def _ob(x):
    return "N" if x is None else ("1" if x else "0")


def ml_mkout(case):
    from prompt_toolkit.utils import is_dumb_terminal
    return [f"mkout {_ob(a)} {_ob(so)} {_ob(se)} {enc_bool(p)} {enc_bool(is_dumb_terminal(t or ''))}"
            for a, so, se, p, t in case["ops"]]


def il_mkout(case):
    import gen_c10
    return [gen_c10.select_probe(a, so, se, p, t) for a, so, se, p, t in case["ops"]]


def or_mkout(case):
    import gen_c10
    v = []
    for a, so, se, p, t in case["ops"]:
        cls = gen_c10.select_probe(a, so, se, p, t)
        chosen = a if a is not None else so
        if a is None and p and so is not True and se is True:
            chosen = se
        if chosen is True and cls != "Vt100_Output":
            v.append({"signature": "create_output | a terminal stream was given a writer that does not escape",
                      "msg": f"stdout={a} sys.stdout={so} sys.stderr={se} always_prefer_tty={p} TERM={t!r} -> {cls}"})
            break
    return v


def _read_all(fd, first_timeout=1.0):
    """everything that arrives on fd; every wait has a timeout"""
    import select
    data, timeout = b"", first_timeout
    while True:
        r, _, _ = select.select([fd], [], [], timeout)
        if not r:
            break
        try:
            chunk = os.read(fd, 65536)
        except OSError:
            break
        if not chunk:
            break
        data += chunk
        timeout = 0.05
    return data


def run_pty(case, frags):
    """the REAL create_output() on a real pty slave (tty) or on the write end of a pipe, with $TERM set as
    asked; `frags` printed through renderer.print_formatted_text; returns (class name, bytes that arrived)"""
    import tty as _tty

    from prompt_toolkit.output.defaults import create_output
    from prompt_toolkit.renderer import print_formatted_text
    old_term = os.environ.get("TERM")
    rfd = wfd = None
    f = None
    try:
        if case["tty"]:
            rfd, wfd = os.openpty()
            _tty.setraw(wfd)        # no output post-processing, no echo
        else:
            rfd, wfd = os.pipe()
        if case["term"] is None:
            os.environ.pop("TERM", None)
        else:
            os.environ["TERM"] = case["term"]
        f = os.fdopen(wfd, "w", encoding="utf-8", errors="replace", closefd=True)
        wfd = None
        out = create_output(stdout=f)
        print_formatted_text(out, [(s, t) for s, t in frags], ui_style())
        out.flush()
        data = _read_all(rfd, 1.0 if case["tty"] else 0.3)
        return type(out).__name__, data
    finally:
        if old_term is None:
            os.environ.pop("TERM", None)
        else:
            os.environ["TERM"] = old_term
        for closer in ((lambda: f.close()) if f is not None else None,
                       (lambda: os.close(wfd)) if wfd is not None else None,
                       (lambda: os.close(rfd)) if rfd is not None else None):
            if closer is not None:
                try:
                    closer()
                except OSError:
                    pass


def ml_pty(case):
    from prompt_toolkit.utils import is_dumb_terminal
    return [f"mkout {_ob(case['tty'])} N N 0 {enc_bool(is_dumb_terminal(case['term'] or ''))}"]


def il_pty(case):
    return [run_pty(case, [["", "x"]])[0]]


def or_pty(case):
    """on a real terminal (pty) the text printed through the safe print path must not deliver its ESC: the bytes
    that arrive at the master side are the same as for the text with every ESC already replaced by '?'; on a
    pipe / file plain text is fine by design"""
    v = []
    frags = case["frags"]
    cls, data = run_pty(case, frags)
    if not case["tty"]:
        return v
    if cls != "Vt100_Output":
        v.append({"signature": "create_output | a terminal stream was given a writer that does not escape",
                  "msg": f"real pty, TERM={case['term']!r} -> {cls}"})
    _, ref = run_pty(case, [[s, t.replace("\x1b", "?")] for s, t in frags])
    if data != ref:
        v.append({"signature": "print_formatted_text | ESC through the safe print path",
                  "msg": f"real pty, TERM={case['term']!r}, writer {cls}: {frags!r} arrived as {data[:200]!r}"})
    return v


def gen_select(tier, rng):
    import gen_c10
    quick = tier == "quick"
    ops = [[a, so, se, p, t] for a in (None, True, False) for so in (None, True, False) for se in (None, True, False)
           for p in (False, True) for t in gen_c10.SELECT_TERMS + ["Unknown", "vt100", ""]]
    for i in range(0, len(ops), 54):
        yield {"kind": "mkout", "ops": ops[i:i + 54], "small": True}
    texts = ["a\x1b[2Jb", "\x1b]0;EVIL\x07", "\x1bP+q544e\x1b\\", "plain", "\x1b"]
    for tty_ in (True, False):
        for term in ("xterm", "dumb", "unknown", None):
            yield {"kind": "pty", "tty": tty_, "term": term, "small": True,
                   "frags": [["", texts[(len(term or "") + tty_) % len(texts)]], ["class:a", "\x1b[31mred\x1b]2;t\x07"]]}
    for _ in range(8 if quick else 200):
        fr = [[s, t] for s, t in rand_ft(rng, 6, zwe_ok=False)]
        yield {"kind": "pty", "tty": rng.random() < 0.8, "term": rng.choice(["xterm", "dumb", "unknown", None, "linux"]),
               "frags": [[s, t[:60]] for s, t in fr]}


# ------------------------------------------------------------------ dispatch
KINDS = {
    "chars": (ml_chars, il_chars, or_chars),
    "str": (ml_str, il_str, or_str),
    "write": (ml_write, il_write, or_write),
    "print": (ml_print, il_print, or_print),
    "render": (ml_render, il_render, or_render),
    "tok": (ml_tok, il_tok, lambda c: []),
    "dwidth": (ml_dwidth, il_dwidth, or_dwidth),
    "gram": (ml_gram, il_gram, or_gram),
    "calls": (ml_calls, il_calls, or_calls),
    "renderer": (ml_renderer, il_renderer, or_renderer),
    "dumb": (ml_dumb, il_dumb, or_dumb),
    "proxy": (ml_proxy, il_proxy, or_proxy),
    "printplain": (ml_printplain, il_printplain, or_printplain),
    "tpl": (lambda c: [], lambda c: [], or_tpl),
    "mkout": (ml_mkout, il_mkout, or_mkout),
    "pty": (ml_pty, il_pty, or_pty),
    "enc": (ml_enc, il_enc, or_enc),
    "encchars": (ml_encchars, il_encchars, or_encchars),
    "decode": (ml_decode, il_decode, lambda c: []),
    "flush": (ml_flush, il_flush, or_flush),
    "out": (ml_out, il_out, or_out),
    "e2e_prompt": (lambda c: [], lambda c: [], e2e_prompt),
    "e2e_full": (lambda c: [], lambda c: [], e2e_full),
    "ast": (lambda c: [], lambda c: [], lambda c: ast_scan()),
}


def model_lines(case):
    return KINDS[case["kind"]][0](case)


def impl_lines(case):
    return KINDS[case["kind"]][1](case)


def oracle(case):
    v = KINDS[case["kind"]][2](case)
    seen, out = set(), []
    for x in v:
        if x["signature"] not in seen:
            seen.add(x["signature"])
            out.append(x)
    return out


# ------------------------------------------------------------------ generators
def rand_ft(rng, n, zwe_ok=True):
    """formatted text: list of [style, text] with hostile text and (optionally) explicit zero-width escapes"""
    out = []
    for _ in range(rng.randrange(1, 4)):
        if zwe_ok and rng.random() < 0.25:
            out.append([ZWE, rng.choice(["\x1b]133;A\x07", "\x1b]1337;x=1\x07", "\x1b[5 q"])])
        out.append([rng.choice(STYLES[:6]), rand_hostile(rng, rng.randrange(0, n))])
    return out


def cases(tier, rng):
    quick = tier == "quick"
    yield {"kind": "ast"}
    # ---- Char(c) over the code points
    if quick:
        step = 1024
        for lo in range(0, 0x3400, step):
            yield {"kind": "chars", "range": [lo, lo + step], "style": STYLES[(lo // step) % len(STYLES)],
                   "cache": (lo // step) % 2 == 1}
        edges = set()
        for a, b, _w in wc_edges():
            for cp in (a - 1, a, b, b + 1):
                if 0 <= cp < 0x110000:
                    edges.add(cp)
        edges = sorted(edges)
        for i in range(0, len(edges), 512):
            yield {"kind": "chars", "cps": edges[i:i + 512], "style": "class:a"}
        for _ in range(40):
            plane_hi = rng.choice([0x10000, 0x10000, 0x20000, 0x30000, 0x110000])
            yield {"kind": "chars", "cps": sorted(rng.randrange(0, plane_hi) for _ in range(1000)),
                   "style": rng.choice(STYLES)}
    else:
        step = 4096
        for lo in range(0, 0x110000, step):
            yield {"kind": "chars", "range": [lo, lo + step], "style": STYLES[(lo // step) % len(STYLES)],
                   "cache": (lo // step) % 7 == 3}
    if quick:
        # the lone surrogates (Python characters that are not Unicode scalar values)
        yield {"kind": "chars", "range": [0xD800, 0xDC00], "style": "class:a"}
        yield {"kind": "chars", "range": [0xDC00, 0xE000], "style": "", "cache": True}
    # every mapped character with every style (style suffix logic)
    for st in STYLES:
        yield {"kind": "chars", "range": [0, 0x100], "style": st, "cache": True}
    # ---- multi-character cell strings (merge results, re-styled cells)
    for _ in range(300 if quick else 5000):
        k = rng.randrange(4)
        if k == 0:
            s = rng.choice(PRINTABLE[:19]) + "".join(rng.choice(["́", "‍", "̀", "​"])
                                                     for _ in range(rng.randrange(1, 4)))
        elif k == 1:
            s = rng.choice(["^A", "^[", "<9b>", "^?", " "]) + rng.choice(["", "́", "‍"])
        elif k == 2:
            s = rand_hostile(rng, rng.randrange(0, 4))
        else:
            s = ""
        yield {"kind": "str", "s": s, "style": rng.choice(STYLES)}
    # ---- get_display_width (the horizontal-scroll measure of _copy_body)
    for lo in range(0, 0x100, 64):
        yield {"kind": "dwidth", "ops": [chr(i) for i in range(lo, lo + 64)]}
    for _ in range(60 if quick else 2000):
        yield {"kind": "dwidth", "ops": [rand_hostile(rng, rng.randrange(0, 8)) for _ in range(8)]}
    # ---- Vt100_Output.write
    yield {"kind": "write", "ops": ["\x1b\x1b", "", "a\x1bb\x1b", "\x1b[2J\x1b]0;t\x07"]}
    for lo in range(0, 0x100, 32):
        yield {"kind": "write", "ops": [chr(i) for i in range(lo, lo + 32)]}
    for _ in range(100 if quick else 3000):
        yield {"kind": "write", "ops": [rand_hostile(rng, rng.randrange(0, 12)) for _ in range(rng.randrange(1, 5))]}
    # ---- the byte level: flush_stdout / encode(..., "replace") / the terminal's decoder / _buffer
    yield from gen_bytes(tier, rng)
    # ---- print_formatted_text (a third of them on a real binary stream)
    for i in range(150 if quick else 4000):
        c = {"kind": "print", "frags": rand_ft(rng, 10)}
        if i % 3 == 0:
            c["wire"] = rand_wire(rng)
        yield c
    # ---- Window._copy_body + _output_screen_diff + Vt100_Output
    yield from gen_small_render(tier)
    for i in range(600 if quick else 20000):
        c = gen_rand_render(rng)
        if i % 4 == 0:
            c["wire"] = rand_wire(rng)
        yield c
    # ---- the tokenizer the theorems use vs the oracle's tokenizer
    for _ in range(400 if quick else 20000):
        yield gen_tok(rng)
    # ---- the output grammar (recognisers + greedy parser) vs an independent regex form
    yield {"kind": "gram", "toks": list(GEN_SEQS) + [t[:i] for t in GEN_SEQS for i in range(len(t))],
           "streams": ["".join(GEN_SEQS), "a" + "".join(GEN_SEQS[:5]) + "世"]}
    for _ in range(200 if quick else 10000):
        yield gen_gram(rng)
    # ---- the other writers: emitters, titles, Renderer.reset/erase, dumb prompt, patch_stdout
    yield from gen_out_writers(tier, rng)
    # ---- template interpolation (ANSI.format / ANSI % / HTML.format of hostile values), end to end
    yield from gen_tpl(tier, rng)
    # ---- create_output(): which writer class gets a terminal / a pipe (fakes: all combinations; real ptys)
    yield from gen_select(tier, rng)
    # ---- end to end
    for i in range(24 if quick else 300):
        c = gen_e2e_prompt(rng, i)
        if i % 2 == 1:
            c["wire"] = rand_wire(rng)
        yield c
    for i in range(8 if quick else 100):
        c = gen_e2e_full(rng, i)
        if i % 2 == 1:
            c["wire"] = rand_wire(rng)
        yield c



# small-scope alphabet for the byte level: ASCII, lone surrogate (raw byte 0x9b after fsdecode), real C1 CSI,
# wide, ESC, a Latin-1 letter, the euro sign (cp1252 byte 0x80), a non-BMP character
SMALL_BYTES = ["a", "\udc9b", "\x9b", "世", "\x1b", "é", "€", "\U0001F600"]


def gen_bytes(tier, rng):
    import itertools
    quick = tier == "quick"
    names = codec_names()
    # exhaustive: all strings over SMALL_BYTES up to length 2 (quick) / 3 x every codec x every error handler
    # a real stream can be configured with
    maxlen = 2 if quick else 3
    texts = ["".join(t) for n in range(maxlen + 1) for t in itertools.product(SMALL_BYTES, repeat=n)]
    for e in names:
        for err in STREAM_ERRORS:
            yield {"kind": "enc", "ops": [[e, err, t] for t in texts], "small": True}
    # every code point through every codec (thorough) / U+0000-04FF, the surrogates, the code page's own
    # repertoire and a random sample (quick); the error handler configured on the stream rotates
    k = 0
    for e in names + ["ANSI_X3.4-1968", "UTF-8", "latin-1"]:
        if quick:
            chunks = [list(range(0, 0x500)), list(range(0xD800, 0xE000, 7)) + [0xDC80 + i for i in range(0x80)],
                      sorted(rng.randrange(0, 0x110000) for _ in range(1500))]
            if e in names[1:]:
                import gen_c10
                chunks.append([cp for cp, _b in gen_c10.charmap_tables(e)[0]])
            for ch in chunks:
                yield {"kind": "encchars", "cps": ch, "enc": e, "errors": STREAM_ERRORS[k % len(STREAM_ERRORS)]}
                k += 1
        elif e in names:
            step = 8192
            for lo in range(0, 0x110000, step):
                yield {"kind": "encchars", "range": [lo, lo + step], "enc": e,
                       "errors": STREAM_ERRORS[k % len(STREAM_ERRORS)]}
                k += 1
    for _ in range(150 if quick else 5000):
        yield {"kind": "enc", "ops": [[w["enc"], w["errors"], rand_hostile(rng, rng.randrange(0, 14))]
                                      for w in [rand_wire(rng) for _ in range(4)]]}
    # the terminal's decoder of the model vs CPython's decoder, on well-formed and ill-formed byte strings
    for _ in range(150 if quick else 5000):
        ops = []
        for _ in range(6):
            e = rng.choice(names)
            ops.append([e, list(rand_bytes(rng))])
        yield {"kind": "decode", "ops": ops}
    # flush_stdout: which attributes the stream has, what `encoding` is, real and minimal streams
    shapes = []
    for he in (False, True):
        for hb in (False, True):
            for e in (None, "", "utf-8", "latin-1", "ascii", "cp1252"):
                shapes.append((he, hb, e))
    for i, (he, hb, e) in enumerate(shapes):
        yield {"kind": "flush", "ops": [[he, hb, e, STREAM_ERRORS[(i + j) % len(STREAM_ERRORS)],
                                         rand_hostile(rng, rng.randrange(0, 10)), False] for j in range(3)]}
    for _ in range(40 if quick else 1000):
        w = rand_wire(rng)
        hb = rng.random() < 0.7
        yield {"kind": "flush", "ops": [[True, hb, w["enc"], w["errors"], rand_hostile(rng, rng.randrange(0, 10)), True]]}
    # the _buffer of Vt100_Output / PlainTextOutput: write / write_raw / flush sequences
    for n in range(4):
        for tup in itertools.product("wrf", repeat=n):
            for vt in (True, False):
                yield {"kind": "out", "vt": vt, "small": True,
                       "ops": [["f"] if t == "f" else [t, rng.choice(["", "a\x1b[m", "\x1b", "\udc9bx", "世"])] for t in tup]}
    for _ in range(60 if quick else 2000):
        ops = []
        for _ in range(rng.randrange(0, 10)):
            t = rng.choice("wwrrf")
            ops.append(["f"] if t == "f" else [t, rand_hostile(rng, rng.randrange(0, 5))])
        yield {"kind": "out", "vt": rng.random() < 0.7, "ops": ops}


def rand_bytes(rng):
    k = rng.randrange(6)
    if k == 0:
        return rand_hostile(rng, rng.randrange(0, 8)).encode("utf-8", "surrogatepass")
    if k == 1:
        b = rand_hostile(rng, rng.randrange(1, 8)).encode("utf-8", "replace")
        i = rng.randrange(0, len(b) + 1)
        return b[:i] + bytes([rng.randrange(256)]) + b[i + rng.randrange(0, 2):]
    if k == 2:
        return bytes(rng.choice([0x80, 0x9b, 0xbf, 0xc0, 0xc1, 0xc2, 0xdf, 0xe0, 0xed, 0xef, 0xf0, 0xf4, 0xf5, 0xff,
                                 0x41, 0x1b, 0xa0, 0x9f, 0x90, 0x8f]) for _ in range(rng.randrange(0, 7)))
    if k == 3:
        return rng.choice([b"\xc0\x9b", b"\xe0\x80\x9b", b"\xed\xb2\x9b", b"\xf4\x90\x80\x80", b"\xf0\x8f\xbf\xbf",
                           b"\xe4\xb8", b"\xf0\x9f\x98", b"\xc2", b"\xef\xbf\xbf", b"\xf4\x8f\xbf\xbf",
                           b"\xed\x9f\xbf\xee\x80\x80", b"\xe0\xa0\x80", b"\xf0\x90\x80\x80"]) + \
            bytes(rng.randrange(256) for _ in range(rng.randrange(0, 3)))
    return bytes(rng.randrange(256) for _ in range(rng.randrange(0, 10)))


# small-scope alphabet for _copy_body: plain, wide, zero-width (merged), control (caret form, width 2),
# ESC, C1 (hex form, width 4), explicit zero-width escape
SMALL = ["a", "世", "́", "\x01", "\x1b", "\x9b", "Z"]


def small_line(tup):
    """tuple over SMALL -> fragments (the symbol "Z" stands for an explicit zero-width escape fragment)"""
    frs, cur = [], ""
    for sym in tup:
        if sym == "Z":
            if cur:
                frs.append(["class:a", cur])
                cur = ""
            frs.append([ZWE, "\x1b]133;A\x07"])
        else:
            cur += sym
    if cur:
        frs.append(["class:a", cur])
    return frs


def gen_small_render(tier):
    import itertools
    maxlen = 3 if tier == "quick" else 4
    for n in range(maxlen + 1):
        for tup in itertools.product(SMALL, repeat=n):
            line = small_line(tup)
            frames = []
            for width in (1, 2, 3, 4):
                for wrap in (False, True):
                    frames.append({"copies": [{"xpos": 1, "ypos": 0, "width": width, "height": 2, "wrap": wrap,
                                               "hscroll": 0, "vscroll": 0, "vscroll2": 0, "pre": None,
                                               "lines": [line, [["", "b"]]]}],
                                   "diff": {"is_done": False, "full_screen": wrap, "cursor": [0, 0],
                                            "show_cursor": True}})
            yield {"kind": "render", "size": [6, 3], "ops": frames, "small": True}


def rand_line(rng, n):
    frs = []
    for _ in range(rng.randrange(0, 4)):
        if rng.random() < 0.15:
            frs.append([ZWE, rng.choice(["\x1b]133;A\x07", "\x1b]1337;x=1\x07", "", "\x1b[5 q"])])
        else:
            frs.append([rng.choice(STYLES[:7]), rand_hostile(rng, rng.randrange(0, n))])
    return frs


def gen_rand_render(rng):
    cols, rows = rng.choice([3, 5, 8, 12, 20, 40]), rng.choice([1, 2, 3, 5, 8])
    frames = []
    nfr = rng.randrange(1, 4)
    for fi in range(nfr):
        copies = []
        for _ in range(rng.randrange(1, 4)):
            width = rng.randrange(1, cols + 1)
            height = rng.randrange(1, rows + 1)
            pre = None
            if rng.random() < 0.4:
                pre = [rand_line(rng, 4), rand_line(rng, 3)]
            copies.append({"xpos": rng.randrange(0, cols - width + 1), "ypos": rng.randrange(0, rows - height + 1),
                           "width": width, "height": height, "wrap": rng.random() < 0.5,
                           "hscroll": rng.choice([0, 0, 1, 2, 5]), "align": rng.choice([0, 0, 1, 2]),
                           "vscroll": rng.choice([0, 0, 1, 3]),
                           "vscroll2": rng.choice([0, 0, 1]), "pre": pre,
                           "lines": [rand_line(rng, rng.choice([2, 6, 14])) for _ in range(rng.randrange(0, 5))]})
        frames.append({"copies": copies,
                       "diff": {"is_done": fi == nfr - 1 and rng.random() < 0.5, "full_screen": rng.random() < 0.3,
                                "cursor": [rng.randrange(0, cols), rng.randrange(0, rows)],
                                "show_cursor": rng.random() < 0.8}})
    fs = frames[0]["diff"]["full_screen"]
    for fr in frames:
        fr["diff"]["full_screen"] = fs
    return {"kind": "render", "size": [cols, rows], "ops": frames}


def gen_e2e_prompt(rng, i):
    comps = []
    if rng.random() < 0.7:
        for _ in range(rng.randrange(1, 5)):
            comps.append([rand_hostile(rng, 3), rand_hostile(rng, rng.randrange(1, 8)),
                          rand_hostile(rng, rng.randrange(0, 8))])
    c = {"kind": "e2e_prompt", "message": rand_ft(rng, 8), "texts": [
        rand_hostile(rng, rng.randrange(0, 30)) for _ in range(rng.randrange(1, 4))],
        "toolbar": rand_ft(rng, 10) if rng.random() < 0.8 else None,
        "rprompt": rand_ft(rng, 5) if rng.random() < 0.4 else None,
        "placeholder": rand_ft(rng, 5, zwe_ok=False) if rng.random() < 0.2 else None,
        "continuation": rand_ft(rng, 3) if rng.random() < 0.4 else None,
        "completions": comps, "cstyle": rng.randrange(2), "comp_from": rng.randrange(2),
        "verror": rand_hostile(rng, 6) if rng.random() < 0.3 else None,
        "multiline": rng.random() < 0.7, "wrap": rng.random() < 0.7,
        "rows": rng.choice([5, 10, 24]), "cols": rng.choice([10, 20, 40, 80]),
        "height_known": rng.random() < 0.8, "cursor": rng.randrange(0, 30),
        "keybuf": rng.choice([None, None, "j", "\x1b", "\x9b", "世", "\x01", "\x7f", "é"])}
    if rng.random() < 0.3:
        c["texts"] = [c["texts"][0] + "\n" + rand_hostile(rng, 10) + "\n" + rand_hostile(rng, 60)]
    return c


def gen_e2e_full(rng, i):
    return {"kind": "e2e_full", "message": rand_ft(rng, 10), "toolbar": rand_ft(rng, 10),
            "title": rand_hostile(rng, rng.randrange(0, 8)), "label": rand_hostile(rng, rng.randrange(0, 12)),
            "texts": [rand_hostile(rng, rng.randrange(0, 40)) + "\n" + rand_hostile(rng, rng.randrange(0, 40))
                      for _ in range(rng.randrange(1, 3))],
            "wrap": rng.random() < 0.5, "rows": rng.choice([12, 20]), "cols": rng.choice([30, 60]),
            "cursor": rng.randrange(0, 40)}


_WC = None


def wc_edges():
    global _WC
    if _WC is None:
        import gen_c10
        _WC = gen_c10.wc_ranges()
    return _WC


# ------------------------------------------------------------------ evidence helpers
def case_text(case):
    k = case["kind"]
    if k == "chars":
        return "".join(chr(cp) for cp in list(chunk_cps(case))[:300])
    if k in ("str", "tok"):
        return case["s"]
    if k == "calls":
        return "".join(c[1] for c in case["ops"] if c[0] == "title")
    if k == "dumb":
        m = case["message"]
        return (m if isinstance(m, str) else "".join(t for _, t in m)) + "".join(d[0] for d in case["docs"])
    if k == "proxy":
        return case["text"]
    if k == "pty":
        return "".join(t for _, t in case["frags"])
    if k == "tpl":
        return case["vtext"]
    if k == "gram":
        return "".join(case["toks"]) + "".join(case["streams"])
    if k == "enc":
        return "".join(t for _e, _err, t in case["ops"])
    if k == "encchars":
        return "".join(chr(cp) for cp in list(chunk_cps(case))[:300])
    if k == "decode":
        return "".join(bytes(b).decode("latin-1") for _e, b in case["ops"])
    if k == "flush":
        return "".join(op[4] for op in case["ops"])
    if k == "out":
        return "".join(op[1] for op in case["ops"] if len(op) > 1)
    if k in ("write", "dwidth"):
        return "".join(case["ops"])
    if k in ("print", "printplain"):
        return "".join(t for _, t in case["frags"])
    if k == "render":
        return "".join(t for fr in case["ops"] for cp in fr["copies"] for ln in cp["lines"] for _, t in ln)
    if k in ("e2e_prompt", "e2e_full"):
        parts = list(case["texts"])
        for f in ("message", "toolbar", "rprompt", "continuation", "placeholder"):
            x = case.get(f)
            if isinstance(x, list):
                parts += [t for _, t in x]
        for c in case.get("completions") or []:
            parts += c
        return "".join(parts)
    return ""


def nontrivial(case):
    if case["kind"] == "ast":
        return True
    t = case_text(case)
    return has_control(t) or "\xa0" in t or any(is_sur(ord(ch)) for ch in t)


def sample_view(case):
    if case["kind"] == "chars" and "cps" in case:
        return dict(case, cps=case["cps"][:8] + [f"... {len(case['cps'])} code points"])
    if case["kind"] == "write":
        return dict(case, ops=case["ops"][:6])
    if case["kind"] == "enc" and case.get("small"):
        return dict(case, ops=case["ops"][:10] + [f"... {len(case['ops'])} texts: all strings over {len(SMALL_BYTES)} symbols"])
    if case["kind"] == "encchars" and "cps" in case:
        return dict(case, cps=case["cps"][:8] + [f"... {len(case['cps'])} code points"])
    if case["kind"] == "render" and case.get("small"):
        return dict(case, ops=case["ops"][:1] + [f"... {len(case['ops'])} frames: widths 1-4 x wrap off/on"])
    return case


def distribution(cases_):
    d = {"kind": {}, "code_points": 0, "control_chars_in_content": 0, "lone_surrogates_in_content": 0,
         "code_points_encoded": 0, "on_binary_stream": 0, "stream_encodings": {}, "stream_error_handlers": {}}
    for c in cases_:
        d["kind"][c["kind"]] = d["kind"].get(c["kind"], 0) + 1
        if c["kind"] == "chars":
            d["code_points"] += len(chunk_cps(c))
        elif c["kind"] == "encchars":
            d["code_points_encoded"] += len(chunk_cps(c))
            d["stream_encodings"][c["enc"]] = d["stream_encodings"].get(c["enc"], 0) + 1
            d["stream_error_handlers"][c["errors"]] = d["stream_error_handlers"].get(c["errors"], 0) + 1
        else:
            t = case_text(c)
            d["control_chars_in_content"] += sum(1 for ch in t if is_control(ch))
            d["lone_surrogates_in_content"] += sum(1 for ch in t if is_sur(ord(ch)))
        w = c.get("wire")
        if w:
            d["on_binary_stream"] += 1
            d["stream_encodings"][w["enc"]] = d["stream_encodings"].get(w["enc"], 0) + 1
            d["stream_error_handlers"][w["errors"]] = d["stream_error_handlers"].get(w["errors"], 0) + 1
    return d


if __name__ == "__main__":
    sys.exit(core.main(sys.modules[__name__]))
