#!/venv/bin/python
"""C10 — displayed content cannot inject control sequences.

Correspondence with Ptk.Model.C10* (Char.__init__ on every code point, Vt100_Output.write,
print_formatted_text, Window._copy_body, _output_screen_diff + Vt100_Output) and the property
oracle (end-to-end: real PromptSession / full-screen Application with hostile content rendered
by the real Renderer to a real Vt100_Output on a StringIO; output tokenised)."""
from __future__ import annotations

import ast
import asyncio
import io
import os
import re
import sys

sys.path.insert(0, os.path.dirname(os.path.abspath(__file__)))
import core
from core import enc_str, enc_bool, enc_list

from prompt_toolkit.data_structures import Point, Size
from prompt_toolkit.layout.screen import _CHAR_CACHE, Char, Screen, WritePosition
from prompt_toolkit.output.vt100 import Vt100_Output
from prompt_toolkit.output.color_depth import ColorDepth
from prompt_toolkit.utils import get_cwidth

ID = "C10"
DRIVER = "drv_c10"
PROPS = ["Ptk.Props.C10", "Ptk.Props.C10Copy", "Ptk.Props.C10Diff", "Ptk.Props.C10Tok", "Ptk.Props.C10Stream"]
LEVEL_TEXT = (
    "Lean 4 theorems over an executable model of the display path: Char.__init__ over ANY display table "
    "satisfying decidable side conditions (re-decided by the kernel on the regenerated Char.display_mappings) "
    "never yields a control character for any Unicode scalar; the zero-width merge and the whole "
    "Window._copy_body keep every screen cell control-free; _output_screen_diff sends cell text only through "
    "the escaping writer and only zero-width escapes raw; Vt100_Output.write never emits ESC; the tokenised "
    "output stream has no control token that is not renderer-generated; tied to /repo on every run by a "
    "differential correspondence (every code point, copy_body, diff, print) and an end-to-end oracle")
LEVEL_NOTE = ("trusted: Lean kernel, axioms propext/Classical.choice/Quot.sound only; the hand-written model "
              "(validated by the correspondence, not proved equal to the Python); wcwidth only by "
              "correspondence; terminal semantics (which byte strings a terminal acts on) is the tokenizer's")
RULE = ("Char(c) for every code point (thorough) / stratified sample incl. all of U+0000-33FF and every wcwidth "
        "range boundary (quick); multi-character cell strings; Vt100_Output.write on hostile strings; "
        "print_formatted_text on hostile fragments; Window._copy_body and _output_screen_diff on hostile "
        "fragment lines (wrap, prefixes, scroll, zero-width escapes, wide/zero-width characters); end-to-end "
        "renders of a real PromptSession and a full-screen Application; a case is non-trivial when its "
        "content contains at least one control character or zero-width escape")
EXHAUSTIVE = True
EXHAUSTIVE_SCOPE = {
    "quick": "Char(c): all code points U+0000-33FF + all wcwidth range boundaries + 40k random; "
             "copy_body: all lines over a 7-symbol alphabet up to length 3 x widths 1-4 x wrap on/off",
    "thorough": "Char(c): every code point U+0000-10FFFF (surrogates: oracle only); "
                "copy_body: all lines over a 7-symbol alphabet up to length 4 x widths 1-4 x wrap on/off"}
TRUSTED = ["harness/c10.py compares (char, style, width) of Char, buffered output text and write/write_raw pieces",
           "Ptk/Model/C10*.lean are hand translations of Char.__init__, _copy_body, _output_screen_diff, "
           "Vt100_Output emitters and print_formatted_text (correspondence-checked)",
           "harness/gen_c10.py prints Char.display_mappings, the emitter strings and wcwidth ranges faithfully"]
ASSUMPTIONS = ["wcwidth of the running interpreter (regenerated table; theorems hold for every width function "
               "under ValuesWidthPos)",
               "style -> Attrs -> SGR escape code is a parameter (C19's domain); theorems assume each SGR code is "
               "a complete control sequence, the oracle checks it on the real codes",
               "a terminal acts only on the control tokens recognised by the tokenizer (ECMA-48 C0/C1/ESC forms)"]
PARTIAL_SCOPE = ["windows/conemu outputs not modelled (Vt100_Output only)",
                 "set_title, dumb-terminal prompt (_dumb_prompt) and patch_stdout raw mode are outside the anchors",
                 "cursor line/column highlighting, digraph / pending-key display, fill_area restyling, menus and "
                 "ScrollablePane are exercised end to end by the oracle only (they rebuild cells from "
                 "existing cell text through _CHAR_CACHE: theorem mkCell_clean)",
                 "lone surrogates: oracle only (not Lean Chars)",
                 "bidi/format characters (U+202E, U+2028...) are not control characters of the property"]
TECHNIQUE = "proof"

# ------------------------------------------------------------------ helpers
STYLES = ["", "class:a", "bold", "fg:ansired", "bg:ansiblue underline", "class:bottom-toolbar",
          "reverse", "[transparent]"]
ZWE = "[ZeroWidthEscape]"
NBSP_SUF = " class:nbsp "
CTL_SUF = " class:control-character "

HOSTILE_SEQS = ["\x1b[31m", "\x1b[2J", "\x1b[6n", "\x1b[?1049h", "\x1b]0;EVIL\x07", "\x1b]52;c;QQ==\x07",
                "\x1bP+q544e\x1b\\", "\x9b31m", "\x9b2J", "\x9d0;EVIL\x9c", "\x90q\x9c", "\x1bc", "\x1b(0",
                "\x1b[200~", "\x1b[10;10H", "\x1b#8", "\x98x\x9c", "\x1b_G\x1b\\", "\r\n", "\x08\x08", "\x07",
                "\x0e", "\x0f", "\x7f", "\xa0", "\x85", "\x00"]
PRINTABLE = ["a", "b", "Z", " ", "~", "[", "?", "^", "<", "9", "世", "界", "́", "‍", "​",
             " ", "‮", "é", "\U0001F600", "\xad", "　", "\x9f", "\x80", "\x1f", "\x1b"]


def is_control(c: str) -> bool:
    o = ord(c)
    return o < 0x20 or 0x7F <= o <= 0x9F


def has_control(s: str) -> bool:
    return any(is_control(c) for c in s)


def rand_hostile(rng, n):
    out = []
    for _ in range(n):
        k = rng.randrange(10)
        if k < 3:
            out.append(rng.choice(HOSTILE_SEQS))
        elif k < 5:
            out.append(chr(rng.choice(list(range(0x20)) + list(range(0x7F, 0xA1)))))
        else:
            out.append(rng.choice(PRINTABLE))
    return "".join(out)


class RecOutput(Vt100_Output):
    """A real Vt100_Output that additionally records, per call, what write / write_raw appended to
    the buffer (the methods themselves are the real ones)."""

    def __init__(self, *a, **kw):
        super().__init__(*a, **kw)
        self.pieces: list[tuple[str, str]] = []

    def write(self, data):
        n = len(self._buffer)
        Vt100_Output.write(self, data)
        self.pieces.append(("w", "".join(self._buffer[n:])))

    def write_raw(self, data):
        n = len(self._buffer)
        Vt100_Output.write_raw(self, data)
        self.pieces.append(("r", "".join(self._buffer[n:])))


def new_output(rows=24, cols=80, rec=True, depth=ColorDepth.DEPTH_8_BIT):
    buf = io.StringIO()
    cls = RecOutput if rec else Vt100_Output
    out = cls(buf, lambda: Size(rows=rows, columns=cols), term="xterm", default_color_depth=depth)
    return out, buf


_STYLE = None


def ui_style():
    global _STYLE
    if _STYLE is None:
        from prompt_toolkit.styles import default_ui_style
        _STYLE = default_ui_style()
    return _STYLE


def style_env(styles, out, depth=ColorDepth.DEPTH_8_BIT):
    """parameters of the model that are C19's domain, computed by the real code:
    style string -> (attrs id, style_string_has_style), attrs id -> escape code"""
    from prompt_toolkit.renderer import _StyleStringHasStyleCache, _StyleStringToAttrsCache
    from prompt_toolkit.styles import DummyStyleTransformation

    a4s = _StyleStringToAttrsCache(ui_style().get_attrs_for_style_str, DummyStyleTransformation())
    has = _StyleStringHasStyleCache(a4s)
    ids: dict = {}
    rows = []
    seen = set()
    for s in styles:
        for v in (s, s + CTL_SUF, s + NBSP_SUF):
            if v in seen:
                continue
            seen.add(v)
            at = a4s[v]
            if at not in ids:
                ids[at] = len(ids)
            rows.append((v, ids[at], bool(has[v])))
    sg = [(i, out._escape_code_caches[depth][at]) for at, i in ids.items()]
    line = "env " + enc_list(rows, lambda r: f"{enc_str(r[0])} {r[1]} {enc_bool(r[2])}") + " " + \
        enc_list(sg, lambda r: f"{r[0]} {enc_str(r[1])}")
    return line, a4s, has, dict(sg)


# ------------------------------------------------------------------ tokenizer (oracle side)
def tokenize(s: str):
    """ECMA-48 style split of an output stream into ('t', printable run) and ('c', control token)."""
    out = []
    i, n = 0, len(s)
    run = []

    def flush():
        if run:
            out.append(("t", "".join(run)))
            run.clear()

    while i < n:
        c = s[i]
        o = ord(c)
        if c == "\x1b":
            flush()
            if i + 1 >= n:
                out.append(("c", c))
                i += 1
            elif s[i + 1] == "[":
                j = i + 2
                while j < n and 0x30 <= ord(s[j]) <= 0x3F:
                    j += 1
                while j < n and 0x20 <= ord(s[j]) <= 0x2F:
                    j += 1
                if j < n and 0x40 <= ord(s[j]) <= 0x7E:
                    j += 1
                out.append(("c", s[i:j]))
                i = j
            elif s[i + 1] in "]PX^_":
                j = i + 2
                while j < n and s[j] != "\x07" and not (s[j] == "\x1b" and j + 1 < n and s[j + 1] == "\\") \
                        and s[j] != "\x9c":
                    j += 1
                j = min(n, j + (2 if j < n and s[j] == "\x1b" else 1))
                out.append(("c", s[i:j]))
                i = j
            else:
                j = i + 1
                while j < n and 0x20 <= ord(s[j]) <= 0x2F:
                    j += 1
                j = min(n, j + 1)
                out.append(("c", s[i:j]))
                i = j
        elif is_control(c):
            flush()
            if o == 0x9B:
                j = i + 1
                while j < n and 0x30 <= ord(s[j]) <= 0x3F:
                    j += 1
                while j < n and 0x20 <= ord(s[j]) <= 0x2F:
                    j += 1
                if j < n and 0x40 <= ord(s[j]) <= 0x7E:
                    j += 1
                out.append(("c", s[i:j]))
                i = j
            else:
                out.append(("c", c))
                i += 1
        else:
            run.append(c)
            i += 1
    flush()
    return out


# the renderer's own repertoire (what Vt100_Output's emitters can produce)
REPERTOIRE = re.compile(
    r"\x1b\[\?(?:25|7|12|2004|1|1000|1003|1015|1006|1049)[hl]"
    r"|\x1b\[[0-9;]*m"
    r"|\x1b\[[0-9]*[ABCD]"
    r"|\x1b\[[JK]|\x1b\[2J|\x1b\[H|\x1b\[[0-9]+;[0-9]+H"
    r"|\x1b\[[0-6] q"
    r"|\x1b\[6n"
    r"|\r|\n|\x08")
REPS = re.compile("(?:" + REPERTOIRE.pattern + ")+")
SGR = re.compile(r"\x1b\[[0-9;]*m")
CRLFS = re.compile(r"\r|(?:\r\n)+")


def check_stream(site, text, pieces, zwe_payloads, v):
    """the property over one recorded output stream"""
    def bad(cond, msg):
        v.append({"signature": f"{site} | {cond}", "msg": msg[:600]})

    if pieces is not None and "".join(p for _, p in pieces) != text:
        bad("output bypassed write/write_raw", "stream is not the concatenation of the recorded pieces")
    zre = None
    if zwe_payloads:
        # zero_width_escapes[y][x] += text concatenates payloads; horizontal scrolling explodes a marked
        # fragment and may drop a prefix of it, so a raw piece is a concatenation of payload suffixes
        sufs = {z[i:] for z in zwe_payloads for i in range(len(z))}
        zre = re.compile("(?:" + "|".join(re.escape(z) for z in sorted(sufs, key=len, reverse=True)) + ")+") \
            if sufs else None
    for kind, p in pieces or []:
        if kind == "w":
            if "\x1b" in p:
                bad("ESC through the safe writer", f"write() produced ESC: {p!r}")
            elif has_control(p) and not CRLFS.fullmatch(p):
                bad("control character through the escaping writer", f"write() payload {p!r}")
        else:
            if p == "" or REPS.fullmatch(p):
                continue
            if zre is not None and zre.fullmatch(p):
                continue
            bad("raw write outside the renderer's repertoire", f"write_raw() payload {p!r}")
    for kind, tk in tokenize(text):
        if kind != "c":
            continue
        if REPERTOIRE.fullmatch(tk):
            continue
        if any(tk in z for z in zwe_payloads or []):
            continue
        bad("control token outside the renderer's repertoire", f"token {tk!r} in output stream")
        break


# ------------------------------------------------------------------ case kinds
def chunk_cps(case):
    if "range" in case:
        return range(case["range"][0], case["range"][1])
    return case["cps"]


def is_sur(cp):
    return 0xD800 <= cp <= 0xDFFF


def ml_chars(case):
    st = enc_str(case["style"])
    return [f"cell s:{cp} {st}" for cp in chunk_cps(case) if not is_sur(cp)]


def il_chars(case):
    out = []
    style = case["style"]
    use_cache = case.get("cache", False)
    for cp in chunk_cps(case):
        if is_sur(cp):
            continue
        ch = _CHAR_CACHE[chr(cp), style] if use_cache else Char(chr(cp), style)
        out.append(f"{enc_str(ch.char)} {enc_str(ch.style)} {ch.width}")
    return out


def or_chars(case):
    v = []
    style = case["style"]
    for cp in chunk_cps(case):
        c = chr(cp)
        ch = Char(c, style)
        if has_control(ch.char):
            v.append({"signature": "Char.__init__ | control character in cell text",
                      "msg": f"Char({c!r}).char = {ch.char!r}"})
            break
        if is_control(c) and ch.width < 1:
            v.append({"signature": "Char.__init__ | control character displayed with width 0 (would be merged raw)",
                      "msg": f"Char({c!r}) = {ch.char!r} width {ch.width}"})
            break
        if ch.width != get_cwidth(ch.char):
            v.append({"signature": "Char.__init__ | width is not the width of the displayed text",
                      "msg": f"Char({c!r}) = {ch.char!r} width {ch.width}"})
            break
    return v


def ml_str(case):
    return [f"cell {enc_str(case['s'])} {enc_str(case['style'])}"]


def il_str(case):
    ch = _CHAR_CACHE[case["s"], case["style"]]
    return [f"{enc_str(ch.char)} {enc_str(ch.style)} {ch.width}"]


def or_str(case):
    s = case["s"]
    ch = Char(s, case["style"])
    if not has_control(s) and has_control(ch.char):
        return [{"signature": "Char.__init__ | control character in cell text",
                 "msg": f"Char({s!r}).char = {ch.char!r}"}]
    return []


def ml_write(case):
    return [f"write {enc_str(p)}" for p in case["ops"]]


def il_write(case):
    out = []
    o, buf = new_output(rec=False)
    for p in case["ops"]:
        o.write(p)
        o.flush()
        out.append(enc_str(buf.getvalue()))
        buf.seek(0)
        buf.truncate()
    return out


def or_write(case):
    o, buf = new_output(rec=False)
    for p in case["ops"]:
        o.write(p)
    o.flush()
    t = buf.getvalue()
    v = []
    if "\x1b" in t:
        v.append({"signature": "Vt100_Output.write | ESC in output", "msg": f"{case['ops']!r} -> {t!r}"})
    if len(t) != sum(len(p) for p in case["ops"]):
        v.append({"signature": "Vt100_Output.write | length changed", "msg": f"{case['ops']!r} -> {t!r}"})
    return v


def run_print(case):
    from prompt_toolkit.renderer import print_formatted_text
    o, buf = new_output()
    frs = [(s, t) for s, t in case["frags"]]
    print_formatted_text(o, frs, ui_style(), color_depth=ColorDepth.DEPTH_8_BIT)
    return o, buf.getvalue()


def ml_print(case):
    o, _ = new_output()
    env, _, _, _ = style_env(sorted({s for s, _ in case["frags"]}), o)
    return [env, "print " + enc_list(case["frags"], lambda f: f"{enc_str(f[0])} {enc_str(f[1])}")]


def enc_pieces(pieces):
    return enc_list(pieces, lambda p: f"{p[0]} {enc_str(p[1])}")


def il_print(case):
    o, text = run_print(case)
    return ["ok", enc_str(text) + " " + enc_pieces(o.pieces)]


def or_print(case):
    o, text = run_print(case)
    v = []
    zw = [t for s, t in case["frags"] if ZWE in s]
    esc_raw = sum(p.count("\x1b") for k, p in o.pieces if k == "r")
    if text.count("\x1b") != esc_raw:
        v.append({"signature": "print_formatted_text | ESC through the safe print path",
                  "msg": f"{case['frags']!r} -> {text!r}"})
    for k, p in o.pieces:
        if k == "w" and "\x1b" in p:
            v.append({"signature": "print_formatted_text | ESC through the safe print path",
                      "msg": f"write piece {p!r}"})
            break
        if k == "r" and not (REPERTOIRE.fullmatch(p) or p in zw):
            v.append({"signature": "print_formatted_text | raw write outside the renderer's repertoire",
                      "msg": f"write_raw piece {p!r}"})
            break
    if "".join(p for _, p in o.pieces) != text:
        v.append({"signature": "print_formatted_text | output bypassed write/write_raw", "msg": repr(text)})
    return v



# ------------------------------------------------------------------ copy_body + diff (kind "render")
TRANSPARENT = "[transparent]"


def enc_frags(frs):
    return enc_list(frs, lambda f: f"{enc_str(f[0])} {enc_str(f[1])}")


def case_styles(case):
    st = {TRANSPARENT, ""}
    for fr in case["ops"]:
        for cp in fr["copies"]:
            for ln in cp["lines"]:
                st.update(s for s, _ in ln)
            for pre in cp.get("pre") or []:
                st.update(s for s, _ in pre)
    return sorted(st)


def case_zwe(case):
    z = []
    for fr in case["ops"]:
        for cp in fr["copies"]:
            for ln in cp["lines"]:
                z += [t for s, t in ln if ZWE in s]
            for pre in cp.get("pre") or []:
                z += [t for s, t in pre if ZWE in s]
    return z


def ml_render(case):
    cols, rows = case["size"]
    o, _ = new_output(rows, cols)
    env, _, _, _ = style_env(case_styles(case), o)
    out = [env, "resetr"]
    for fr in case["ops"]:
        out.append("newscreen")
        for cp in fr["copies"]:
            pre = cp.get("pre")
            out.append("copy %d %d %d %d %s %d %d %d %d %s %s %s %s" % (
                cp["xpos"], cp["ypos"], cp["width"], cp["height"], enc_bool(cp["wrap"]), cp["hscroll"],
                cp.get("align", 0), cp["vscroll"], cp["vscroll2"], enc_bool(pre is not None),
                enc_frags(pre[0] if pre else []), enc_frags(pre[1] if pre else []),
                enc_list(cp["lines"], enc_frags)))
        d = fr.get("diff")
        if d:
            out.append("diff %s %s %d %d %d %d %s" % (enc_bool(d["is_done"]), enc_bool(d["full_screen"]), cols, rows,
                                                     d["cursor"][0], d["cursor"][1], enc_bool(d["show_cursor"])))
    return out


def dump_screen(screen):
    cells = []
    for y, row in screen.data_buffer.items():
        for x, c in row.items():
            if not (c.char == " " and c.style == TRANSPARENT and c.width == 1):
                cells.append((y, x, c))
    cells.sort(key=lambda t: (t[0], t[1]))
    zw = []
    for y, row in screen.zero_width_escapes.items():
        for x, t in row.items():
            zw.append((y, x, t))
    zw.sort(key=lambda t: (t[0], t[1]))
    return (f"{screen.height} " +
            enc_list(cells, lambda t: f"{t[0]} {t[1]} {enc_str(t[2].char)} {enc_str(t[2].style)} {t[2].width}") + " " +
            enc_list(zw, lambda t: f"{t[0]} {t[1]} {enc_str(t[2])}"))


class _StubLayout:
    def __init__(self, w):
        self.current_window = w


class _StubApp:
    def __init__(self, w):
        self.layout = _StubLayout(w)


def run_render(case):
    """the real Window._copy_body and _output_screen_diff on the real Screen / Vt100_Output"""
    from prompt_toolkit.layout.containers import Window, WindowAlign
    from prompt_toolkit.layout.controls import UIContent
    from prompt_toolkit.renderer import _output_screen_diff

    cols, rows = case["size"]
    out, buf = new_output(rows, cols)
    _, a4s, has, _ = style_env(case_styles(case), out)
    lines_out = ["ok", "ok"]
    screens, stream = [], []
    win = Window()
    app = _StubApp(win)
    prev, pos, last, prev_width = None, Point(x=0, y=0), None, 0
    for fr in case["ops"]:
        screen = Screen()
        lines_out.append("ok")
        for cp in fr["copies"]:
            lines = [[(s, t) for s, t in ln] for ln in cp["lines"]]
            ui = UIContent(get_line=(lambda i, lines=lines: lines[i]), line_count=len(lines), show_cursor=False)
            wp = WritePosition(cp["xpos"], cp["ypos"], cp["width"], cp["height"])
            glp = None
            if cp.get("pre") is not None:
                p0 = [(s, t) for s, t in cp["pre"][0]]
                pn = [(s, t) for s, t in cp["pre"][1]]
                glp = (lambda lineno, wrap_count, p0=p0, pn=pn: p0 if wrap_count == 0 else pn)
            Window()._copy_body(ui, screen, wp, 0, cp["width"], vertical_scroll=cp["vscroll"],
                                horizontal_scroll=cp["hscroll"], wrap_lines=cp["wrap"],
                                vertical_scroll_2=cp["vscroll2"], get_line_prefix=glp,
                                align=[WindowAlign.LEFT, WindowAlign.CENTER, WindowAlign.RIGHT][cp.get("align", 0)])
            lines_out.append(dump_screen(screen))
        screens.append(screen)
        d = fr.get("diff")
        if d:
            screen.set_cursor_position(win, Point(x=d["cursor"][0], y=d["cursor"][1]))
            screen.show_cursor = d["show_cursor"]
            n = len(out.pieces)
            pos, last = _output_screen_diff(app, out, screen, pos, ColorDepth.DEPTH_8_BIT, prev, last,
                                            d["is_done"], d["full_screen"], a4s, has,
                                            Size(rows=rows, columns=cols), prev_width)
            out.flush()
            text = buf.getvalue()
            buf.seek(0)
            buf.truncate()
            pieces = [p for p in out.pieces[n:] if p[1] != ""]
            stream.append((text, out.pieces[n:]))
            lines_out.append(f"{pos.x} {pos.y} {'N' if last is None else enc_str(last)} {enc_str(text)} "
                             f"{enc_pieces(pieces)}")
            prev, prev_width = screen, cols
    return lines_out, screens, stream


def il_render(case):
    return run_render(case)[0]


def or_render(case):
    v = []
    _, screens, stream = run_render(case)
    for sc in screens:
        scan_screen("Window._copy_body", sc, v)
    zw = case_zwe(case)
    for text, pieces in stream:
        check_stream("_output_screen_diff", text, pieces, zw, v)
    if not zw:
        for sc in screens:
            if any(t for row in sc.zero_width_escapes.values() for t in row.values()):
                v.append({"signature": "Window._copy_body | unmarked text stored as zero-width escape", "msg": ""})
    return v


# ------------------------------------------------------------------ end to end
def _mk_completer(comps):
    from prompt_toolkit.completion import Completer, Completion

    class C(Completer):
        def get_completions(self, document, complete_event):
            for t, d, m in comps:
                yield Completion(t, 0, display=d, display_meta=m)
    return C()


def to_ft(x):
    """case encoding of formatted text: str or list of [style, text]"""
    if isinstance(x, str):
        return x
    return [(s, t) for s, t in x]


def ft_zwe(x):
    return [] if isinstance(x, str) or x is None else [t for s, t in x if ZWE in s]


def scan_screen(site, screen, v):
    for y, row in screen.data_buffer.items():
        for x, cell in row.items():
            if type(cell) is not Char:
                v.append({"signature": f"{site} | screen cell is not a Char", "msg": f"({y},{x}) {cell!r}"})
                return
            if has_control(cell.char):
                v.append({"signature": f"{site} | control character in a screen cell",
                          "msg": f"({y},{x}) {cell!r}"})
                return


def e2e_prompt(case):
    from prompt_toolkit import PromptSession
    from prompt_toolkit.application.current import set_app
    from prompt_toolkit.buffer import CompletionState
    from prompt_toolkit.completion import Completion
    from prompt_toolkit.document import Document
    from prompt_toolkit.input import DummyInput
    from prompt_toolkit.shortcuts import CompleteStyle
    from prompt_toolkit.validation import ValidationError

    v: list = []
    rows, cols = case.get("rows", 24), case.get("cols", 80)

    async def main():
        out, buf = new_output(rows, cols)
        kw = {}
        if case.get("toolbar") is not None:
            kw["bottom_toolbar"] = to_ft(case["toolbar"])
        if case.get("rprompt") is not None:
            kw["rprompt"] = to_ft(case["rprompt"])
        if case.get("placeholder") is not None:
            kw["placeholder"] = to_ft(case["placeholder"])
        if case.get("continuation") is not None:
            cont = to_ft(case["continuation"])
            kw["prompt_continuation"] = lambda width, line_number, wrap_count: cont
        comps = case.get("completions") or []
        s = PromptSession(message=to_ft(case["message"]), input=DummyInput(), output=out,
                          completer=_mk_completer(comps), multiline=case.get("multiline", True),
                          wrap_lines=case.get("wrap", True),
                          complete_style=[CompleteStyle.COLUMN, CompleteStyle.MULTI_COLUMN][case.get("cstyle", 0)],
                          **kw)
        app = s.app
        zw = ft_zwe(case["message"]) + ft_zwe(case.get("toolbar")) + ft_zwe(case.get("rprompt")) + \
            ft_zwe(case.get("continuation")) + ft_zwe(case.get("placeholder"))
        with set_app(app):
            b = s.default_buffer
            texts = case["texts"]
            for i, t in enumerate(texts):
                cur = min(len(t), case.get("cursor", len(t)))
                b.set_document(Document(t, cur), bypass_readonly=True)
                if comps and i >= case.get("comp_from", 0):
                    cl = [Completion(tt, 0, display=d, display_meta=m) for tt, d, m in comps]
                    b.complete_state = CompletionState(b.document, cl)
                    b.complete_state.go_to_index(i % len(cl))
                if case.get("verror") is not None and i == len(texts) - 1:
                    b.validation_error = ValidationError(0, case["verror"])
                if case.get("keybuf"):
                    from prompt_toolkit.key_binding.key_processor import KeyPress
                    app.key_processor.key_buffer = [KeyPress("x", case["keybuf"])]
                if case.get("height_known", True):
                    app.renderer.report_absolute_cursor_row(case.get("cpr_row", 1))
                app.renderer.render(app, app.layout)
                scan_screen("Renderer.render(prompt)", app.renderer._last_screen, v)
            app.renderer.render(app, app.layout, is_done=True)
            out.flush()
            check_stream("Renderer.render(prompt)", buf.getvalue(), out.pieces, zw, v)

    asyncio.run(main())
    return v


def e2e_full(case):
    from prompt_toolkit.application import Application
    from prompt_toolkit.application.current import set_app
    from prompt_toolkit.input import DummyInput
    from prompt_toolkit.layout import FormattedTextControl, HSplit, Layout, VSplit, Window, ScrollablePane
    from prompt_toolkit.layout.containers import WindowAlign
    from prompt_toolkit.layout.margins import NumberedMargin, ScrollbarMargin
    from prompt_toolkit.widgets import Frame, Label, TextArea, Button, Box

    v: list = []
    rows, cols = case.get("rows", 20), case.get("cols", 60)

    async def main():
        out, buf = new_output(rows, cols)
        ta = TextArea(text=case["texts"][0], multiline=True, wrap_lines=case.get("wrap", False),
                      line_numbers=True, scrollbar=True)
        ftc = FormattedTextControl(to_ft(case["message"]))
        body = HSplit([
            Frame(ta, title=case["title"]),
            VSplit([Window(ftc, wrap_lines=True, align=WindowAlign.CENTER, cursorline=True, height=3),
                    Label(case["label"]), Button(case["label"][:20] or "x")]),
            ScrollablePane(HSplit([Label(case["label"]), Window(FormattedTextControl(to_ft(case["toolbar"])),
                                                                height=3)]), height=4),
            Window(FormattedTextControl(to_ft(case["toolbar"])), height=1, style="class:bottom-toolbar",
                   align=WindowAlign.RIGHT),
        ])
        app = Application(layout=Layout(body, focused_element=ta), full_screen=True, input=DummyInput(), output=out)
        zw = ft_zwe(case["message"]) + ft_zwe(case["toolbar"])
        with set_app(app):
            for t in case["texts"]:
                ta.buffer.set_document(ta.document.__class__(t, min(len(t), case.get("cursor", len(t)))),
                                       bypass_readonly=True)
                app.renderer.render(app, app.layout)
                scan_screen("Renderer.render(full screen)", app.renderer._last_screen, v)
            app.renderer.render(app, app.layout, is_done=True)
            out.flush()
            check_stream("Renderer.render(full screen)", buf.getvalue(), out.pieces, zw, v)

    asyncio.run(main())
    return v


# ------------------------------------------------------------------ AST pin
ALLOWED_RAW_SITES = {("renderer.py", "_output_screen_diff"), ("renderer.py", "print_formatted_text"),
                     ("patch_stdout.py", "write_and_flush")}


def ast_scan():
    """Static pins: every screen cell is built by Char.__init__ (directly or through _CHAR_CACHE),
    nothing mutates cell text or the display table afterwards, and variable data reaches
    write_raw only at the known sites."""
    v = []
    src = os.path.join(core.REPO, "src", "prompt_toolkit")

    def bad(cond, msg):
        v.append({"signature": f"source scan | {cond}", "msg": msg})

    for dp, _, fns in os.walk(src):
        for fn in fns:
            if not fn.endswith(".py"):
                continue
            path = os.path.join(dp, fn)
            rel = os.path.relpath(path, src)
            try:
                tree = ast.parse(open(path, encoding="utf-8").read())
            except SyntaxError as e:
                bad("unparsable source", f"{rel}: {e}")
                continue
            parents = {}
            for node in ast.walk(tree):
                for ch in ast.iter_child_nodes(node):
                    parents[ch] = node

            def enclosing(node, kinds):
                n = parents.get(node)
                while n is not None and not isinstance(n, kinds):
                    n = parents.get(n)
                return n

            for node in ast.walk(tree):
                # subclasses of Char
                if isinstance(node, ast.ClassDef):
                    for b in node.bases:
                        if (isinstance(b, ast.Name) and b.id == "Char") or \
                                (isinstance(b, ast.Attribute) and b.attr == "Char"):
                            bad("subclass of Char", f"{rel}:{node.lineno} class {node.name}")
                # stores to <x>.char / <x>.width on something that is not `self` inside an __init__
                if isinstance(node, ast.Attribute) and isinstance(node.ctx, (ast.Store, ast.Del)) \
                        and node.attr in ("char",):
                    fn_ = enclosing(node, (ast.FunctionDef, ast.AsyncFunctionDef))
                    ok = isinstance(node.value, ast.Name) and node.value.id == "self" and fn_ is not None \
                        and fn_.name == "__init__"
                    if not ok:
                        bad("cell text mutated outside a constructor", f"{rel}:{node.lineno}")
                # mutation of display_mappings
                if isinstance(node, ast.Attribute) and node.attr == "display_mappings":
                    p = parents.get(node)
                    if isinstance(p, ast.Subscript) and isinstance(p.ctx, (ast.Store, ast.Del)):
                        bad("display_mappings mutated", f"{rel}:{node.lineno}")
                    if isinstance(p, ast.Attribute) and p.attr in ("update", "pop", "clear", "setdefault",
                                                                    "popitem", "__setitem__", "__delitem__"):
                        bad("display_mappings mutated", f"{rel}:{node.lineno}")
                    if isinstance(node.ctx, (ast.Store, ast.Del)):
                        bad("display_mappings mutated", f"{rel}:{node.lineno}")
                # object construction that bypasses __init__
                if isinstance(node, ast.Call) and isinstance(node.func, ast.Attribute) \
                        and node.func.attr == "__new__" and node.args \
                        and isinstance(node.args[0], ast.Name) and node.args[0].id == "Char":
                    bad("Char built without __init__", f"{rel}:{node.lineno}")
                # variable data to write_raw
                if isinstance(node, ast.Call):
                    f = node.func
                    nm = f.attr if isinstance(f, ast.Attribute) else f.id if isinstance(f, ast.Name) else None
                    if nm == "write_raw" and not rel.startswith("output" + os.sep):
                        const = bool(node.args) and isinstance(node.args[0], ast.Constant)
                        fn_ = enclosing(node, (ast.FunctionDef, ast.AsyncFunctionDef))
                        # innermost enclosing def for aliases inside nested functions
                        outer = fn_
                        while outer is not None and (os.path.basename(rel), outer.name) not in ALLOWED_RAW_SITES:
                            outer = enclosing(outer, (ast.FunctionDef, ast.AsyncFunctionDef))
                        if not const and outer is None:
                            bad("variable data written raw at an unknown site",
                                f"{rel}:{node.lineno} in {fn_.name if fn_ else '<module>'}")
            if rel == os.path.join("layout", "screen.py"):
                ok_cache = False
                for node in ast.walk(tree):
                    tgt = None
                    if isinstance(node, ast.AnnAssign) and isinstance(node.target, ast.Name):
                        tgt, val = node.target.id, node.value
                    elif isinstance(node, ast.Assign) and len(node.targets) == 1 and isinstance(node.targets[0], ast.Name):
                        tgt, val = node.targets[0].id, node.value
                    if tgt == "_CHAR_CACHE":
                        ok_cache = isinstance(val, ast.Call) and getattr(val.func, "id", "") == "FastDictCache" \
                            and val.args and isinstance(val.args[0], ast.Name) and val.args[0].id == "Char"
                if not ok_cache:
                    bad("_CHAR_CACHE is not FastDictCache(Char, ...)", rel)
            # cell stores
            if rel.startswith("layout" + os.sep) or rel == "renderer.py":
                v += scan_cell_stores(tree, rel, parents)
    # the pending-key display (_show_key_processor_key_buffer) builds a cell from KeyPress.data when
    # get_cwidth(data) == 1; multi-character strings bypass display_mappings, so no input sequence of
    # width 1 may contain a control character other than ESC (which the writer replaces)
    from prompt_toolkit.input.ansi_escape_sequences import ANSI_SEQUENCES
    for k in ANSI_SEQUENCES:
        if len(k) > 1 and get_cwidth(k) == 1 and has_control(k.replace("\x1b", "")):
            bad("multi-character key data of width 1 would be displayed unmapped", repr(k))
    # dynamic counterpart of the _CHAR_CACHE pin
    c = _CHAR_CACHE["\x1b", "x"]
    if type(c) is not Char or c.char != Char("\x1b", "x").char:
        bad("_CHAR_CACHE does not build cells with Char.__init__", repr(c))
    return v


def scan_cell_stores(tree, rel, parents):
    """`<buffer row>[x] = value`: value must be _CHAR_CACHE[...] / Char(...) / a local bound to one
    of those / a cell read from a screen buffer."""
    v = []
    for fn in ast.walk(tree):
        if not isinstance(fn, (ast.FunctionDef, ast.AsyncFunctionDef)):
            continue
        buf_names, cell_names, cache_names = set(), set(), {"_CHAR_CACHE"}

        def mentions_buf(e):
            for n in ast.walk(e):
                if isinstance(n, ast.Attribute) and n.attr == "data_buffer":
                    return True
                if isinstance(n, ast.Name) and n.id in buf_names:
                    return True
            return False

        def is_cell_expr(e):
            if isinstance(e, ast.Subscript):
                base = e.value
                if isinstance(base, ast.Name) and base.id in cache_names:
                    return True
                return mentions_buf(base)  # a cell read from a buffer
            if isinstance(e, ast.Call):
                f = e.func
                return (isinstance(f, ast.Name) and f.id == "Char") or (isinstance(f, ast.Attribute) and f.attr == "Char")
            if isinstance(e, ast.Name):
                return e.id in cell_names
            return False

        changed = True
        rounds = 0
        while changed and rounds < 6:
            changed = False
            rounds += 1
            for n in ast.walk(fn):
                pairs = []
                if isinstance(n, ast.Assign):
                    for t in n.targets:
                        pairs.append((t, n.value))
                elif isinstance(n, ast.AnnAssign) and n.value is not None:
                    pairs.append((n.target, n.value))
                elif isinstance(n, ast.For):
                    if mentions_buf(n.iter):
                        for t in ast.walk(n.target):
                            if isinstance(t, ast.Name) and t.id not in buf_names:
                                buf_names.add(t.id)
                                changed = True
                for t, val in pairs:
                    if not isinstance(t, ast.Name):
                        continue
                    if isinstance(val, ast.Name) and val.id in cache_names and t.id not in cache_names:
                        cache_names.add(t.id)
                        changed = True
                    elif is_cell_expr(val):
                        if t.id not in cell_names:
                            cell_names.add(t.id)
                            changed = True
                    elif mentions_buf(val) and t.id not in buf_names:
                        buf_names.add(t.id)
                        changed = True
        for n in ast.walk(fn):
            if isinstance(n, ast.Assign):
                for t in n.targets:
                    if isinstance(t, ast.Subscript) and mentions_buf(t.value) and not _is_escape_store(t):
                        if not is_cell_expr(n.value):
                            v.append({"signature": "source scan | screen cell not built by Char.__init__/_CHAR_CACHE",
                                      "msg": f"{rel}:{n.lineno} in {fn.name}: {ast.unparse(n)[:120]}"})
    # dedupe (nested functions are walked twice)
    seen, out = set(), []
    for x in v:
        if x["msg"] not in seen:
            seen.add(x["msg"])
            out.append(x)
    return out


def _is_escape_store(t):
    return any(isinstance(n, ast.Attribute) and n.attr == "zero_width_escapes" for n in ast.walk(t))


def ml_dwidth(case):
    return [f"dwidth {enc_str(t)}" for t in case["ops"]]


def il_dwidth(case):
    from prompt_toolkit.layout.screen import get_display_width
    return [str(get_display_width(t)) for t in case["ops"]]


def or_dwidth(case):
    """the scroll measure must agree with what _copy_body draws (sum of the cell widths)"""
    from prompt_toolkit.layout.screen import get_display_width
    for t in case["ops"]:
        drawn = sum(Char(c, "").width for c in t)
        if get_display_width(t) != drawn:
            return [{"signature": "get_display_width | differs from the width of the drawn cells",
                     "msg": f"{t!r}: {get_display_width(t)} != {drawn}"}]
    return []


def ml_tok(case):
    return [f"tok {enc_str(case['s'])}"]


def il_tok(case):
    return [enc_list([t for k, t in tokenize(case["s"]) if k == "c"], enc_str)]


GEN_SEQS = ["\x1b[0m", "\x1b[?25l", "\x1b[?7h", "\x1b[12C", "\x1b[A", "\x1b[K", "\x1b[J", "\r\n", "\r", "\x08",
            "\x1b[0;38;5;102;48;5;231;7m", "\x1b[?12l\x1b[?25h", "\x1b[2 q", "\x1b]133;A\x07", "\x1b]2;t\x1b\\"]


def gen_tok(rng):
    parts = []
    for _ in range(rng.randrange(0, 8)):
        k = rng.randrange(4)
        if k == 0:
            parts.append(rng.choice(GEN_SEQS))
        elif k == 1:
            parts.append(rand_hostile(rng, rng.randrange(1, 6)))
        elif k == 2:
            parts.append(rng.choice(["\x1b", "\x1b[", "\x1b[1;", "\x1b]0;", "\x1b(", "\x9b", "\x1b[1 ", "\x1bP", "\x1b\x1b"]))
        else:
            parts.append("".join(rng.choice(PRINTABLE[:19]) for _ in range(rng.randrange(1, 5))))
    return {"kind": "tok", "s": "".join(parts)}


# ------------------------------------------------------------------ dispatch
KINDS = {
    "chars": (ml_chars, il_chars, or_chars),
    "str": (ml_str, il_str, or_str),
    "write": (ml_write, il_write, or_write),
    "print": (ml_print, il_print, or_print),
    "render": (ml_render, il_render, or_render),
    "tok": (ml_tok, il_tok, lambda c: []),
    "dwidth": (ml_dwidth, il_dwidth, or_dwidth),
    "e2e_prompt": (lambda c: [], lambda c: [], e2e_prompt),
    "e2e_full": (lambda c: [], lambda c: [], e2e_full),
    "ast": (lambda c: [], lambda c: [], lambda c: ast_scan()),
}


def model_lines(case):
    return KINDS[case["kind"]][0](case)


def impl_lines(case):
    return KINDS[case["kind"]][1](case)


def oracle(case):
    v = KINDS[case["kind"]][2](case)
    seen, out = set(), []
    for x in v:
        if x["signature"] not in seen:
            seen.add(x["signature"])
            out.append(x)
    return out


# ------------------------------------------------------------------ generators
def rand_ft(rng, n, zwe_ok=True):
    """formatted text: list of [style, text] with hostile text and (optionally) explicit zero-width escapes"""
    out = []
    for _ in range(rng.randrange(1, 4)):
        if zwe_ok and rng.random() < 0.25:
            out.append([ZWE, rng.choice(["\x1b]133;A\x07", "\x1b]1337;x=1\x07", "\x1b[5 q"])])
        out.append([rng.choice(STYLES[:6]), rand_hostile(rng, rng.randrange(0, n))])
    return out


def cases(tier, rng):
    quick = tier == "quick"
    yield {"kind": "ast"}
    # ---- Char(c) over the code points
    if quick:
        step = 1024
        for lo in range(0, 0x3400, step):
            yield {"kind": "chars", "range": [lo, lo + step], "style": STYLES[(lo // step) % len(STYLES)],
                   "cache": (lo // step) % 2 == 1}
        edges = set()
        for a, b, _w in wc_edges():
            for cp in (a - 1, a, b, b + 1):
                if 0 <= cp < 0x110000:
                    edges.add(cp)
        edges = sorted(edges)
        for i in range(0, len(edges), 512):
            yield {"kind": "chars", "cps": edges[i:i + 512], "style": "class:a"}
        for _ in range(40):
            plane_hi = rng.choice([0x10000, 0x10000, 0x20000, 0x30000, 0x110000])
            yield {"kind": "chars", "cps": sorted(rng.randrange(0, plane_hi) for _ in range(1000)),
                   "style": rng.choice(STYLES)}
    else:
        step = 4096
        for lo in range(0, 0x110000, step):
            yield {"kind": "chars", "range": [lo, lo + step], "style": STYLES[(lo // step) % len(STYLES)],
                   "cache": (lo // step) % 7 == 3}
    # every mapped character with every style (style suffix logic)
    for st in STYLES:
        yield {"kind": "chars", "range": [0, 0x100], "style": st, "cache": True}
    # ---- multi-character cell strings (merge results, re-styled cells)
    for _ in range(300 if quick else 5000):
        k = rng.randrange(4)
        if k == 0:
            s = rng.choice(PRINTABLE[:19]) + "".join(rng.choice(["́", "‍", "̀", "​"])
                                                     for _ in range(rng.randrange(1, 4)))
        elif k == 1:
            s = rng.choice(["^A", "^[", "<9b>", "^?", " "]) + rng.choice(["", "́", "‍"])
        elif k == 2:
            s = rand_hostile(rng, rng.randrange(0, 4))
        else:
            s = ""
        yield {"kind": "str", "s": s, "style": rng.choice(STYLES)}
    # ---- get_display_width (the horizontal-scroll measure of _copy_body)
    for lo in range(0, 0x100, 64):
        yield {"kind": "dwidth", "ops": [chr(i) for i in range(lo, lo + 64)]}
    for _ in range(60 if quick else 2000):
        yield {"kind": "dwidth", "ops": [rand_hostile(rng, rng.randrange(0, 8)) for _ in range(8)]}
    # ---- Vt100_Output.write
    yield {"kind": "write", "ops": ["\x1b\x1b", "", "a\x1bb\x1b", "\x1b[2J\x1b]0;t\x07"]}
    for lo in range(0, 0x100, 32):
        yield {"kind": "write", "ops": [chr(i) for i in range(lo, lo + 32)]}
    for _ in range(100 if quick else 3000):
        yield {"kind": "write", "ops": [rand_hostile(rng, rng.randrange(0, 12)) for _ in range(rng.randrange(1, 5))]}
    # ---- print_formatted_text
    for _ in range(150 if quick else 4000):
        yield {"kind": "print", "frags": rand_ft(rng, 10)}
    # ---- Window._copy_body + _output_screen_diff + Vt100_Output
    yield from gen_small_render(tier)
    for _ in range(600 if quick else 20000):
        yield gen_rand_render(rng)
    # ---- the tokenizer the theorems use vs the oracle's tokenizer
    for _ in range(400 if quick else 20000):
        yield gen_tok(rng)
    # ---- end to end
    for i in range(24 if quick else 300):
        yield gen_e2e_prompt(rng, i)
    for i in range(8 if quick else 100):
        yield gen_e2e_full(rng, i)



# small-scope alphabet for _copy_body: plain, wide, zero-width (merged), control (caret form, width 2),
# ESC, C1 (hex form, width 4), explicit zero-width escape
SMALL = ["a", "世", "́", "\x01", "\x1b", "\x9b", "Z"]


def small_line(tup):
    """tuple over SMALL -> fragments (the symbol "Z" stands for an explicit zero-width escape fragment)"""
    frs, cur = [], ""
    for sym in tup:
        if sym == "Z":
            if cur:
                frs.append(["class:a", cur])
                cur = ""
            frs.append([ZWE, "\x1b]133;A\x07"])
        else:
            cur += sym
    if cur:
        frs.append(["class:a", cur])
    return frs


def gen_small_render(tier):
    import itertools
    maxlen = 3 if tier == "quick" else 4
    for n in range(maxlen + 1):
        for tup in itertools.product(SMALL, repeat=n):
            line = small_line(tup)
            frames = []
            for width in (1, 2, 3, 4):
                for wrap in (False, True):
                    frames.append({"copies": [{"xpos": 1, "ypos": 0, "width": width, "height": 2, "wrap": wrap,
                                               "hscroll": 0, "vscroll": 0, "vscroll2": 0, "pre": None,
                                               "lines": [line, [["", "b"]]]}],
                                   "diff": {"is_done": False, "full_screen": wrap, "cursor": [0, 0],
                                            "show_cursor": True}})
            yield {"kind": "render", "size": [6, 3], "ops": frames, "small": True}


def rand_line(rng, n):
    frs = []
    for _ in range(rng.randrange(0, 4)):
        if rng.random() < 0.15:
            frs.append([ZWE, rng.choice(["\x1b]133;A\x07", "\x1b]1337;x=1\x07", "", "\x1b[5 q"])])
        else:
            frs.append([rng.choice(STYLES[:7]), rand_hostile(rng, rng.randrange(0, n))])
    return frs


def gen_rand_render(rng):
    cols, rows = rng.choice([3, 5, 8, 12, 20, 40]), rng.choice([1, 2, 3, 5, 8])
    frames = []
    nfr = rng.randrange(1, 4)
    for fi in range(nfr):
        copies = []
        for _ in range(rng.randrange(1, 4)):
            width = rng.randrange(1, cols + 1)
            height = rng.randrange(1, rows + 1)
            pre = None
            if rng.random() < 0.4:
                pre = [rand_line(rng, 4), rand_line(rng, 3)]
            copies.append({"xpos": rng.randrange(0, cols - width + 1), "ypos": rng.randrange(0, rows - height + 1),
                           "width": width, "height": height, "wrap": rng.random() < 0.5,
                           "hscroll": rng.choice([0, 0, 1, 2, 5]), "align": rng.choice([0, 0, 1, 2]),
                           "vscroll": rng.choice([0, 0, 1, 3]),
                           "vscroll2": rng.choice([0, 0, 1]), "pre": pre,
                           "lines": [rand_line(rng, rng.choice([2, 6, 14])) for _ in range(rng.randrange(0, 5))]})
        frames.append({"copies": copies,
                       "diff": {"is_done": fi == nfr - 1 and rng.random() < 0.5, "full_screen": rng.random() < 0.3,
                                "cursor": [rng.randrange(0, cols), rng.randrange(0, rows)],
                                "show_cursor": rng.random() < 0.8}})
    fs = frames[0]["diff"]["full_screen"]
    for fr in frames:
        fr["diff"]["full_screen"] = fs
    return {"kind": "render", "size": [cols, rows], "ops": frames}


def gen_e2e_prompt(rng, i):
    comps = []
    if rng.random() < 0.7:
        for _ in range(rng.randrange(1, 5)):
            comps.append([rand_hostile(rng, 3), rand_hostile(rng, rng.randrange(1, 8)),
                          rand_hostile(rng, rng.randrange(0, 8))])
    c = {"kind": "e2e_prompt", "message": rand_ft(rng, 8), "texts": [
        rand_hostile(rng, rng.randrange(0, 30)) for _ in range(rng.randrange(1, 4))],
        "toolbar": rand_ft(rng, 10) if rng.random() < 0.8 else None,
        "rprompt": rand_ft(rng, 5) if rng.random() < 0.4 else None,
        "placeholder": rand_ft(rng, 5, zwe_ok=False) if rng.random() < 0.2 else None,
        "continuation": rand_ft(rng, 3) if rng.random() < 0.4 else None,
        "completions": comps, "cstyle": rng.randrange(2), "comp_from": rng.randrange(2),
        "verror": rand_hostile(rng, 6) if rng.random() < 0.3 else None,
        "multiline": rng.random() < 0.7, "wrap": rng.random() < 0.7,
        "rows": rng.choice([5, 10, 24]), "cols": rng.choice([10, 20, 40, 80]),
        "height_known": rng.random() < 0.8, "cursor": rng.randrange(0, 30),
        "keybuf": rng.choice([None, None, "j", "\x1b", "\x9b", "世", "\x01", "\x7f", "é"])}
    if rng.random() < 0.3:
        c["texts"] = [c["texts"][0] + "\n" + rand_hostile(rng, 10) + "\n" + rand_hostile(rng, 60)]
    return c


def gen_e2e_full(rng, i):
    return {"kind": "e2e_full", "message": rand_ft(rng, 10), "toolbar": rand_ft(rng, 10),
            "title": rand_hostile(rng, rng.randrange(0, 8)), "label": rand_hostile(rng, rng.randrange(0, 12)),
            "texts": [rand_hostile(rng, rng.randrange(0, 40)) + "\n" + rand_hostile(rng, rng.randrange(0, 40))
                      for _ in range(rng.randrange(1, 3))],
            "wrap": rng.random() < 0.5, "rows": rng.choice([12, 20]), "cols": rng.choice([30, 60]),
            "cursor": rng.randrange(0, 40)}


_WC = None


def wc_edges():
    global _WC
    if _WC is None:
        import gen_c10
        _WC = gen_c10.wc_ranges()
    return _WC


# ------------------------------------------------------------------ evidence helpers
def case_text(case):
    k = case["kind"]
    if k == "chars":
        return "".join(chr(cp) for cp in list(chunk_cps(case))[:300] if not is_sur(cp))
    if k in ("str", "tok"):
        return case["s"]
    if k in ("write", "dwidth"):
        return "".join(case["ops"])
    if k == "print":
        return "".join(t for _, t in case["frags"])
    if k == "render":
        return "".join(t for fr in case["ops"] for cp in fr["copies"] for ln in cp["lines"] for _, t in ln)
    if k in ("e2e_prompt", "e2e_full"):
        parts = list(case["texts"])
        for f in ("message", "toolbar", "rprompt", "continuation", "placeholder"):
            x = case.get(f)
            if isinstance(x, list):
                parts += [t for _, t in x]
        for c in case.get("completions") or []:
            parts += c
        return "".join(parts)
    return ""


def nontrivial(case):
    if case["kind"] == "ast":
        return True
    t = case_text(case)
    return has_control(t) or "\xa0" in t


def sample_view(case):
    if case["kind"] == "chars" and "cps" in case:
        return dict(case, cps=case["cps"][:8] + [f"... {len(case['cps'])} code points"])
    if case["kind"] == "write":
        return dict(case, ops=case["ops"][:6])
    if case["kind"] == "render" and case.get("small"):
        return dict(case, ops=case["ops"][:1] + [f"... {len(case['ops'])} frames: widths 1-4 x wrap off/on"])
    return case


def distribution(cases_):
    d = {"kind": {}, "code_points": 0, "control_chars_in_content": 0}
    for c in cases_:
        d["kind"][c["kind"]] = d["kind"].get(c["kind"], 0) + 1
        if c["kind"] == "chars":
            d["code_points"] += len(chunk_cps(c))
        else:
            d["control_chars_in_content"] += sum(1 for ch in case_text(c) if is_control(ch))
    return d


if __name__ == "__main__":
    sys.exit(core.main(sys.modules[__name__]))
