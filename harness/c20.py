#!/venv/bin/python
"""C20 - output printed from any thread (patch_stdout.StdoutProxy, run_in_terminal.in_terminal):
correspondence with Ptk.Model.C20 / Ptk.Model.C20Chain + property oracle.

Kinds of cases
  proxy : (ops w f wbad close fl cb task run exit wake finish stop start newloop closeloop inval runexit exitrun
          settle)  a real StdoutProxy on a recording Vt100_Output(StringIO), driven step by step under an
          explicit schedule: writer threads (real threads, one call each step), the real
          `patch-stdout-flush-thread` released one section at a time, a real Application
          (pipe input + the recording output) inside an asyncio loop that runs in its own
          thread, started / stopped / its loop closed and replaced at scheduled points.
          The schedule is enforced from the harness only (no source hooks): a StdoutProxy
          subclass pauses in `_flush_queue.get`, `_get_app_loop`, `_write_and_flush`; the loop
          object handed to `_write_and_flush` is a thin stand-in whose `call_soon_threadsafe`
          forwards to the real loop at the scheduled `run` step (with the context captured at
          call time), so "callback accepted" and "callback runs" are separate steps.  The loop itself is a
          SelectorEventLoop subclass (ParkLoop) that, while told so, holds back the FIRST step of the task
          `run_in_terminal` makes, so "callback runs (task made)" and "task starts" are separate steps too;
          a background task of the application (user-level API) that ends only when told keeps `run_async`
          in `cancel_and_wait_for_background_tasks()`, so "run_async wakes up" and "run_async returns" are
          separate steps.  `runexit` / `exitrun` use none of this: callback and `Application.exit()` in one
          real loop callback, the loop's own FIFO order decides the rest.
  chain : `in_terminal` sections (some with a body that stays open across awaits) in a real
          running Application; compared with Ptk.Model.C20Chain.
  soak  : free running threads against an unmodified StdoutProxy (no gates), without / with a
          running Application and across start/stop; only schedule independent facts are compared
          with the model (per-thread projections), the oracle checks the property.
"""
from __future__ import annotations

import asyncio
import contextvars
import io
import itertools
import json
import os
import queue
import re
import sys
import threading
import time
import weakref

sys.path.insert(0, os.path.dirname(os.path.abspath(__file__)))
import core
from core import enc_str, enc_list

from prompt_toolkit.application import Application
from prompt_toolkit.application.current import create_app_session, get_app_session
from prompt_toolkit.application.run_in_terminal import in_terminal
from prompt_toolkit.data_structures import Size
from prompt_toolkit.input import create_pipe_input
from prompt_toolkit.layout import FormattedTextControl, Layout, Window
from prompt_toolkit.output.vt100 import Vt100_Output
from prompt_toolkit import patch_stdout as PS
from prompt_toolkit.patch_stdout import StdoutProxy

ID = "C20"
DRIVER = "drv_c20"
PROPS = ["Ptk.Props.C20", "Ptk.Props.C20Task", "Ptk.Props.C20Term", "Ptk.Props.C20Chain", "Ptk.Props.C20ChainLemmas",
         "Ptk.Props.C20Lock", "Ptk.Props.C20Nest", "Ptk.Props.C20Patch", "Ptk.Props.C20Alt"]
SERIAL = False
ANCHORS = ["src/prompt_toolkit/patch_stdout.py", "src/prompt_toolkit/application/run_in_terminal.py",
           "src/prompt_toolkit/application/application.py", "src/prompt_toolkit/application/current.py",
           "src/prompt_toolkit/renderer.py"]
LEVEL_TEXT = ("Lean 4 theorems over six executable transition-system models with atomic steps at lock / event-loop "
              "granularity, for ANY number of threads and ANY interleaving (induction over arbitrary step lists): "
              "(a) StdoutProxy (write/flush under the RLock, line buffer, flush queue, the flush thread's sections, "
              "hand-off to the application loop; the loop callback in which run_in_terminal makes its task and the task's "
              "first step as SEPARATE steps; application start, exit(), wake-up of run_async (render done, _is_running "
              "False, cancel_and_wait_for_background_tasks) and return of run_async as separate steps; loop "
              "close/replace): stream_invariant, exactly_once_after_flush, write_contiguous, segments_tile, "
              "per_thread_order, conservation (all schedules), inside_bracket / text_never_on_prompt / section_shape, "
              "flusher_alive, flush_then_settle_delivers (arrival), close_delivers, no_newline_in_buffer; "
              "handed_over_written_once / handed_over_delivered / loop_delivers / stop_before_between_after (text handed "
              "to the loop is written exactly once, in hand-over order, wherever exit(), the wake-up and the return of "
              "run_async fall between the callback and the first step of its task), no_task_registered / "
              "stop_keeps_tasks, winding_phase_goes_through_loop, output_is_prefix (in order at every moment, not only "
              "after the flush), and registered_task_cancelled_witness (the same code "
              "with the task registered as a background task of the application loses the text: seeded C20-f); "
              "terminal_receives_written_text / nonraw_output_has_no_escape over constants regenerated from the code "
              "(autowrap sequence, ESC replacement, line-break set; gen_ok); bad_write_changes_nothing; "
              "closed_proxy_writes_nothing (after close() nothing more is written: writes racing with close() "
              "are kept for ever); "
              "(b) in_terminal with the _running_in_terminal_f chain and sections open across awaits: chain_mutex, chain_fifo, "
              "sections_do_not_overlap, prompt_untouched_in_section, section_starts_after_erase; "
              "(c) write/flush split into their shared-state steps with the lock as a model variable: lock_mutex, "
              "lock_stream_invariant, lock_exactly_once, lock_per_thread_order, call_refines_write/flush (a whole call = the "
              "atomic step of model (a)), and a witness that the same code without "
              "the lock loses text; "
              "(d) the AppSession's current-application cell with NESTED applications (set_app as a stack: enter saves the "
              "previous application, exit restores it; nested applications run inside open in_terminal sections, to any "
              "depth): cell_is_innermost, nested_finish_restores_outer, text_never_on_prompt_nested (all schedules), "
              "nested_order_partial, and cell_not_restored_witness (`session.app = None` on exit puts text on the outer "
              "prompt: seeded C20-i); "
              "(e) the patch_stdout() context manager (sys.stdout binding, restore-then-close teardown, writers printing "
              "through whatever sys.stdout is, the flush thread held inside Output.flush): "
              "patch_stdout_routes_every_write, patch_stdout_delivers (every write call made during or after the "
              "with-block reaches the terminal or the restored stream, once, in call order), and "
              "swapped_teardown_loses_text_witness (close before restore: seeded C20-j); "
              "(f) the alternate screen of full-screen applications (Renderer.erase(leave_alternate_screen) / reset / "
              "render's enter_alternate_screen prelude, in_terminal's and _on_resize's calls): section_on_normal_screen, "
              "normal_screen_has_text_once (both application kinds, all schedules), and "
              "erase_stays_in_alternate_screen_witness (seeded C20-l). Four schedule windows in "
              "which the property is FALSE of the current code are refuted on concrete schedules in Lean and replayed on the "
              "real code (known findings K1-K4). Tied to /repo on every run by a differential correspondence (real "
              "StdoutProxy, real threads and a real Application in an asyncio loop thread, driven step by step under "
              "enforced schedules - incl. the first step of run_in_terminal's task and the return of run_async held back "
              "by the harness, and the same schedules produced by the loop's own FIFO order; free-running soak) and the "
              "property oracle. PARTIAL: lock/queue linearizability and the event-loop hand-off are assumptions")
LEVEL_NOTE = ("trusted: Lean kernel, axioms propext/Classical.choice/Quot.sound only; hand-written models (validated by "
              "the correspondence, not proved equal to the Python); threading.RLock / queue.Queue linearizability, asyncio "
              "runs callbacks and first steps of tasks FIFO and atomically between awaits; steps are atomic at the "
              "granularity of the model (real preemption inside a step is not modelled); the schedule gates of the harness "
              "(gated StdoutProxy subclass, loop stand-in, ParkLoop, holder background task)")
TECHNIQUE = "Lean 4 proof over hand-written executable model + differential correspondence with the real code"
RULE = ("proxy: every op sequence up to the tier's length over {write a / b\\n / '' / c\\nd from 2 threads, write(bytes), flush, "
        "flush-thread step} without application; over {write, flush-thread step, loop runs freely, callback only, task "
        "step, start, exit(), wake-up, return, full stop, close loop, new loop, invalidate} after 9 prefixes that put the "
        "flush thread / the loop / the application in each of their hand-off states (incl. task made but not started - with and without a running application -, "
        "run_async winding down); over {callback, task step, exit(), wake-up, return, start, the two one-loop-turn "
        "schedules runexit / exitrun, flush-thread step} after two batches were handed over; each followed by flush + "
        "settle; then seeded random schedules (1-4 threads, up to 60 ops, data with several newlines, ESC, wide chars, "
        "non-str writes, raw on/off, "
        "default and create_app_session sessions, close()), half of them adversarial (arbitrary interleaving of stop / "
        "wake-up / return / loop close / start / task steps) and half calm; chain: every op sequence up to the tier's "
        "length over {enter sync, enter open, "
        "leave 0..2, stop, start, invalidate, exit()} + random; lock: random interleavings of up to 4 threads paused inside "
        "`with self._lock:` (entry of _write/_flush and before they return), incl. calls made while the lock is held "
        "(must block until the holder leaves); soak: free-running writer threads on an unmodified StdoutProxy (no "
        "application / application throughout / application stopped and restarted on a new loop between phases), also "
        "through patch_stdout() + sys.stdout; alt: every op sequence up to the tier's length over {start, stop, "
        "invalidate, resize, write+flush+settle} for a full-screen and an ordinary application + random; nest: every op sequence up to the tier's length over {start application "
        "(nested when a section is open), stop, open / close an in_terminal section, write+flush+settle} after 4 "
        "prefixes (running application; nested application inside a section; text waiting for a section; nested "
        "application finished inside a section) + random with deeper nesting; patch: every op sequence up to the "
        "tier's length over {write a\\n / b / c\\nd from 2 threads through sys.stdout, sys.stdout.flush(), let one held "
        "Output.flush through, main thread leaves `with patch_stdout():`} + random (3 threads, raw on/off). "
        "non-trivial = a proxy case with a non-empty write and at least one flush-thread step, a chain case with a "
        "section, any soak case")
EXHAUSTIVE = True
EXHAUSTIVE_SCOPE = {
    "quick": "proxy without app: all sequences len<=3 over 7 ops; with app: 9 prefixes x all sequences len<=2 over 13 ops; "
             "hand-off vs shutdown: all sequences len<=3 over 9 ops after two accepted batches; "
             "chain: all sequences len<=3 over 9 ops; alt: 2 kinds x all sequences len<=4 over 5 ops; nest: 4 prefixes x all sequences len<=3 over 5 ops; "
             "patch: all sequences len<=4 over 6 ops",
    "thorough": "proxy without app: all sequences len<=5 over 7 ops; with app: 9 prefixes x all sequences len<=3 over 13 ops; "
                "hand-off vs shutdown: all sequences len<=4 over 9 ops; chain: all sequences len<=4 over 9 ops; "
                "alt: 2 kinds x all sequences len<=5 over 5 ops; nest: 4 prefixes x all sequences len<=5 over 5 ops; patch: all sequences len<=5 over 6 ops",
}
TRUSTED = ["harness/c20.py compares, after every scheduled step, the terminal events (erase / render / render-done / "
           "enable_autowrap+write+flush) received by a recording Vt100_Output and Renderer, _buffer, the queue items, the "
           "flush thread's position and locals, accepted-but-not-run callbacks, made-but-not-started run_in_terminal "
           "tasks, app / exit-requested / winding-down / loop state; at the end the output text "
           "and (without application) the exact StringIO content",
           "Ptk/Model/C20.lean, C20Chain.lean, C20Lock.lean, C20Nest.lean, C20Patch.lean, C20Alt.lean are hand translations of patch_stdout.py / "
           "run_in_terminal.py / current.py (set_app) / the parts of application.py they use (correspondence-checked; the functions are listed in MODELLED and hash-pinned)",
           "harness/gen_c20.py probes Vt100_Output.enable_autowrap / write / write_raw and StdoutProxy._write of the current "
           "tree (no threads) and prints what it sees into Ptk/Gen/C20.lean",
           "the schedule gates (StdoutProxy subclass pausing in _flush_queue.get / _get_app_loop / _write_and_flush; loop "
           "stand-in that forwards call_soon_threadsafe to the real loop at the scheduled step with the context captured at "
           "call time; ParkLoop = SelectorEventLoop whose call_soon holds back the first step of a run_in_terminal task "
           "until the scheduled step; a background task of the application that ends when told, which keeps run_async "
           "inside cancel_and_wait_for_background_tasks) pause threads / callbacks only at synchronisation points; they "
           "do not change what the code computes. The held-back schedules are cross-checked by runexit / exitrun, which "
           "use the loop's own FIFO order only. The flush queue's put() delays an item only when a writer calls it "
           "WITHOUT holding the proxy lock (never with the code as it is): the item then arrives after the next complete "
           "call of another thread, which is a legal preemption of a thread that is outside the lock",
           "nest cases: nested Applications are run by a coroutine that sits inside a real `async with in_terminal():` of "
           "the outer one; patch cases: the real patch_stdout() is entered by a thread of its own, sys.stdout of the "
           "worker process is replaced for the duration of the case (a StringIO stands for the original stream), the "
           "session Output holds the flush thread inside flush() until told, and the proxy's flush queue is replaced "
           "by a counting subclass right after entry (to see when the flush thread is idle)"]
ASSUMPTIONS = ["threading.RLock admits one owner at a time (checked at run time: _is_owned inside _write/_flush, a second "
               "caller blocks while a thread is paused inside the block); queue.Queue is a linearizable FIFO; the "
               "get()+get_nowait() drain of the flush thread is atomic w.r.t. put()",
               "an asyncio loop runs accepted callbacks and the first steps of tasks in FIFO order, each atomically up to "
               "its first real suspension; a closed loop raises RuntimeError from call_soon_threadsafe and drops what it "
               "had accepted and the tasks that did not start",
               "Application.run_async: the start (_is_running, AppSession.app, app.loop set, first render) is atomic for the "
               "other threads; the shutdown is two atomic steps: wake-up (render done, _is_running False, background tasks "
               "cancelled) and return (app removed from the session, app.loop None)",
               "the Output object is used by one thread at a time (Vt100_Output.write/flush are not thread-safe themselves)",
               "lone surrogates are outside the alphabet; non-str data: only objects for which `'\\n' in data` raises "
               "TypeError (bytes, None, numbers)"]
PARTIAL_SCOPE = ["preemption inside write/flush is modelled only down to the shared-state steps of C20Lock (read buffer, assign "
                 "buffer, put); the RLock itself, list.append and Queue.put/get are atomic by assumption", "sleep_between_writes only delays; it is 0 in gated runs",
                 "K1: loop closed while it holds accepted callbacks, or tasks made by run_in_terminal that did not start "
                 "-> text lost (theorems assume `calm`). No small repair: needs an acknowledgement from the loop to the flush "
                 "thread; waiting for it blocks the flush thread (and close()) for ever on a loop that is stopped but never "
                 "closed",
                 "K2: direct write from the flush thread while accepted callbacks / tasks wait -> order swapped (`calm`). "
                 "Writing through the last seen loop while it is_running() would narrow it to K1's window but delays prints "
                 "between two applications on one loop; not a maintainer-neutral patch",
                 "K3: application starts between `_get_app_loop() is None` and the direct write -> text on the drawn "
                 "prompt (`startCalm`); needs a lock shared with Application.run_async",
                 "several event loops alive at the same time (applications in different threads) are not modelled: one "
                 "current loop; a second run_async of the same Application while the first winds down is not modelled",
                 "CPR waiting in in_terminal / run_async, render_cli_done=True, in_executor=True bodies: only through "
                 "the open-section chain model; the proxy model assumes no other in_terminal section is open when its task runs",
                 "write() with a list / tuple / dict of strings is accepted silently and makes a later flush() raise (observed; "
                 "outside the property's alphabet)",
                 "K4: text waiting for an open in_terminal section of the outer application is overtaken by text printed "
                 "while a nested application runs in that section (`nestCalm`); the chain is per Application, not per session",
                 "nest model: a write is one step (look-up, hand-off and task condensed: the hand-off windows are model (a)'s "
                 "subject); nested applications only inside an open section of the innermost one; patch model: the "
                 "look-up of sys.stdout and the call are one step (a thread that has loaded sys.stdout before the block is "
                 "left and calls write() after close() writes to a closed proxy: outside the quantifier, "
                 "closed_proxy_writes_nothing); sys.stderr is bound like sys.stdout; an unfinished last line nobody "
                 "flushed stays in the line buffer when the block is left (close() does not flush it)",
                 "alt model: one section = one step; of Renderer.render only the full-screen prelude (enter_alternate_screen) is "
                 "modelled, of reset only the alternate-screen part; mouse support / bracketed paste / cursor keys mode are not",
                 "Windows outputs, isatty/fileno/encoding passthrough not modelled"]
MODELLED = {
    "src/prompt_toolkit/patch_stdout.py": [
        "StdoutProxy.write", "StdoutProxy.flush", "StdoutProxy._write", "StdoutProxy._flush", "StdoutProxy.close",
        "StdoutProxy._start_write_thread", "StdoutProxy._write_thread", "StdoutProxy._get_app_loop",
        "StdoutProxy._write_and_flush", "StdoutProxy._write_and_flush.write_and_flush",
        "StdoutProxy._write_and_flush.write_and_flush_in_loop", "patch_stdout"],
    "src/prompt_toolkit/application/current.py": ["set_app", "get_app_or_none"],
    "src/prompt_toolkit/renderer.py": ["Renderer.erase", "Renderer.reset"],
    "src/prompt_toolkit/application/run_in_terminal.py": ["run_in_terminal", "run_in_terminal.run", "in_terminal"],
    "src/prompt_toolkit/application/application.py": [
        # run_async: the ExitStack (set_is_running, set_loop, set_app, create_future), `await f` and the `finally:` parts
        # (render done, _is_running False, wait for the run-in-terminal chain, cancel background tasks); the input
        # handling inside `_run_async` is not modelled
        "Application.run_async", "Application.run_async.set_loop", "Application.run_async.set_is_running",
        "Application.cancel_and_wait_for_background_tasks", "Application.exit"],
}

TIMEOUT = float(os.environ.get("VERIF_C20_TIMEOUT", "10"))


class RigTimeout(Exception):
    pass


def retry_on_timeout(run):
    """A call into the event-loop thread (`LoopThread.call`: a coroutine of a few `sleep(0)` steps) that does not
    come back within TIMEOUT is an infrastructure problem - seen on a badly overloaded machine (load 90 on 16
    cores), never otherwise - not a verdict: the case is run once more, on a fresh rig and with three times the
    patience.  A real hang of the code under test hangs again and is reported.  Other timeouts (a writer that
    blocks, a lock that is not handed over, ...) are what mutated code produces; they are not retried."""
    import functools

    @functools.wraps(run)
    def wrapper(*a, **k):
        global TIMEOUT
        res = run(*a, **k)
        rec = res[1] if isinstance(res, tuple) else res
        if not any(str(e).startswith("timeout: loop") for e in rec.get("errors", ())):
            return res
        old = TIMEOUT
        TIMEOUT = old * 3
        try:
            return run(*a, **k)
        finally:
            TIMEOUT = old
    return wrapper


def _noop():
    pass


def _debug_dump(what):
    """VERIF_C20_DEBUG=<file>: append the stacks of all threads when a rig operation times out"""
    path = os.environ.get("VERIF_C20_DEBUG")
    if not path:
        return
    import traceback
    with open(path, "a") as f:
        f.write("==== %s pid=%d\n" % (what, os.getpid()))
        names = {t.ident: t.name for t in threading.enumerate()}
        for ident, frame in sys._current_frames().items():
            f.write("-- thread %s\n" % names.get(ident, ident))
            f.write("".join(traceback.format_stack(frame)[-8:]))


# ------------------------------------------------------------------ recording output
class RecOutput(Vt100_Output):
    """A real Vt100_Output on a StringIO that also records what it is asked to do.
    Calls made from inside a renderer operation (erase / render / reset) are not recorded
    one by one: the renderer operation itself is one event."""

    def __init__(self, rig):
        self.rig = rig
        self.sio = io.StringIO()
        super().__init__(self.sio, lambda: Size(rows=24, columns=80), term="xterm")

    def _rec(self, ev):
        rig = self.rig
        if getattr(rig.tl, "depth", 0) == 0:
            rig.events.append(ev + (threading.current_thread().name,))

    def enable_autowrap(self):
        self._rec(("A",))
        tl = self.rig.tl
        tl.depth = getattr(tl, "depth", 0) + 1
        try:
            super().enable_autowrap()
        finally:
            tl.depth -= 1

    def write(self, data):
        self._rec(("W", 0, data))
        super().write(data)

    def write_raw(self, data):
        self._rec(("W", 1, data))
        super().write_raw(data)

    def flush(self):
        self._rec(("F",))
        super().flush()


def wrap_renderer(rig, app):
    r = app.renderer

    def mk(name, orig):
        def wrapped(*a, **k):
            tl = rig.tl
            if getattr(tl, "depth", 0) == 0:
                if name == "erase":
                    rig.events.append(("E", threading.current_thread().name))
                elif name == "render":
                    rig.events.append(("X" if k.get("is_done") else "D", threading.current_thread().name))
            tl.depth = getattr(tl, "depth", 0) + 1
            try:
                return orig(*a, **k)
            finally:
                tl.depth -= 1
        return wrapped

    for name in ("erase", "render", "reset"):
        setattr(r, name, mk(name, getattr(r, name)))


# ------------------------------------------------------------------ event loop in a thread
RIT_FILE = "application/run_in_terminal.py"


class ParkLoop(asyncio.SelectorEventLoop):
    """The event loop the application runs on.  It is the ordinary selector loop; the only difference: while
    `rig.park` is set (= while the hand-over callback of step `cb` runs), the FIRST step of a task whose coroutine
    is defined in application/run_in_terminal.py (today: `run_in_terminal`'s `run()`) is not put into the ready
    queue but parked in `rig.parked`, and put there when the schedule says `task`.  (However the task was made:
    `ensure_future`, `loop.create_task`, `app.create_background_task` all end in
    `loop.call_soon(<step of the task>)`.)  Everything else passes through untouched."""

    rig = None

    def call_soon(self, callback, *args, context=None):
        rig = self.rig
        if rig is not None and rig.park:
            task = getattr(callback, "__self__", None)
            if isinstance(task, asyncio.Task) and task not in rig.seen_tasks:
                code = getattr(task.get_coro(), "cr_code", None)
                if getattr(code, "co_filename", "").replace("\\", "/").endswith(RIT_FILE):
                    rig.seen_tasks.add(task)
                    rig.parked.append((self, task, callback, args, context, rig.cb_text))
                    return asyncio.Handle(_noop, (), self)
        return super().call_soon(callback, *args, context=context)


class LoopThread:
    def __init__(self, rig, gen):
        self.rig = rig
        self.gen = gen
        self.loop = None
        self.ready = threading.Event()
        self.stopped = threading.Event()
        self.may_close = threading.Event()
        self.closed = threading.Event()
        ctx = contextvars.copy_context()   # same AppSession as the harness thread
        self.thread = threading.Thread(target=ctx.run, args=(self._main,), name=f"loop-{gen}", daemon=True)
        self.thread.start()
        if not self.ready.wait(TIMEOUT):
            raise RigTimeout("loop start")

    def _main(self):
        loop = ParkLoop()
        loop.rig = self.rig
        self.loop = loop
        self.quit = loop.create_future()
        self.ready.set()
        try:
            loop.run_until_complete(self.quit)
        finally:
            self.stopped.set()
            self.may_close.wait(TIMEOUT)
            try:
                loop.close()
            finally:
                self.closed.set()

    def call(self, coro):
        fut = asyncio.run_coroutine_threadsafe(coro, self.loop)
        try:
            return fut.result(TIMEOUT)
        except Exception as e:
            if isinstance(e, (TimeoutError, asyncio.TimeoutError)) or type(e).__name__ == "TimeoutError":
                _debug_dump("loop call " + getattr(coro, "__qualname__", "?"))
                raise RigTimeout("loop call")
            raise

    async def _barrier(self, n=8):
        for _ in range(n):
            await asyncio.sleep(0)

    def barrier(self, n=8):
        self.call(self._barrier(n))

    def stop_running(self):
        """let run_until_complete return; the loop is then stopped but not closed"""
        if not self.stopped.is_set():
            self.loop.call_soon_threadsafe(lambda: self.quit.done() or self.quit.set_result(None))
            if not self.stopped.wait(TIMEOUT):
                raise RigTimeout("loop stop")

    def close(self):
        self.stop_running()
        self.may_close.set()
        if not self.closed.wait(TIMEOUT):
            raise RigTimeout("loop close")
        self.thread.join(TIMEOUT)


class ShimLoop:
    """Stands in for the event loop between `_get_app_loop` and `_write_and_flush`:
    `call_soon_threadsafe` asks the real loop whether it accepts callbacks (a closed loop raises
    its genuine RuntimeError) and then parks the callback until the schedule says `run`."""

    def __init__(self, rig, lt):
        self.rig = rig
        self.lt = lt

    def call_soon_threadsafe(self, cb, *args, context=None):
        self.lt.loop.call_soon_threadsafe(_noop)          # RuntimeError('Event loop is closed') if closed
        ctx = context if context is not None else contextvars.copy_context()
        self.rig.pending.append((self.lt, cb, args, ctx, self.rig.emit_text))

    def is_closed(self):
        return self.lt.loop.is_closed()

    def __getattr__(self, name):
        return getattr(self.lt.loop, name)


# ------------------------------------------------------------------ gated proxy
class GatedQueue(queue.Queue):
    def __init__(self, rig):
        super().__init__()
        self.rig = rig

    def get(self, block=True, timeout=None):
        if block and threading.current_thread().name == "patch-stdout-flush-thread":
            self.rig.gate("get")
        return super().get(block, timeout)

    def put(self, item, block=True, timeout=None):
        rig = self.rig
        name = threading.current_thread().name
        proxy = getattr(rig, "proxy", None)
        if name.startswith("writer-") and not rig.free and proxy is not None and not proxy._lock._is_owned():
            # Never reached with the code as it is (`put` happens inside `with self._lock:`).  A thread that has
            # left the lock can be preempted for any length of time before its next statement: the item reaches
            # the queue after the next complete call of another thread (`Rig.deliver_late`).
            rig.notes.append("put-outside-lock")
            rig.late_puts.append((name, item))
            return
        return super().put(item, block, timeout)


class GatedProxy(StdoutProxy):
    def __init__(self, rig, **kw):
        self.rig = rig
        super().__init__(**kw)

    def _start_write_thread(self):
        self._flush_queue = GatedQueue(self.rig)
        return super()._start_write_thread()

    def _write_thread(self):
        try:
            super()._write_thread()
        except BaseException as e:  # the flush thread dies
            self.rig.fl_exc = e
        finally:
            self.rig.fl_at = ("exited",)
            self.rig.fl_arrived.set()

    def _write(self, data):
        if not self._lock._is_owned():
            self.rig.notes.append("unlocked-write")
        return super()._write(data)

    def _flush(self):
        if not self._lock._is_owned():
            self.rig.notes.append("unlocked-flush")
        return super()._flush()

    def _get_app_loop(self):
        self.rig.gate("getloop")
        loop = super()._get_app_loop()
        if loop is None or self.rig.free:
            return loop
        return self.rig.shim_for(loop)

    def _write_and_flush(self, loop, text):
        self.rig.gate("emit", loop, text)
        self.rig.emit_text = text
        if loop is None and (self.rig.pending or self.rig.parked):
            # accepted callbacks, or the tasks they made, still wait in the loop
            self.rig.notes.append("direct-with-pending")
        return super()._write_and_flush(loop, text)


class Rig:
    """One real StdoutProxy + output + (optionally) application and loops, under harness control."""

    def __init__(self, raw=False, session="default", gated=True, sleep=0.0, via_patch=False):
        self.tl = threading.local()
        self.events = []
        self.ev_pos = 0
        self.free = not gated
        self.gated = gated
        self.fl_at = None
        self.fl_prev = None
        self.fl_exc = None
        self.fl_arrived = threading.Event()
        self.fl_permit = threading.Semaphore(0)
        self.emit_text = None
        self.pending = []
        self.park = False        # ParkLoop parks the first step of run_in_terminal tasks while this is set
        self.parked = []         # (loop, task, step callback, args, context, text), oldest first
        self.seen_tasks = weakref.WeakSet()
        self.cb_text = None
        self.late_puts = []      # (thread name, item): queue items put by a writer that no longer held the lock
        self.hold_gate = None    # asyncio.Event the holder task waits for while run_async winds down
        self.hold = False
        self.lost = []
        self.notes = []
        self.loops = []          # LoopThread objects, newest last
        self.shims = {}
        self.gen = 0
        self.app = None
        self.app_task = None
        self.exit_requested = False
        self.real_future = None
        self.inp_cm = None
        self.writers = {}
        self.close_thread = None
        self.session_mode = session
        self._patch_cm = None
        self.out = getattr(self, "OUT", RecOutput)(self)
        self._sess_cm = None
        self._saved = None
        if session == "custom":
            self._sess_cm = create_app_session(output=self.out)
            self.session = self._sess_cm.__enter__()
        else:
            self.session = get_app_session()
            self._saved = (self.session._output, self.session.app)
            self.session._output = self.out
            self.session.app = None
        try:
            if gated:
                self.proxy = getattr(self, "PROXY", GatedProxy)(self, sleep_between_writes=sleep, raw=raw)
                self.wait_fl()
            elif via_patch:
                # the public entry point: `with patch_stdout(): ...`, writers use sys.stdout
                self._patch_cm = PS.patch_stdout(raw=raw)
                self._patch_cm.__enter__()
                self.proxy = sys.stdout
            else:
                self.proxy = StdoutProxy(sleep_between_writes=sleep, raw=raw)
        except BaseException:
            self.teardown()
            raise

    # -- flush thread control
    def gate(self, name, *info):
        if self.free:
            return
        self.fl_prev = self.fl_at
        self.fl_at = (name,) + info
        self.fl_arrived.set()
        if not self.fl_permit.acquire(timeout=TIMEOUT * 6):
            raise RigTimeout("flush thread gate " + name)

    def wait_fl(self):
        if not self.fl_arrived.wait(TIMEOUT):
            raise RigTimeout("flush thread did not arrive")

    def fl_enabled(self):
        self.wait_fl()
        at = self.fl_at[0]
        if at == "exited":
            return False
        if at == "get":
            return self.proxy._flush_queue.qsize() > 0
        return True

    def fl_step(self):
        if not self.fl_enabled():
            return
        self.fl_arrived.clear()
        self.fl_permit.release()
        self.wait_fl()

    def fl_pc(self):
        self.wait_fl()
        at = self.fl_at
        if at[0] == "exited":
            return "exited" if self.fl_exc is None else "died:" + type(self.fl_exc).__name__
        if at[0] == "get":
            return "idle"
        if at[0] == "getloop":
            if self.fl_prev is not None and self.fl_prev[0] == "emit":
                lp = self.fl_prev[1]
                return "relook:%s" % (lp.lt.gen if isinstance(lp, ShimLoop) else "?")
            return "batch"
        lp, text = at[1], at[2]
        g = "N" if lp is None else (lp.lt.gen if isinstance(lp, ShimLoop) else "?")
        return "ready:%s:%s" % (g, enc_str(text))

    def shim_for(self, loop):
        for lt in self.loops:
            if lt.loop is loop:
                if id(lt) not in self.shims:
                    self.shims[id(lt)] = ShimLoop(self, lt)
                return self.shims[id(lt)]
        raise RuntimeError("application runs on a loop the harness does not know")

    # -- writers
    def writer(self, t):
        if t not in self.writers:
            q = queue.Queue()
            done = threading.Event()

            def body():
                while True:
                    cmd = q.get()
                    if cmd is None:
                        return
                    try:
                        if cmd[0] == "w":
                            self.proxy.write(cmd[1])
                        elif cmd[0] == "f":
                            self.proxy.flush()
                        elif cmd[0] == "wbad":
                            try:
                                self.proxy.write(cmd[1])
                                self.notes.append("bad-write-accepted")
                            except TypeError:
                                pass
                            except Exception as e:
                                self.notes.append("bad-write-raised:" + type(e).__name__)
                        elif cmd[0] == "ww":      # free running: a whole list of writes
                            for d in cmd[1]:
                                self.proxy.write(d)
                    finally:
                        done.set()

            th = threading.Thread(target=body, name=f"writer-{t}", daemon=True)
            th.start()
            self.writers[t] = (q, done, th)
        return self.writers[t]

    def do_write(self, t, data):
        q, done, _ = self.writer(t)
        done.clear()
        q.put(("w", data))
        if not done.wait(TIMEOUT):
            raise RigTimeout("write blocked")

    # objects for which `"\n" in data` raises TypeError.  (A list / tuple / dict of strings does NOT raise there:
    # write(["a"]) is silently appended to the line buffer and makes a later flush() raise in "".join - observed,
    # outside the property's alphabet, not claimed.)
    BAD = [b"x\n", None, 5, b"", 2.5]

    def do_write_bad(self, t, kind):
        """write() with something that is not a str"""
        q, done, _ = self.writer(t)
        done.clear()
        q.put(("wbad", self.BAD[kind % len(self.BAD)]))
        if not done.wait(TIMEOUT):
            raise RigTimeout("write blocked")

    def do_flush(self, t):
        q, done, _ = self.writer(t)
        done.clear()
        q.put(("f",))
        if not done.wait(TIMEOUT):
            raise RigTimeout("flush blocked")

    def do_close(self):
        """StdoutProxy.close() from its own thread: puts _Done, then blocks in join()"""
        if self.close_thread is not None:
            return
        n = self.proxy._flush_queue.qsize()
        self.close_thread = threading.Thread(target=self.proxy.close, name="closer", daemon=True)
        self.close_thread.start()
        t0 = time.time()
        while self.proxy._flush_queue.qsize() == n and self.close_thread.is_alive():
            if time.time() - t0 > TIMEOUT:
                raise RigTimeout("close did not enqueue")
            time.sleep(0.0005)

    def deliver_late(self, exclude=None):
        """the preempted writers (see GatedQueue.put) get on: their items reach the queue now"""
        keep = []
        for name, item in self.late_puts:
            if name == exclude:
                keep.append((name, item))
            else:
                queue.Queue.put(self.proxy._flush_queue, item)
        self.late_puts[:] = keep

    # -- loops and application
    def cur_loop(self):
        return self.loops[-1] if self.loops and not self.loops[-1].closed.is_set() else None

    def app_on(self):
        return self.session.app is not None

    def new_loop(self):
        if self.cur_loop() is not None:
            return
        self.gen += 1
        self.loops.append(LoopThread(self, self.gen))

    def ensure_app(self):
        if self.app is None:
            self.inp_cm = create_pipe_input()
            inp = self.inp_cm.__enter__()
            self.app = Application(layout=Layout(Window(FormattedTextControl(">"))), input=inp, output=self.out)
            wrap_renderer(self, self.app)

    def start_app(self):
        lt = self.cur_loop()
        if lt is None or self.app_on():
            return
        if self.gated and self.fl_at is not None and self.fl_at[0] == "emit" and self.fl_at[1] is None:
            # the flush thread found no application and is about to write directly
            self.notes.append("start-in-direct-window")
        self.ensure_app()

        async def holder():
            # a background task of the application (user-level API): when `run_async` cancels its
            # background tasks and waits for them, this one ends only when the schedule says `finish`
            try:
                await asyncio.Event().wait()
            except asyncio.CancelledError:
                gate = self.hold_gate
                if self.hold and gate is not None:
                    await gate.wait()

        async def go():
            self.hold_gate = asyncio.Event()
            self.app_task = asyncio.ensure_future(self.app.run_async())
            for _ in range(100):
                await asyncio.sleep(0)
                if self.app._is_running and self.session.app is self.app:
                    break
            self.app.create_background_task(holder())
            for _ in range(4):
                await asyncio.sleep(0)

        lt.call(go())
        if self.session.app is not self.app:
            raise RigTimeout("application did not start")

    def running(self):
        app = self.app
        return app is not None and self.session.app is app and app._is_running

    def winding(self):
        """`run_async` has drawn the done state and reset `_is_running`, but has not returned"""
        app = self.app
        return app is not None and self.session.app is app and not app._is_running

    def _release_cancelled(self):
        """a parked task that was cancelled meanwhile (only possible when the task is one of the application's
        background tasks) gets its step: the step does nothing but end the task, and `run_async` waits for it"""
        keep = []
        for item in self.parked:
            loop, task, cb, args, ctx, text = item
            if task.cancelling() > 0:
                loop.call_soon(cb, *args, context=ctx)
                self.notes.append("parked-task-cancelled")
            else:
                keep.append(item)
        self.parked[:] = keep

    def wake(self):
        """`Application.exit()` + the wake-up of `run_async`: final rendering, `_is_running = False`,
        `cancel_and_wait_for_background_tasks()` - where it stays (the holder task) until `finish`"""
        if not self.running():
            return
        lt = self.cur_loop()
        app = self.app

        async def go():
            self.hold = True
            self._restore_future()
            app.exit()
            for _ in range(200):
                await asyncio.sleep(0)
                if not app._is_running:
                    break
            for _ in range(6):
                self._release_cancelled()
                await asyncio.sleep(0)

        lt.call(go())
        if app._is_running:
            raise RigTimeout("run_async did not wake up")

    def finish(self):
        """`run_async` returns"""
        if not self.winding():
            return
        lt = self.cur_loop()

        async def go():
            self.hold = False
            self.hold_gate.set()
            for _ in range(100000):
                if self.app_task.done():
                    break
                self._release_cancelled()
                await asyncio.sleep(0)
            await self.app_task

        lt.call(go())

    def stop_app(self):
        if not self.app_on():
            return
        if self.winding():
            self.finish()
            return
        lt = self.cur_loop()

        async def go():
            self.hold = False
            self._restore_future()
            self.app.exit()
            for _ in range(100000):
                if self.app_task.done():
                    break
                self._release_cancelled()
                await asyncio.sleep(0)
            await self.app_task

        lt.call(go())

    def _restore_future(self):
        if self.exit_requested:
            self.app.future = self.real_future
            self.exit_requested = False
            self.real_future = None

    def is_done(self):
        app = self.app
        return bool(app is not None and self.session.app is app and app._is_running and app.is_done)

    def request_exit(self):
        """The exit-requested phase: `Application.exit()` has completed the future (`app.is_done`), `run_async`
        has not resumed yet (`_is_running` still True, prompt still drawn).  In the real loop the phase lasts
        until the wake-up of `run_async` is run; to keep it open across scheduled steps the harness puts a
        completed future in `app.future` and hands the real one back right before the real `exit()` of the
        `stop` step.  (`runexit` drives the same phase without this stand-in, in one real loop turn.)"""
        app = self.app
        if app is None or self.session.app is not app or not app._is_running or self.exit_requested:
            return
        lt = self.cur_loop()

        async def go():
            self.real_future = app.future
            fake = asyncio.get_running_loop().create_future()
            fake.set_result(None)
            app.future = fake

        lt.call(go())
        self.exit_requested = True

    def run_exit(self, exit_first=False):
        """one real loop turn, no parking: the oldest accepted callback and `Application.exit()` in ONE loop
        callback.  exit_first=False: the callback first - the task it makes is queued before the wake-up of
        `run_async` and runs in the exit-requested phase.  exit_first=True: `exit()` first - the wake-up of
        `run_async` is queued before the task's first step, `run_async` finishes (and cancels its background
        tasks) while the task has not started."""
        self.release_all()
        app = self.app
        if not self.running():
            self.run_pending()
            self.stop_app()
            return
        if not self.pending:
            self.stop_app()
            return
        lt, cb, args, ctx, text = self.pending.pop(0)

        def both():
            if exit_first:
                self._restore_future()
                app.exit()
                ctx.run(cb, *args)
            else:
                ctx.run(cb, *args)
                self._restore_future()
                app.exit()

        self.hold = False
        lt.loop.call_soon_threadsafe(both)

        async def wait():
            await self.app_task

        lt.call(wait())
        lt.barrier()

    # -- tasks made by run_in_terminal
    def cb_only(self):
        """the oldest accepted callback runs; the first step of the task it makes is parked"""
        if not self.pending:
            return
        lt, cb, args, ctx, text = self.pending.pop(0)
        self.cb_text = text
        self.park = True
        try:
            lt.loop.call_soon_threadsafe(cb, *args, context=ctx)
            lt.barrier()
        finally:
            self.park = False

    def task_step(self):
        """the oldest parked task gets its first step"""
        if not self.parked:
            return
        loop, task, cb, args, ctx, text = self.parked.pop(0)
        lt = next(l for l in self.loops if l.loop is loop)
        loop.call_soon_threadsafe(cb, *args, context=ctx)
        lt.barrier()

    def release_all(self):
        while self.parked:
            self.task_step()

    def invalidate(self):
        """Application.invalidate() and the redraw it schedules"""
        app = self.app
        if app is None or not app._is_running or self.session.app is not app:
            return
        lt = self.cur_loop()

        async def go():
            app.invalidate()

        lt.call(go())
        t0 = time.time()
        while app._invalidated:
            if time.time() - t0 > TIMEOUT:
                raise RigTimeout("redraw after invalidate did not happen")
            time.sleep(0.0005)
        lt.barrier(3)

    def run_pending(self):
        """the loop runs freely: the tasks that wait, then the oldest accepted callback and the task it makes"""
        self.release_all()
        if not self.pending:
            return
        lt, cb, args, ctx, text = self.pending.pop(0)
        lt.loop.call_soon_threadsafe(cb, *args, context=ctx)
        lt.barrier()

    def close_loop(self):
        lt = self.cur_loop()
        if lt is None or self.app_on():
            return
        lt.stop_running()
        # the tasks that did not start and the callbacks the loop had accepted are in its ready queue when it
        # is closed
        dropped = []
        for (loop, task, cb, args, ctx, text) in self.parked:
            task._log_destroy_pending = False
            loop.call_soon_threadsafe(cb, *args, context=ctx)
            self.lost.append(text)
            self.notes.append("closed-with-pending")
            dropped.append(task)
        self.parked = []
        for (l2, cb, args, ctx, text) in self.pending:
            l2.loop.call_soon_threadsafe(cb, *args, context=ctx)
            self.lost.append(text)
            self.notes.append("closed-with-pending")
        self.pending = []
        lt.close()
        for task in dropped:
            task.get_coro().close()      # nobody will ever run it (only silences "never awaited")

    def settle(self, limit=100000):
        for _ in range(limit):
            if self.parked:
                self.task_step()
            elif self.pending:
                self.cb_only()
            elif self.fl_enabled():
                self.fl_step()
            else:
                return

    # -- observation
    def take_events(self):
        evs = self.events[self.ev_pos:]
        self.ev_pos += len(evs)
        return evs

    def state_line(self):
        p = self.proxy
        items = list(p._flush_queue.queue)
        q = enc_list(items, lambda i: enc_str(i) if isinstance(i, str) else "DONE")
        lt = self.loops[-1] if self.loops else None
        lopen = 1 if (lt is not None and not lt.loop.is_closed()) else 0
        app = 1 if (self.session.app is not None and self.session.app._is_running) else 0
        return ("buf=%s q=%s fl=%s pend=%s tasks=%s lost=%s app=%d exit=%d wind=%d loop=%d/%d" % (
            enc_str("".join(x if isinstance(x, str) else repr(x) for x in p._buffer)), q, self.fl_pc(),
            enc_list([x[4] for x in self.pending], enc_str), enc_list([x[5] for x in self.parked], enc_str),
            enc_list(self.lost, enc_str), app, 1 if self.is_done() else 0, 1 if self.winding() else 0, self.gen, lopen))

    # -- teardown: never hangs
    def teardown(self):
        errs = []
        self.free = True
        for _ in range(4):
            self.fl_permit.release()

        def attempt(f):
            try:
                f()
            except BaseException as e:
                errs.append(repr(e))

        # deliver what is parked, stop the application, close the proxy, close the loops
        def deliver():
            self.park = False
            for (loop, task, cb, args, ctx, text) in self.parked:
                task._log_destroy_pending = False
                try:
                    loop.call_soon_threadsafe(cb, *args, context=ctx)
                except RuntimeError:
                    pass
            self.parked = []
            for (lt, cb, args, ctx, text) in self.pending:
                try:
                    lt.loop.call_soon_threadsafe(cb, *args, context=ctx)
                except RuntimeError:
                    pass
            self.pending = []
        attempt(deliver)
        if getattr(self, "proxy", None) is not None:
            def close_proxy():
                if self.close_thread is None:
                    target = self.proxy.close
                    if self._patch_cm is not None:
                        target = lambda: self._patch_cm.__exit__(None, None, None)
                    self.close_thread = threading.Thread(target=target, daemon=True)
                    self.close_thread.start()
                self.close_thread.join(TIMEOUT)
                if self.close_thread.is_alive():
                    # the flush thread died earlier: close() waits in join() for a dead thread? no -
                    # join() of a dead thread returns; a live blocked one is reported
                    raise RigTimeout("close() did not return")
            attempt(close_proxy)
        attempt(lambda: self.stop_app())
        for lt in self.loops:
            attempt(lt.close)
        for (q, done, th) in self.writers.values():
            q.put(None)
        for (q, done, th) in self.writers.values():
            th.join(TIMEOUT)
        if self.inp_cm is not None:
            attempt(lambda: self.inp_cm.__exit__(None, None, None))
        if self._sess_cm is not None:
            attempt(lambda: self._sess_cm.__exit__(None, None, None))
        elif self._saved is not None:
            self.session._output, self.session.app = self._saved
        return errs


# ------------------------------------------------------------------ canonical events
def canon_events(evs):
    """A W F (enable_autowrap, write, flush outside any renderer operation) = one emission."""
    out = []
    i = 0
    while i < len(evs):
        e = evs[i]
        if e[0] == "A" and i + 2 < len(evs) and evs[i + 1][0] == "W" and evs[i + 2][0] == "F":
            out.append("O%d:%s" % (evs[i + 1][1], enc_str(evs[i + 1][2])))
            i += 3
        elif e[0] in ("E", "D", "X"):
            out.append(e[0])
            i += 1
        elif e[0] in ("B", "b"):
            out.append("%s%d" % (e[0], e[1]))
            i += 1
        else:
            out.append("?" + e[0] + (":" + enc_str(e[2]) if e[0] == "W" else ""))
            i += 1
    return out


def op_line(op):
    k = op[0]
    if k == "w":
        return "w %d %s" % (op[1], enc_str(op[2]))
    if k == "f":
        return "f %d" % op[1]
    if k == "wbad":
        return "wbad %d" % op[1]
    if k == "center":
        return "center %d" % op[1]
    if k == "cstep":
        return "cstep %d" % op[1]
    return k


def model_lines(case):
    kind = case.get("kind", "proxy")
    if kind == "proxy":
        return ["init %d" % case["raw"]] + [op_line(op) for op in case["ops"]] + ["end"]
    if kind == "chain":
        return ["cinit"] + [op_line(op) for op in case["ops"]]
    if kind == "soak":
        return ["soak %s" % enc_list(ws, enc_str) for ws in case["writes"]]
    if kind == "lock":
        out = ["linit"]
        for op in case["ops"]:
            if op[0] == "lcall":
                out.append("lcall %d %s" % (op[1], "w " + enc_str(op[2][1]) if op[2][0] == "w" else "f"))
            elif op[0] in ("lbody", "lrel"):
                out.append("%s %d" % (op[0], op[1]))
            else:
                out.append(op[0])
        return out
    if kind == "alt":
        return ["ainit %d" % case["fs"]] + [("asec %s" % enc_str(op[1])) if op[0] == "asec" else op[0] for op in case["ops"]]
    if kind == "nest":
        return ["ninit"] + [("nw %s" % enc_str(op[1])) if op[0] == "nw" else op[0] for op in case["ops"]]
    if kind == "patch":
        out = ["pinit %d" % case.get("raw", 0)]
        for op in case["ops"]:
            if op[0] == "pw":
                out.append("pw %d %s" % (op[1], enc_str(op[2])))
            elif op[0] == "pf":
                out.append("pf %d" % op[1])
            else:
                out.append(op[0])
        return out
    raise ValueError(kind)


# ------------------------------------------------------------------ proxy cases
def apply_proxy_op(rig, op):
    k = op[0]
    if k == "w":
        rig.do_write(op[1], op[2])
    elif k == "f":
        rig.do_flush(op[1])
    elif k == "close":
        rig.do_close()
    elif k == "fl":
        rig.fl_step()
    elif k == "wbad":
        rig.do_write_bad(op[1], op[2])
    elif k == "run":
        rig.run_pending()
    elif k == "cb":
        rig.cb_only()
    elif k == "task":
        rig.task_step()
    elif k == "wake":
        rig.wake()
    elif k == "finish":
        rig.finish()
    elif k == "exitrun":
        rig.run_exit(exit_first=True)
    elif k == "start":
        rig.start_app()
    elif k == "stop":
        rig.stop_app()
    elif k == "newloop":
        rig.new_loop()
    elif k == "closeloop":
        rig.close_loop()
    elif k == "settle":
        rig.settle()
    elif k == "inval":
        rig.invalidate()
    elif k == "exit":
        rig.request_exit()
    elif k == "runexit":
        rig.run_exit()
    else:
        raise ValueError(op)


def filter_lifecycle(op, evs):
    # the application's own start-up / shut-down writes (cursor shape, bracketed paste ...) are not
    # emissions of the proxy: keep only the renderer operations of a start / stop step
    if op[0] in ("start", "stop", "wake", "finish", "cstart", "cstop", "inval", "cinval"):
        return [e for e in evs if e[0] in ("E", "D", "X", "B", "b")]
    return evs


@retry_on_timeout
def run_proxy_case(case, ops=None, finish=False):
    """Run the schedule on the real code.  -> (protocol lines, record for the oracle)."""
    ops = case["ops"] if ops is None else ops
    rig = Rig(raw=bool(case["raw"]), session=case.get("session", "default"))
    lines = []
    rec = {"errors": [], "timeline": [], "notes": rig.notes}
    all_toks = []
    try:
        lines.append(" | " + rig.state_line())
        for op in ops:
            if op[0] in ("fl", "settle", "close"):
                rig.deliver_late()
            apply_proxy_op(rig, op)
            if op[0] in ("w", "f", "wbad"):
                rig.deliver_late(exclude="writer-%d" % op[1])
            evs = filter_lifecycle(op, rig.take_events())
            rec["timeline"] += evs
            toks = canon_events(evs)
            all_toks += toks
            lines.append(" ".join(toks) + " | " + rig.state_line())
        text = "".join(core.dec_str(t[3:]) for t in all_toks if t[0] == "O")
        started = any(t == "D" for t in all_toks)
        quiescent = ("".join(rig.proxy._buffer) == ""
                     and not any(isinstance(i, str) and i for i in rig.proxy._flush_queue.queue)
                     and rig.fl_pc() in ("idle", "exited") and not rig.pending and not rig.parked)
        lines.append("out=%s term=%s quiescent=%d" % (
            enc_str(text), "-" if started else enc_str(rig.out.sio.getvalue()), 1 if quiescent else 0))
        if finish:
            # the oracle's epilogue: flush, then let the loop and the flush thread finish their work
            closed = any(op[0] == "close" for op in ops)
            if not closed:
                rig.do_flush(0)
            rig.deliver_late()
            rig.settle()
            rec["timeline"] += rig.take_events()
            rec["fl_pc"] = rig.fl_pc()
            rec["queue_left"] = [i for i in rig.proxy._flush_queue.queue if isinstance(i, str) and i]
            rec["buffer_left"] = "".join(rig.proxy._buffer)
            rec["closed"] = closed
            rec["fl_exc"] = None if rig.fl_exc is None else repr(rig.fl_exc)
    except RigTimeout as e:
        rec["errors"].append("timeout: " + str(e))
        lines.append("timeout:" + str(e))
    finally:
        rec["errors"] += rig.teardown()
    if rec["errors"]:
        lines.append("errors:" + ";".join(rec["errors"])[:300])
    return lines, rec


_cache = {}


def case_key(case):
    return json.dumps(case, sort_keys=True)


def impl_lines(case):
    kind = case.get("kind", "proxy")
    if kind == "proxy":
        has_close = any(op[0] == "close" for op in case["ops"])
        lines, rec = run_proxy_case(case, finish=not has_close)
        _cache.clear()
        if not has_close:
            _cache[case_key(case)] = rec
        return lines
    if kind == "chain":
        lines, rec = run_chain_case(case)
        _cache.clear()
        _cache[case_key(case)] = rec
        return lines
    if kind == "soak":
        rec = run_soak_case(case)
        _cache.clear()
        _cache[case_key(case)] = rec
        return rec["lines"]
    if kind == "lock":
        lines, rec = run_lock_case(case)
        _cache.clear()
        _cache[case_key(case)] = rec
        return lines
    if kind == "alt":
        lines, rec = run_alt_case(case)
        _cache.clear()
        _cache[case_key(case)] = rec
        return lines
    if kind == "nest":
        lines, rec = run_nest_case(case)
        _cache.clear()
        _cache[case_key(case)] = rec
        return lines
    if kind == "patch":
        lines, rec = run_patch_case(case)
        _cache.clear()
        _cache[case_key(case)] = rec
        return lines
    raise ValueError(kind)


# ------------------------------------------------------------------ oracle (property over the real objects)
SIG_DIED = "StdoutProxy._write_thread | flush thread died"
SIG_K1 = "StdoutProxy._write_and_flush | callback accepted by the loop, loop closed before it ran: text lost"
SIG_K2 = "StdoutProxy._write_and_flush | direct write while accepted callbacks wait in the loop: order swapped"
SIG_K3 = "StdoutProxy._write_and_flush | application started after the look-up found none: direct write on the drawn prompt"
SIG_STREAM = "StdoutProxy | output differs from the writes in lock order"
SIG_BRACKET = "in_terminal | text written while the prompt is drawn (no erase/redraw around it)"
SIG_STUCK = "StdoutProxy | flushed text never reaches the output"
SIG_CANCEL = ("run_in_terminal | task made for a handed-over text is cancelled by the application's shutdown before "
              "its first step: text lost")
SIG_OVERLAP = "in_terminal | sections overlap or the prompt is drawn inside a section"
SIG_LOCK = "StdoutProxy.write/flush | line buffer touched without holding the lock"
SIG_RIG = "harness | rig error"


def emissions(timeline):
    """[(index in timeline, raw, text, thread)] of the A W F triples"""
    out = []
    for i, e in enumerate(timeline):
        if e[0] == "A" and i + 2 < len(timeline) and timeline[i + 1][0] == "W" and timeline[i + 2][0] == "F":
            out.append((i, timeline[i + 1][1], timeline[i + 1][2], timeline[i + 1][3]))
    return out


def check_bracket(timeline, notes=()):
    """'While an application is running the text is emitted only between an erase of the prompt and
    its redraw, never inside the prompt's own drawing.'  -> list of (signature, msg)"""
    v = []
    visible = False       # a prompt is on the screen
    running = False       # between the first render of an application and its render in done state
    n = len(timeline)
    i = 0
    while i < n:
        e = timeline[i]
        if e[0] == "D":
            visible, running = True, True
        elif e[0] == "E":
            visible = False
        elif e[0] == "X":
            visible, running = False, False
        elif e[0] == "A" and i + 2 < n and timeline[i + 1][0] == "W" and timeline[i + 2][0] == "F":
            thread = timeline[i + 1][3]
            text = timeline[i + 1][2]
            bad = None
            if visible:
                bad = "text %r written while the prompt is on the screen" % text
            elif running:
                prev = timeline[i - 1][0] if i > 0 else None
                nxt = timeline[i + 3][0] if i + 3 < n else None
                if prev != "E" or nxt != "D":
                    bad = "text %r of a running application not between erase and redraw (%s .. %s)" % (text, prev, nxt)
            if bad:
                if thread == "patch-stdout-flush-thread" and "start-in-direct-window" in notes:
                    v.append((SIG_K3, bad + " (direct write from the flush thread)"))
                else:
                    v.append((SIG_BRACKET, bad + " (thread %s)" % thread))
            i += 2
        i += 1
    return v


def classify_stream(out_text, expected, rec):
    """condition class of a stream violation, from what the rig saw happen on the real objects"""
    if rec.get("fl_exc"):
        return SIG_DIED, "flush thread died with %s" % rec["fl_exc"]
    notes = rec.get("notes", [])
    if "parked-task-cancelled" in notes and len(out_text) < len(expected):
        return SIG_CANCEL, "the application cancelled a run_in_terminal task that had not started"
    if "closed-with-pending" in notes:
        return SIG_K1, "a loop was closed while it held accepted callbacks"
    if "direct-with-pending" in notes:
        return SIG_K2, "the flush thread wrote directly while accepted callbacks were waiting in the loop"
    if sorted(out_text) == sorted(expected):
        return SIG_STREAM + " | reordered", "same characters, different order"
    if len(out_text) < len(expected):
        return SIG_STREAM + " | lost", "characters missing"
    return SIG_STREAM + " | duplicated or invented", "extra characters"


def oracle_proxy(case):
    v = []
    ops = case["ops"]
    key = case_key(case)
    has_close = any(op[0] == "close" for op in ops)
    if key in _cache:
        rec = _cache.pop(key)
    else:
        if has_close:
            # "after a flush": make sure the flush precedes the close
            i = next(j for j, op in enumerate(ops) if op[0] == "close")
            ops = ops[:i] + [["f", 0]] + ops[i:]
        _, rec = run_proxy_case(case, ops=ops, finish=True)
    if rec["errors"]:
        v.append({"signature": SIG_RIG if not rec.get("fl_exc") else SIG_DIED, "msg": "; ".join(rec["errors"])[:400]})
    tl = rec["timeline"]
    out_text = "".join(e[2] for e in emissions(tl))
    writes = [op[2] for op in ops if op[0] == "w"]
    expected = "".join(writes)
    if has_close:
        i = next(j for j, op in enumerate(ops) if op[0] == "close")
        required = "".join(op[2] for op in ops[:i] if op[0] == "w")
        ok = out_text.startswith(required) and expected.startswith(out_text)
    else:
        required = expected
        ok = out_text == expected
    if not ok:
        sig, why = classify_stream(out_text, required if has_close else expected, rec)
        v.append({"signature": sig, "msg": "%s: output %r, writes in lock order %r" % (why, out_text, expected)})
    elif rec.get("fl_exc"):
        v.append({"signature": SIG_DIED, "msg": rec["fl_exc"]})
    if not has_close and ok and (rec.get("queue_left") or rec.get("buffer_left") or rec.get("fl_pc") != "idle"):
        v.append({"signature": SIG_STUCK, "msg": "after flush: queue %r buffer %r flush thread %s" % (
            rec.get("queue_left"), rec.get("buffer_left"), rec.get("fl_pc"))})
    for sig, msg in check_bracket(tl, rec.get("notes", ())):
        v.append({"signature": sig, "msg": msg})
    if any(n.startswith("unlocked") for n in rec.get("notes", ())):
        v.append({"signature": SIG_LOCK, "msg": "the re-entrant lock is not held inside _write/_flush"})
    seen, out = set(), []
    for x in v:
        if x["signature"] not in seen:
            seen.add(x["signature"])
            out.append(x)
    return out


# ------------------------------------------------------------------ chain cases (in_terminal)
class ChainRig(Rig):
    def __init__(self, session="default"):
        self.secs = {}       # id -> dict(sync, bypass, gate, task)
        self.next_id = 0
        super().__init__(session=session, gated=False)
        self.new_loop()
        self.ensure_app()

    def enter(self, sync):
        k = self.next_id
        self.next_id += 1
        lt = self.cur_loop()
        info = {"sync": sync, "bypass": not (self.session.app is not None and self.app._is_running)}
        self.secs[k] = info

        async def sec():
            async with in_terminal():
                self.events.append(("B", k))
                if not sync:
                    await info["gate"].wait()
                self.events.append(("b", k))
            info["finished"] = True

        async def spawn():
            info["gate"] = asyncio.Event()
            info["task"] = asyncio.ensure_future(sec())
            await lt._barrier(6 + 3 * len(self.secs))

        lt.call(spawn())

    def leave(self, k):
        info = self.secs.get(k)
        if info is None or info["sync"] or info.get("released"):
            return
        if not any(e[0] == "B" and e[1] == k for e in self.events):
            return      # still waiting in the chain: its body has not started
        info["released"] = True
        lt = self.cur_loop()

        async def go():
            info["gate"].set()
            await lt._barrier(6 + 3 * len(self.secs))

        lt.call(go())

    def cstop(self):
        if not (self.session.app is not None and self.app._is_running):
            return
        lt = self.cur_loop()

        async def go():
            self._restore_future()
            self.app.exit()
            await lt._barrier(10)

        lt.call(go())

    def cstart(self):
        if self.app_task is not None and not self.app_task.done():
            return
        if self.session.app is not None:
            return
        self.start_app()

    def chain_state(self):
        st = []
        for k in sorted(self.secs):
            info = self.secs[k]
            if info["bypass"]:
                continue
            began = any(e[0] == "B" and e[1] == k for e in self.events)
            ended = any(e[0] == "b" and e[1] == k for e in self.events)
            st.append("d" if ended else "b" if began else "w")
        app = 1 if (self.app is not None and self.app._is_running) else 0
        rit = 1 if (self.app is not None and self.app._running_in_terminal) else 0
        return "app=%d exit=%d rit=%d chain=%s" % (app, 1 if self.is_done() else 0, rit, "".join(st))

    def teardown(self):
        try:
            lt = self.cur_loop()
            if lt is not None:
                async def rel():
                    for info in self.secs.values():
                        if "gate" in info:
                            info["gate"].set()
                    await lt._barrier(10 + 3 * len(self.secs))
                lt.call(rel())
        except BaseException:
            pass
        return super().teardown()


@retry_on_timeout
def run_chain_case(case):
    rig = ChainRig(session=case.get("session", "default"))
    lines = []
    rec = {"errors": [], "timeline": []}
    try:
        rig.take_events()
        lines.append(" | " + rig.chain_state())
        for op in case["ops"]:
            k = op[0]
            if k == "center":
                rig.enter(bool(op[1]))
            elif k == "cstep":
                rig.leave(op[1])
            elif k == "cstop":
                rig.cstop()
            elif k == "cstart":
                rig.cstart()
            elif k == "cinval":
                rig.invalidate()
            elif k == "cexit":
                rig.request_exit()
            else:
                raise ValueError(op)
            evs = filter_lifecycle(op, rig.take_events())
            evs = [e for e in evs if e[0] in ("E", "D", "X", "B", "b")]
            rec["timeline"] += evs
            lines.append(" ".join(canon_events(evs)) + " | " + rig.chain_state())
        rec["bypass"] = {k: info["bypass"] for k, info in rig.secs.items()}
    except RigTimeout as e:
        rec["errors"].append("timeout: " + str(e))
        lines.append("timeout:" + str(e))
    finally:
        rec["errors"] += rig.teardown()
    if rec["errors"]:
        lines.append("errors:" + ";".join(rec["errors"])[:300])
    return lines, rec


def oracle_chain(case):
    """sections of a running application do not overlap; the prompt is never drawn inside a section;
    every section of a running application starts right after an erase"""
    key = case_key(case)
    rec = _cache.pop(key) if key in _cache else run_chain_case(case)[1]
    v = []
    if rec["errors"]:
        v.append({"signature": SIG_RIG, "msg": "; ".join(rec["errors"])[:400]})
    bypass = rec.get("bypass", {})
    open_sec = None
    tl = rec["timeline"]
    for i, e in enumerate(tl):
        if e[0] == "B" and not bypass.get(e[1], False):
            if open_sec is not None:
                v.append({"signature": SIG_OVERLAP, "msg": "section %d starts inside section %d: %r" % (e[1], open_sec, tl)})
            if i == 0 or tl[i - 1][0] != "E":
                v.append({"signature": SIG_OVERLAP, "msg": "section %d does not start right after an erase: %r" % (e[1], tl)})
            open_sec = e[1]
        elif e[0] == "b" and e[1] == open_sec:
            open_sec = None
        elif e[0] in ("D", "E", "X") and open_sec is not None:
            v.append({"signature": SIG_OVERLAP, "msg": "%s inside section %d: %r" % (e[0], open_sec, tl)})
    seen, out = set(), []
    for x in v:
        if x["signature"] not in seen:
            seen.add(x["signature"])
            out.append(x)
    return out


# ------------------------------------------------------------------ lock cases (inside write/flush)
BLOCK_WAIT = float(os.environ.get("VERIF_C20_BLOCKWAIT", "0.25"))


class LockProxy(GatedProxy):
    """pauses inside the `with self._lock:` block: on entry of `_write` / `_flush` and before they return"""

    def _write(self, data):
        self.rig.lock_enter("w")
        try:
            return super()._write(data)
        finally:
            self.rig.lock_leave()

    def _flush(self):
        self.rig.lock_enter("f")
        try:
            return super()._flush()
        finally:
            self.rig.lock_leave()


class LockRig(Rig):
    PROXY = LockProxy

    def __init__(self):
        self.inside = []
        self.acq_order = []
        self.lk = {}
        self.hpc = {t: "i" for t in range(4)}
        for t in range(4):
            self.lk[t] = {"entered": threading.Event(), "body": threading.Semaphore(0),
                          "bodydone": threading.Event(), "rel": threading.Semaphore(0)}
        super().__init__(raw=False, session="default", gated=True)

    def _tid(self):
        name = threading.current_thread().name
        return int(name.split("-")[1]) if name.startswith("writer-") else None

    def lock_enter(self, kind):
        t = self._tid()
        if t is None or self.free:
            return
        self.inside.append(t)
        if len(self.inside) > 1:
            self.notes.append("lock-not-exclusive")
        self.acq_order.append((t, kind))
        self.lk[t]["entered"].set()
        if not self.lk[t]["body"].acquire(timeout=TIMEOUT * 6):
            raise RigTimeout("lock gate")

    def lock_leave(self):
        t = self._tid()
        if t is None or self.free or t not in self.inside:
            return
        self.lk[t]["bodydone"].set()
        self.lk[t]["rel"].acquire(timeout=TIMEOUT * 6)
        self.inside.remove(t)

    def lcall(self, t, call):
        if self.hpc[t] != "i":
            return
        q, done, _ = self.writer(t)
        done.clear()
        self.lk[t]["entered"].clear()
        self.lk[t]["bodydone"].clear()
        q.put(("w", call[1]) if call[0] == "w" else ("f",))
        self.hpc[t] = "w"
        if self.inside:
            # somebody is inside the lock: this call has to block
            if self.lk[t]["entered"].wait(BLOCK_WAIT):
                self.hpc[t] = "l"
        else:
            if not self.lk[t]["entered"].wait(TIMEOUT):
                raise RigTimeout("lock not acquired")
            self.hpc[t] = "l"

    def lbody(self, t):
        if self.hpc[t] != "l":
            return
        self.lk[t]["body"].release()
        if not self.lk[t]["bodydone"].wait(TIMEOUT):
            raise RigTimeout("body")
        self.hpc[t] = "r"

    def lrel(self, t):
        if self.hpc[t] != "r":
            return
        self.lk[t]["rel"].release()
        if not self.writers[t][1].wait(TIMEOUT):
            raise RigTimeout("call did not return")
        self.hpc[t] = "i"
        waiters = [u for u in range(4) if self.hpc[u] == "w"]
        if waiters:
            t0 = time.time()
            while time.time() - t0 < TIMEOUT:
                got = [u for u in waiters if self.lk[u]["entered"].is_set()]
                if got:
                    for u in got:
                        self.hpc[u] = "l"
                    return
                time.sleep(0.0005)
            raise RigTimeout("waiting thread did not get the lock")

    def lock_state(self):
        p = self.proxy
        items = [i for i in p._flush_queue.queue if isinstance(i, str)]
        out = "".join(e[2] for e in emissions(list(self.events)))
        owner = "N" if not self.inside else "+".join(str(t) for t in self.inside)
        return "buf=%s q=%s out=%s owner=%s pcs=%s acq=%s" % (
            enc_str("".join(p._buffer)), enc_list(items, enc_str), enc_str(out), owner,
            "".join(self.hpc[t] for t in range(4)), enc_list([t for t, k in self.acq_order if k == "w"], str))

    def teardown(self):
        self.free = True
        for t in range(4):
            for _ in range(3):
                self.lk[t]["body"].release()
                self.lk[t]["rel"].release()
        return super().teardown()


@retry_on_timeout
def run_lock_case(case):
    rig = LockRig()
    lines = []
    rec = {"errors": [], "notes": rig.notes}
    try:
        lines.append(rig.lock_state())
        for op in case["ops"]:
            k = op[0]
            if k == "lcall":
                rig.lcall(op[1], op[2])
            elif k == "lbody":
                rig.lbody(op[1])
            elif k == "lrel":
                rig.lrel(op[1])
                rig.deliver_late(exclude="writer-%d" % op[1])
            elif k == "lfl":
                rig.deliver_late()
                rig.settle()
            else:
                raise ValueError(op)
            lines.append(rig.lock_state())
        rec["out"] = "".join(e[2] for e in emissions(list(rig.events)))
        rec["acq_order"] = list(rig.acq_order)
        rec["left"] = ("".join(rig.proxy._buffer), [i for i in rig.proxy._flush_queue.queue if isinstance(i, str) and i],
                       "".join(rig.hpc[t] for t in range(4)))
    except RigTimeout as e:
        rec["errors"].append("timeout: " + str(e))
        lines.append("timeout:" + str(e))
    finally:
        rec["errors"] += rig.teardown()
    if rec["errors"]:
        lines.append("errors:" + ";".join(rec["errors"])[:300])
    return lines, rec


def oracle_lock(case):
    """the calls get the lock one at a time; after the closing flush the output is the write calls in
    the order in which they got the lock (the order in which the threads entered the block)"""
    key = case_key(case)
    rec = _cache.pop(key) if key in _cache else run_lock_case(case)[1]
    v = []
    if rec["errors"]:
        v.append({"signature": SIG_RIG, "msg": "; ".join(rec["errors"])[:400]})
    if "lock-not-exclusive" in rec["notes"] or any(n.startswith("unlocked") for n in rec["notes"]):
        v.append({"signature": SIG_LOCK, "msg": "two threads inside write()/flush() at the same time"})
    if "out" in rec:
        # data of the calls, per thread in call order; acquisition order as observed on the real lock
        per = {}
        for op in case["ops"]:
            if op[0] == "lcall" and op[2][0] == "w":
                per.setdefault(op[1], []).append(op[2][1])
        calls = {}
        for op in case["ops"]:
            if op[0] == "lcall":
                calls.setdefault(op[1], []).append(op[2])
        idx = {t: 0 for t in calls}
        expected = ""
        for t, _kind in rec["acq_order"]:
            c = calls[t][idx[t]]
            idx[t] += 1
            if c[0] == "w":
                expected += c[1]
        if case.get("complete") and rec["out"] != expected:
            v.append({"signature": SIG_STREAM + (" | reordered" if sorted(rec["out"]) == sorted(expected) else " | lost"
                                                 if len(rec["out"]) < len(expected) else " | duplicated or invented"),
                      "msg": "output %r, write calls in lock order %r" % (rec["out"], expected)})
    return v


# ------------------------------------------------------------------ soak (free running threads)
TOKEN_RE = re.compile(r"\[(\d+):(\d+)([^\[\]]*)\]")


@retry_on_timeout
def run_soak_case(case):
    """mode: 'noapp' | 'app' (application runs the whole time) | 'startstop' (application stops and a
    new one starts on a new loop while the writers run) | 'exitrace' (after the writer threads are done, code
    running IN the event loop prints the last list of writes, keeps the loop busy for a moment - long enough
    for the flush thread to hand the text over - and then calls Application.exit(): the wake-up of run_async is
    queued right behind the hand-over callback)"""
    mode = case["mode"]
    writes = case["writes"]
    loop_writes = []
    if mode == "exitrace":
        writes, loop_writes = writes[:-1], writes[-1]
    rig = Rig(raw=bool(case.get("raw", 0)), session=case.get("session", "default"), gated=False,
              sleep=case.get("sleep", 0.0), via_patch=case.get("via") == "patch")
    rec = {"errors": [], "mode": mode}
    old_switch = sys.getswitchinterval()
    try:
        sys.setswitchinterval(1e-5)       # force frequent preemption between bytecodes
        if mode != "noapp":
            rig.new_loop()
            rig.start_app()
        # 'startstop': the writers work in phases; between two phases everything written so far has
        # arrived, then the application is stopped, its loop closed, and a new application is started
        # on a new loop.  (Stopping while text is in flight is the subject of the gated cases: the
        # hand-off windows K1-K3 make the outcome of a free-running stop scheduling dependent.)
        phases = (case.get("cycles", 2) + 1) if mode == "startstop" else 1
        for t in range(len(writes)):
            rig.writer(t)
        sent = 0
        for ph in range(phases):
            chunks = []
            for t, ws in enumerate(writes):
                n = len(ws)
                chunk = ws[ph * n // phases:(ph + 1) * n // phases]
                chunks.append(chunk)
                rig.writers[t][1].clear()
            for t, chunk in enumerate(chunks):
                rig.writers[t][0].put(("ww", chunk))
            for t in range(len(writes)):
                if not rig.writers[t][1].wait(TIMEOUT):
                    raise RigTimeout("writer")
            rig.proxy.flush()
            sent += sum(len(w) for chunk in chunks for w in chunk)
            # wait until the flush thread has handed everything over and the loop has run it
            t0 = time.time()
            while True:
                got = sum(len(e[2]) for e in emissions(list(rig.events)))
                if got >= sent and rig.proxy._flush_queue.qsize() == 0:
                    break
                if time.time() - t0 > TIMEOUT:
                    raise RigTimeout("output did not arrive: %d of %d characters" % (got, sent))
                time.sleep(0.002)
            if mode == "startstop" and ph + 1 < phases:
                time.sleep(0.002)      # lets the flush thread return to its blocking get()
                rig.stop_app()
                rig.close_loop()
                rig.new_loop()
                rig.start_app()
        if mode == "exitrace":
            lt = rig.cur_loop()

            async def bye():
                for w in loop_writes:
                    rig.proxy.write(w)
                rig.proxy.flush()
                time.sleep(case.get("busy", 0.03))     # the loop is busy; the flush thread hands over meanwhile
                rig.app.exit()
                await rig.app_task

            lt.call(bye())
            sent += sum(len(w) for w in loop_writes)
            t0 = time.time()
            while True:
                got = sum(len(e[2]) for e in emissions(list(rig.events)))
                if got >= sent and rig.proxy._flush_queue.qsize() == 0:
                    break
                if time.time() - t0 > TIMEOUT * 0.3:
                    raise RigTimeout("output did not arrive after exit: %d of %d characters" % (got, sent))
                time.sleep(0.002)
        if mode != "noapp":
            rig.stop_app()
        rec["timeline"] = list(rig.events)
    except RigTimeout as e:
        rec["errors"].append("timeout: " + str(e))
        rec["timeline"] = list(rig.events)
    finally:
        sys.setswitchinterval(old_switch)
        rec["errors"] += rig.teardown()
    out_text = "".join(e[2] for e in emissions(rec["timeline"]))
    rec["out"] = out_text
    writes = case["writes"]
    # per-thread projection: tokens [t:k...] in order of appearance
    per = {t: [] for t in range(len(writes))}
    pos = 0
    tiled = True
    for m in TOKEN_RE.finditer(out_text):
        if m.start() != pos:
            tiled = False
        pos = m.end()
        per.setdefault(int(m.group(1)), []).append(m.group(0))
    if pos != len(out_text):
        tiled = False
    rec["tiled"] = tiled
    rec["lines"] = [enc_str("".join(per.get(t, []))) for t in range(len(writes))]
    if rec["errors"]:
        rec["lines"].append("errors:" + ";".join(rec["errors"])[:300])
    return rec


def oracle_soak(case):
    key = case_key(case)
    rec = _cache.pop(key) if key in _cache else run_soak_case(case)
    v = []
    if rec["errors"]:
        v.append({"signature": SIG_RIG, "msg": "; ".join(rec["errors"])[:400]})
    out = rec["out"]
    writes = case["writes"]
    toks = [m.group(0) for m in TOKEN_RE.finditer(out)]
    want = [w for ws in writes for w in ws if w]
    if not rec["tiled"]:
        v.append({"signature": SIG_STREAM + " | split", "msg": "output is not a sequence of whole write calls: %r" % out[:300]})
    if sorted(toks) != sorted(want):
        missing = [w for w in want if w not in toks]
        dup = [w for w in set(toks) if toks.count(w) > 1]
        sig = SIG_STREAM + (" | lost" if missing else " | duplicated or invented")
        v.append({"signature": sig, "msg": "missing %r duplicated %r" % (missing[:5], dup[:5])})
    else:
        for t, ws in enumerate(writes):
            mine = [x for x in toks if x.startswith("[%d:" % t)]
            if mine != [w for w in ws if w]:
                v.append({"signature": SIG_STREAM + " | reordered", "msg": "thread %d: %r" % (t, mine[:6])})
                break
    for sig, msg in check_bracket([e for e in rec["timeline"]]):
        v.append({"signature": sig, "msg": msg})
    seen, res = set(), []
    for x in v:
        if x["signature"] not in seen:
            seen.add(x["signature"])
            res.append(x)
    return res


def oracle(case):
    kind = case.get("kind", "proxy")
    if kind == "proxy":
        return oracle_proxy(case)
    if kind == "chain":
        return oracle_chain(case)
    if kind == "soak":
        return oracle_soak(case)
    if kind == "lock":
        return oracle_lock(case)
    if kind == "alt":
        return oracle_alt(case)
    if kind == "nest":
        return oracle_nest(case)
    if kind == "patch":
        return oracle_patch(case)
    raise ValueError(kind)




# ------------------------------------------------------------------ the alternate screen (full-screen applications)
SIG_ALT = "in_terminal | text written while the terminal is in the alternate screen (lost with it)"


class AltOutput(RecOutput):
    """records enter / quit_alternate_screen (at any depth) and the screen the terminal is in at every text write"""

    def enter_alternate_screen(self):
        self.rig.alt = True
        self.rig.events.append(("ALT", 1))
        super().enter_alternate_screen()

    def quit_alternate_screen(self):
        self.rig.alt = False
        self.rig.events.append(("ALT", 0))
        super().quit_alternate_screen()

    def write(self, data):
        if getattr(self.rig.tl, "depth", 0) == 0:
            self.rig.events.append(("WALT", 1 if self.rig.alt else 0))
        super().write(data)

    def write_raw(self, data):
        if getattr(self.rig.tl, "depth", 0) == 0:
            self.rig.events.append(("WALT", 1 if self.rig.alt else 0))
        super().write_raw(data)


class AltRig(Rig):
    OUT = AltOutput

    def __init__(self, full_screen, session="default"):
        self.fs = bool(full_screen)
        self.alt = False
        super().__init__(raw=False, session=session, gated=True)

    def ensure_app(self):
        if self.app is None:
            self.inp_cm = create_pipe_input()
            inp = self.inp_cm.__enter__()
            self.app = Application(layout=Layout(Window(FormattedTextControl(">"))), input=inp, output=self.out,
                                   full_screen=self.fs)
            wrap_renderer(self, self.app)

    def astart(self):
        self.new_loop()
        self.start_app()

    def aresize(self):
        if not self.running():
            return
        lt = self.cur_loop()
        app = self.app

        async def go():
            app._on_resize()
        lt.call(go())
        lt.barrier()

    def asec(self, text):
        self.do_write(0, text)
        self.do_flush(0)
        self.settle()


def canon_alt(evs):
    out = []
    walt = 0
    i = 0
    while i < len(evs):
        e = evs[i]
        if e[0] == "WALT":
            walt = e[1]
            i += 1
        elif e[0] == "A" and i + 1 < len(evs) and evs[i + 1][0] == "WALT":
            # enable_autowrap, [screen marker], write, flush
            if i + 3 < len(evs) and evs[i + 2][0] == "W" and evs[i + 3][0] == "F":
                out.append("O%d:%s" % (evs[i + 1][1], enc_str(evs[i + 2][2])))
                i += 4
            else:
                out.append("?A")
                i += 1
        elif e[0] == "ALT":
            out.append("A+" if e[1] else "A-")
            i += 1
        elif e[0] in ("E", "D", "X"):
            out.append(e[0])
            i += 1
        else:
            out.append("?" + e[0])
            i += 1
    return out


@retry_on_timeout
def run_alt_case(case):
    rig = AltRig(case["fs"], session=case.get("session", "default"))
    lines = []
    rec = {"errors": [], "timeline": [], "notes": rig.notes}
    try:
        rig.take_events()
        lines.append(" | app=0 alt=0")
        for op in case["ops"]:
            k = op[0]
            if k == "astart":
                rig.astart()
            elif k == "astop":
                rig.stop_app()
            elif k == "ainval":
                rig.invalidate()
            elif k == "aresize":
                rig.aresize()
            elif k == "asec":
                rig.asec(op[1])
            else:
                raise ValueError(op)
            evs = rig.take_events()
            if k != "asec":
                evs = [e for e in evs if e[0] in ("E", "D", "X", "ALT")]
            rec["timeline"] += evs
            lines.append(" ".join(canon_alt(evs)) + " | app=%d alt=%d" % (1 if rig.running() else 0, 1 if rig.alt else 0))
    except RigTimeout as e:
        rec["errors"].append("timeout: loop/rig: " + str(e))
        lines.append("timeout:" + str(e))
    finally:
        rec["errors"] += rig.teardown()
    if rec["errors"]:
        lines.append("errors:" + ";".join(rec["errors"])[:300])
    return lines, rec


def oracle_alt(case):
    """at every text write the terminal is in the normal screen; the normal-screen transcript holds the text of
    every write once, in order"""
    key = case_key(case)
    rec = _cache.pop(key) if key in _cache else run_alt_case(case)[1]
    v = []
    if rec["errors"]:
        v.append({"signature": SIG_RIG, "msg": "; ".join(rec["errors"])[:400]})
    tl = rec["timeline"]
    normal = ""
    for i, e in enumerate(tl):
        if e[0] == "WALT" and i + 1 < len(tl) and tl[i + 1][0] == "W":
            text = tl[i + 1][2]
            if e[1]:
                v.append({"signature": SIG_ALT, "msg": "text %r written inside the alternate screen: %r" % (text, canon_alt(tl)[:30])})
            else:
                normal += text
    want = "".join(op[1] for op in case["ops"] if op[0] == "asec")
    if normal != want and not any(x["signature"] == SIG_ALT for x in v):
        v.append({"signature": SIG_STREAM + (" | lost" if len(normal) < len(want) else " | reordered or duplicated"),
                  "msg": "normal screen %r, writes %r" % (normal, want)})
    for sig, msg in check_bracket([e for e in tl if e[0] not in ("ALT", "WALT")]):
        v.append({"signature": sig, "msg": msg})
    seen, out = set(), []
    for x in v:
        if x["signature"] not in seen:
            seen.add(x["signature"])
            out.append(x)
    return out


# ------------------------------------------------------------------ nested applications (AppSession.app as a stack)
SIG_NEST_ORDER = ("in_terminal | text that waits for an open section of the outer application is overtaken by text "
                  "printed while a nested application runs")


def wrap_renderer_n(rig, app, k):
    """like wrap_renderer, the events carry the number of the application"""
    r = app.renderer

    def mk(name, orig):
        def wrapped(*a, **kw):
            tl = rig.tl
            if getattr(tl, "depth", 0) == 0:
                if name == "erase":
                    rig.events.append(("E", k))
                elif name == "render":
                    rig.events.append(("X" if kw.get("is_done") else "D", k))
            tl.depth = getattr(tl, "depth", 0) + 1
            try:
                return orig(*a, **kw)
            finally:
                tl.depth -= 1
        return wrapped

    for name in ("erase", "render", "reset"):
        setattr(r, name, mk(name, getattr(r, name)))


class NestRig(Rig):
    """A real outer Application, `async with in_terminal():` sections that stay open, nested Applications run
    inside them (to any depth), and writes through the real (gated) StdoutProxy in between."""

    def __init__(self, session="default"):
        self.frames = []        # running applications, outermost first: dict(app, k, sec)
        self.napps = 0
        super().__init__(raw=False, session=session, gated=True)
        self.new_loop()

    def _new_app(self):
        if self.inp_cm is None:
            self.inp_cm = create_pipe_input()
            self.inp = self.inp_cm.__enter__()
        k = self.napps
        self.napps += 1
        app = Application(layout=Layout(Window(FormattedTextControl("%d>" % k))), input=self.inp, output=self.out)
        wrap_renderer_n(self, app, k)
        return app, k

    def top(self):
        return self.frames[-1] if self.frames else None

    def _wait_started(self, lt, app):
        async def go():
            for _ in range(200):
                await asyncio.sleep(0)
                if app._is_running:
                    break
            for _ in range(4):
                await asyncio.sleep(0)
        lt.call(go())
        if not app._is_running:
            raise RigTimeout("application did not start")

    def nstart(self):
        lt = self.cur_loop()
        f = self.top()
        if f is None:
            app, k = self._new_app()
            fr = {"app": app, "k": k, "sec": None}

            async def go():
                fr["task"] = asyncio.ensure_future(app.run_async())
            lt.call(go())
            self.app, self.app_task = app, fr["task"]      # for Rig.teardown
            self._wait_started(lt, app)
            self.frames.append(fr)
        elif f["sec"] is not None:
            app, k = self._new_app()
            fr = {"app": app, "k": k, "sec": None, "ended": asyncio.Event()}
            lt.loop.call_soon_threadsafe(f["sec"]["q"].put_nowait, ("run", app, fr))
            self._wait_started(lt, app)
            self.frames.append(fr)

    def nstop(self):
        f = self.top()
        if f is None or f["sec"] is not None:
            return
        lt = self.cur_loop()
        app = f["app"]

        async def go():
            app.exit()
            if "task" in f:
                await f["task"]
            else:
                await f["ended"].wait()
            for _ in range(4):
                await asyncio.sleep(0)
        lt.call(go())
        self.frames.pop()

    def nenter(self):
        f = self.top()
        if f is None or f["sec"] is not None:
            return
        lt = self.cur_loop()
        sec = {}

        async def section():
            async with in_terminal():
                sec["body"].set()
                while True:
                    cmd = await sec["q"].get()
                    if cmd[0] == "leave":
                        break
                    _, app, fr = cmd
                    await app.run_async()          # the nested application
                    fr["ended"].set()
            sec["done"].set()

        async def go():
            sec["q"] = asyncio.Queue()
            sec["body"] = asyncio.Event()
            sec["done"] = asyncio.Event()
            sec["task"] = asyncio.ensure_future(section())
            await sec["body"].wait()
        lt.call(go())
        f["sec"] = sec

    def nleave(self):
        f = self.top()
        if f is None or f["sec"] is None:
            return
        lt = self.cur_loop()
        sec = f["sec"]

        async def go():
            sec["q"].put_nowait(("leave",))
            await sec["done"].wait()
            for _ in range(12):
                await asyncio.sleep(0)
        lt.call(go())
        f["sec"] = None
        lt.barrier()

    def nwrite(self, text):
        self.do_write(0, text)
        self.do_flush(0)
        self.settle()

    def nest_state(self):
        cur = self.session.app
        cell = "N"
        for fr in self.frames:
            if fr["app"] is cur:
                cell = str(fr["k"])
        if cur is not None and cell == "N":
            cell = "?"
        st = ",".join("%d%s" % (fr["k"], "s" if fr["app"]._running_in_terminal else "") for fr in self.frames
                      if fr["app"]._is_running)
        return "cell=%s stack=%s" % (cell, st)

    def teardown(self):
        errs = []
        try:
            for _ in range(2 * len(self.frames) + 2):
                if not self.frames:
                    break
                if self.top()["sec"] is not None:
                    self.nleave()
                else:
                    self.nstop()
        except BaseException as e:
            errs.append(repr(e))
        return errs + super().teardown()


def canon_nest(evs):
    out = []
    i = 0
    while i < len(evs):
        e = evs[i]
        if e[0] == "A" and i + 2 < len(evs) and evs[i + 1][0] == "W" and evs[i + 2][0] == "F":
            out.append("O%d:%s" % (evs[i + 1][1], enc_str(evs[i + 1][2])))
            i += 3
        elif e[0] in ("E", "D", "X"):
            out.append("%s%d" % (e[0], e[1]))
            i += 1
        else:
            out.append("?" + e[0])
            i += 1
    return out


@retry_on_timeout
def run_nest_case(case):
    rig = NestRig(session=case.get("session", "default"))
    lines = []
    rec = {"errors": [], "timeline": [], "notes": rig.notes}
    try:
        rig.take_events()
        lines.append(" | " + rig.nest_state())
        for op in case["ops"]:
            k = op[0]
            if k == "nstart":
                rig.nstart()
            elif k == "nstop":
                rig.nstop()
            elif k == "nenter":
                rig.nenter()
            elif k == "nleave":
                rig.nleave()
            elif k == "nw":
                rig.nwrite(op[1])
            else:
                raise ValueError(op)
            evs = rig.take_events()
            if k in ("nstart", "nstop"):
                evs = [e for e in evs if e[0] in ("E", "D", "X")]
            rec["timeline"] += evs
            lines.append(" ".join(canon_nest(evs)) + " | " + rig.nest_state())
    except RigTimeout as e:
        rec["errors"].append("timeout: loop/rig: " + str(e))      # retried once (retry_on_timeout)
        lines.append("timeout:" + str(e))
    finally:
        rec["errors"] += rig.teardown()
        rec["timeline_end"] = list(rig.events[rig.ev_pos:])
    if rec["errors"]:
        lines.append("errors:" + ";".join(rec["errors"])[:300])
    return lines, rec


def oracle_nest(case):
    """text is never written while a prompt is on the screen; every text appears at most once and, once every
    section is closed again (teardown), exactly once; order of the texts = order of the writes"""
    key = case_key(case)
    rec = _cache.pop(key) if key in _cache else run_nest_case(case)[1]
    v = []
    if rec["errors"]:
        v.append({"signature": SIG_RIG, "msg": "; ".join(rec["errors"])[:400]})
    tl = rec["timeline"] + rec.get("timeline_end", [])
    visible = None
    texts = []
    i = 0
    while i < len(tl):
        e = tl[i]
        if e[0] == "D":
            visible = e[1]
        elif e[0] in ("E", "X"):
            visible = None
        elif e[0] == "A" and i + 2 < len(tl) and tl[i + 1][0] == "W" and tl[i + 2][0] == "F":
            texts.append(tl[i + 1][2])
            if visible is not None:
                v.append({"signature": SIG_BRACKET, "msg": "text %r written while the prompt of application %d is on the "
                          "screen (thread %s): %r" % (tl[i + 1][2], visible, tl[i + 1][3], canon_nest(tl)[:40])})
            i += 2
        i += 1
    writes = [op[1] for op in case["ops"] if op[0] == "nw"]
    out_text, want = "".join(texts), "".join(writes)
    if out_text != want:
        if sorted(texts) == sorted(writes):
            v.append({"signature": SIG_NEST_ORDER, "msg": "texts %r, writes %r" % (texts, writes)})
        else:
            v.append({"signature": SIG_STREAM + (" | lost" if len(out_text) < len(want) else " | duplicated or invented"),
                      "msg": "texts %r, writes %r" % (texts, writes)})
    seen, out = set(), []
    for x in v:
        if x["signature"] not in seen:
            seen.add(x["signature"])
            out.append(x)
    return out


# ------------------------------------------------------------------ the patch_stdout() context manager
SIG_PATCH = ("patch_stdout | text written through sys.stdout while the with-block is being left is neither on the "
             "terminal nor in the restored stream")
_STDOUT_LOCK = threading.Lock()


class GateOutput(Vt100_Output):
    """The session's Output: records what it is asked to write; `flush()` of a non-empty buffer waits for the
    schedule (`pemit`): the flush thread is held there, like by a slow terminal."""

    def __init__(self, rig):
        self.rig = rig
        self.sio = io.StringIO()
        super().__init__(self.sio, lambda: Size(rows=24, columns=80), term="xterm")
        self.texts = []          # (raw, text) written since the last flush
        self.emitted = []        # (raw, text) flushed

    def write(self, data):
        self.texts.append((0, data))
        super().write(data)

    def write_raw(self, data):
        if threading.current_thread().name == "patch-stdout-flush-thread" and data != "\x1b[?7h":
            self.texts.append((1, data))
        super().write_raw(data)

    def flush(self):
        if self.texts and threading.current_thread().name == "patch-stdout-flush-thread":
            rig = self.rig
            rig.held.set()
            if not rig.permit.acquire(timeout=TIMEOUT * 6):
                raise RigTimeout("held flush")
            rig.held.clear()
            self.emitted += self.texts
            self.texts = []
        super().flush()


class CountQueue(queue.Queue):
    """the flush queue, instrumented: `idle()` = the flush thread waits in get() and has taken everything that
    was put"""

    def __init__(self):
        super().__init__()
        self.lk = threading.Lock()
        self.puts = 0
        self.takes = 0
        self.waiting = False
        self.done_put = False

    def put(self, item, block=True, timeout=None):
        with self.lk:
            self.puts += 1
            if isinstance(item, PS._Done):
                self.done_put = True
        return super().put(item, block, timeout)

    def get(self, block=True, timeout=None):
        if block:
            with self.lk:
                self.waiting = True
        try:
            item = super().get(block, timeout)
        except queue.Empty:
            raise
        with self.lk:
            self.takes += 1
            self.waiting = False
        return item

    def idle(self):
        with self.lk:
            return self.waiting and self.puts == self.takes


class PatchRig:
    """`with patch_stdout(raw):` run by a thread of its own (the "main" thread of the program), writer threads that
    print through whatever `sys.stdout` is at the moment, the session Output holding the flush thread inside
    `flush()`.  `sys.stdout` of the process is replaced for the duration of the case (a StringIO stands for the
    original stream)."""

    def __init__(self, raw):
        self.held = threading.Event()
        self.permit = threading.Semaphore(0)
        self.notes = []
        self.out = GateOutput(self)
        self.orig = io.StringIO()
        self.leave = threading.Event()
        self.entered = threading.Event()
        self.main_done = threading.Event()
        self.main_exc = None
        self.proxy = None
        self.writers = {}
        self.nseen = 0
        self.exit_requested = False
        _STDOUT_LOCK.acquire()
        self.saved = (sys.stdout, sys.stderr)
        sys.stdout = self.orig
        sys.stderr = self.orig
        try:
            def main():
                try:
                    with create_app_session(output=self.out):
                        with PS.patch_stdout(raw=bool(raw)):
                            self.proxy = sys.stdout
                            self.entered.set()
                            self.leave.wait(TIMEOUT * 12)
                except BaseException as e:
                    self.main_exc = e
                finally:
                    self.entered.set()
                    self.main_done.set()
            self.main = threading.Thread(target=main, name="pmain", daemon=True)
            self.main.start()
            if not self.entered.wait(TIMEOUT) or self.proxy is None:
                raise RigTimeout("patch_stdout not entered")
            # instrument the flush queue: the flush thread sits in the old queue's get(); an empty item makes it
            # `continue` and come back to `self._flush_queue.get()` - the new queue
            old = self.proxy._flush_queue
            self.q = CountQueue()
            self.proxy._flush_queue = self.q
            old.put("")
            self.wait_stable()
        except BaseException:
            self.teardown()
            raise

    def fl_thread(self):
        return self.proxy._flush_thread

    def _stable(self):
        fl_dead = not self.fl_thread().is_alive()
        fl_ok = self.held.is_set() or fl_dead or self.q.idle()
        if not fl_ok:
            return False
        if not self.exit_requested or self.main_done.is_set():
            return True
        # the main thread is leaving: stable only when it waits in join() for a flush thread that is held
        return self.q.done_put and self.held.is_set()

    def wait_stable(self):
        """until the flush thread is held inside Output.flush(), or waits in get() with nothing left, or has ended;
        and, when the main thread is leaving the block, until it has returned or waits in join() for a held flush
        thread.  The state has to be seen twice (a thread may be between two observed points)."""
        t0 = time.monotonic()
        while True:
            if self._stable():
                time.sleep(0.001)
                if self._stable():
                    return
            if time.monotonic() - t0 > TIMEOUT:
                raise RigTimeout("patch rig did not get stable")
            time.sleep(0.0005)

    def writer(self, t):
        if t not in self.writers:
            q = queue.Queue()
            done = threading.Event()

            def body():
                while True:
                    cmd = q.get()
                    if cmd is None:
                        return
                    try:
                        if cmd[0] == "w":
                            sys.stdout.write(cmd[1])
                        else:
                            sys.stdout.flush()
                    except BaseException as e:
                        self.notes.append("writer-exception:" + type(e).__name__)
                    finally:
                        done.set()
            th = threading.Thread(target=body, name="pwriter-%d" % t, daemon=True)
            th.start()
            self.writers[t] = (q, done, th)
        return self.writers[t]

    def call(self, t, cmd):
        q, done, _ = self.writer(t)
        done.clear()
        q.put(cmd)
        if not done.wait(TIMEOUT):
            raise RigTimeout("writer blocked")
        self.wait_stable()

    def pemit(self):
        """one held emission goes through"""
        if self.held.is_set():
            n = len(self.out.emitted)
            self.permit.release()
            t0 = time.monotonic()
            while len(self.out.emitted) == n:
                if time.monotonic() - t0 > TIMEOUT:
                    raise RigTimeout("held flush not released")
                time.sleep(0.0005)
        self.wait_stable()

    def pexit(self):
        if self.exit_requested:
            return
        self.exit_requested = True
        self.leave.set()
        self.wait_stable()

    def take_emitted(self):
        evs = self.out.emitted[self.nseen:]
        self.nseen += len(evs)
        return evs

    def state(self):
        p = self.proxy
        bound = 1 if sys.stdout is p else 0
        pc = "inside" if not self.exit_requested else ("done" if self.main_done.is_set() else "joining")
        items = list(self.q.queue)
        qs = enc_list(items, lambda i: enc_str(i) if isinstance(i, str) else "DONE")
        if not self.fl_thread().is_alive():
            fl = "exited"
        elif self.held.is_set():
            fl = "held:" + enc_str("".join(t for _, t in self.out.texts))
        else:
            fl = "idle"
        return "bound=%d pc=%s orig=%s buf=%s q=%s fl=%s" % (bound, pc, enc_str(self.orig.getvalue()),
                                                               enc_str("".join(p._buffer)), qs, fl)

    def teardown(self):
        errs = []
        try:
            self.leave.set()
            for _ in range(64):
                self.permit.release()
            if not self.main_done.wait(TIMEOUT):
                errs.append("patch_stdout() did not return")
            for (q, done, th) in self.writers.values():
                q.put(None)
            for (q, done, th) in self.writers.values():
                th.join(TIMEOUT)
            if self.main_exc is not None:
                errs.append("main thread: " + repr(self.main_exc))
        finally:
            sys.stdout, sys.stderr = self.saved
            _STDOUT_LOCK.release()
        return errs


@retry_on_timeout
def run_patch_case(case):
    rig = PatchRig(case.get("raw", 0))
    lines = []
    rec = {"errors": [], "notes": rig.notes}
    try:
        lines.append(" | " + rig.state())
        for op in case["ops"]:
            k = op[0]
            if k == "pw":
                rig.call(op[1], ("w", op[2]))
            elif k == "pf":
                rig.call(op[1], ("f",))
            elif k == "pemit":
                rig.pemit()
            elif k == "pexit":
                rig.pexit()
            else:
                raise ValueError(op)
            evs = rig.take_emitted()
            lines.append(" ".join("O%d:%s" % (r, enc_str(t)) for r, t in evs) + " | " + rig.state())
        # epilogue for the oracle: the block is left, everything that is held goes through
        rig.pexit()
        for _ in range(len(case["ops"]) + 4):
            if rig.main_done.is_set():
                break
            rig.pemit()
        rec["term"] = "".join(t for _, t in rig.out.emitted)
        rec["orig"] = rig.orig.getvalue()
        rec["buffer"] = "".join(rig.proxy._buffer)
        rec["queue_left"] = [i for i in rig.q.queue if isinstance(i, str) and i]
        rec["done"] = rig.main_done.is_set()
    except RigTimeout as e:
        rec["errors"].append("timeout: loop/rig: " + str(e))      # retried once (retry_on_timeout)
        lines.append("timeout:" + str(e))
    finally:
        rec["errors"] += rig.teardown()
    if rec["errors"]:
        lines.append("errors:" + ";".join(rec["errors"])[:300])
    return lines, rec


def oracle_patch(case):
    """every write call made through sys.stdout - before, while or after the block is left - is on the terminal (or
    still in the line buffer when nobody flushed) or in the restored stream: once, in call order"""
    key = case_key(case)
    rec = _cache.pop(key) if key in _cache else run_patch_case(case)[1]
    v = []
    if rec["errors"]:
        v.append({"signature": SIG_RIG, "msg": "; ".join(rec["errors"])[:400]})
    if "term" in rec:
        writes = "".join(op[2] for op in case["ops"] if op[0] == "pw")
        got = rec["term"] + rec["buffer"] + rec["orig"]
        if not rec["done"]:
            v.append({"signature": SIG_RIG, "msg": "patch_stdout() did not return"})
        elif got != writes:
            if rec["queue_left"]:
                v.append({"signature": SIG_PATCH, "msg": "left in the flush queue behind the sentinel: %r; terminal %r + "
                          "unflushed %r + restored stream %r, writes %r" % (rec["queue_left"], rec["term"], rec["buffer"],
                                                                            rec["orig"], writes)})
            else:
                v.append({"signature": SIG_STREAM + (" | reordered" if sorted(got) == sorted(writes) else " | lost"
                                                     if len(got) < len(writes) else " | duplicated or invented"),
                          "msg": "terminal %r + unflushed %r + restored stream %r, writes %r" % (
                              rec["term"], rec["buffer"], rec["orig"], writes)})
    if any(n.startswith("writer-exception") for n in rec.get("notes", ())):
        v.append({"signature": SIG_RIG, "msg": "a writer raised: %r" % rec["notes"]})
    return v


# ------------------------------------------------------------------ generators
DATA_SMALL = ["a", "b\n", "", "c\nd"]
DATA_RAND = ["a", "b\n", "", "c\nd", "\n", "\n\n", "xy", "e\x1bf\n", "世\n", "é", " ", "long line without newline ",
             "1\n2\n3", "\x1b[31m", "tail\r\n"]


def epilogue():
    return [["f", 0], ["settle"]]


def exhaustive_noapp(maxlen):
    alpha = [["w", 0, "a"], ["w", 0, "b\n"], ["w", 1, ""], ["w", 1, "c\nd"], ["f", 1], ["fl"], ["wbad", 1, 0]]
    for n in range(0, maxlen + 1):
        for seq in itertools.product(alpha, repeat=n):
            yield {"kind": "proxy", "raw": 0, "session": "default", "ops": [list(o) for o in seq] + epilogue()}


APP_PREFIXES = [
    [["newloop"], ["start"]],
    [["newloop"], ["start"], ["w", 0, "x\n"], ["fl"], ["fl"]],                 # flush thread holds the loop
    [["newloop"], ["start"], ["w", 0, "x\n"], ["fl"], ["fl"], ["fl"]],         # callback accepted
    [["w", 0, "x\n"], ["fl"], ["fl"], ["newloop"]],                            # flush thread decided: direct
    [["newloop"], ["start"], ["stop"], ["w", 0, "x\n"], ["fl"]],
    [["newloop"], ["start"], ["w", 0, "x\n"], ["fl"], ["fl"], ["fl"], ["cb"]],     # task made, not started
    [["newloop"], ["start"], ["w", 0, "x\n"], ["fl"], ["fl"], ["fl"], ["wake"]],   # run_async winds down, callback waits
    [["newloop"], ["start"], ["w", 0, "x\n"], ["fl"], ["fl"], ["stop"], ["fl"]],        # callback accepted, no application
    [["newloop"], ["start"], ["w", 0, "x\n"], ["fl"], ["fl"], ["stop"], ["fl"], ["cb"]],  # task made while no application runs
]
APP_ALPHA = [["w", 1, "y\n"], ["fl"], ["run"], ["start"], ["stop"], ["closeloop"], ["newloop"], ["inval"], ["exit"],
             ["cb"], ["task"], ["wake"], ["finish"]]


def exhaustive_app(maxlen):
    for ip, pre in enumerate(APP_PREFIXES):
        for n in range(0, maxlen + 1):
            for seq in itertools.product(APP_ALPHA, repeat=n):
                yield {"kind": "proxy", "raw": 0, "session": "default",
                       "ops": [list(o) for o in pre] + [list(o) for o in seq] + epilogue()}


# the hand-off and the shutdown of the application: every order of {callback, its task, exit(), wake-up of
# run_async, its return, restart} (+ the two one-turn schedules of the real loop) after a callback was accepted
HANDOFF_ALPHA = [["cb"], ["task"], ["exit"], ["wake"], ["finish"], ["start"], ["runexit"], ["exitrun"], ["fl"]]


def exhaustive_handoff(maxlen):
    pre = [["newloop"], ["start"], ["w", 0, "x\n"], ["w", 1, "y\n"], ["fl"], ["fl"], ["fl"]]
    for n in range(0, maxlen + 1):
        for seq in itertools.product(HANDOFF_ALPHA, repeat=n):
            yield {"kind": "proxy", "raw": 0, "session": "default",
                   "ops": [list(o) for o in pre] + [list(o) for o in seq] + epilogue()}


def random_proxy(rng, nops):
    nthreads = rng.choice([1, 2, 2, 3, 4])
    ops = []
    closed = False
    weights = rng.choice([
        {"w": 6, "f": 1, "fl": 6, "run": 2, "start": 1, "stop": 1, "newloop": 1, "closeloop": 1, "settle": 1, "close": 0,
         "inval": 1, "exit": 1, "runexit": 1, "cb": 2, "task": 2, "wake": 1, "finish": 1, "exitrun": 1, "wbad": 1},
        {"w": 4, "f": 1, "fl": 5, "run": 3, "start": 2, "stop": 2, "newloop": 2, "closeloop": 2, "settle": 0, "close": 0,
         "inval": 1, "exit": 2, "runexit": 1, "cb": 3, "task": 2, "wake": 2, "finish": 2, "exitrun": 1},
        {"w": 4, "f": 1, "fl": 6, "run": 1, "start": 2, "stop": 1, "newloop": 1, "closeloop": 0, "settle": 0, "close": 0,
         "inval": 0, "exit": 2, "runexit": 1, "cb": 4, "task": 3, "wake": 3, "finish": 3, "exitrun": 2},
        {"w": 8, "f": 2, "fl": 8, "run": 0, "start": 0, "stop": 0, "newloop": 0, "closeloop": 0, "settle": 0, "close": 0},
        {"w": 5, "f": 1, "fl": 6, "run": 3, "start": 1, "stop": 1, "newloop": 1, "closeloop": 0, "settle": 1, "close": 1},
    ])
    kinds = [k for k, w in weights.items() for _ in range(w)]
    if rng.random() < 0.6:
        ops += [["newloop"], ["start"]]
    for _ in range(nops):
        k = rng.choice(kinds)
        if k == "w":
            ops.append(["w", rng.randrange(nthreads), rng.choice(DATA_RAND)])
        elif k == "f":
            ops.append(["f", rng.randrange(nthreads)])
        elif k == "wbad":
            ops.append(["wbad", rng.randrange(nthreads), rng.randrange(5)])
        elif k == "close":
            if closed:
                continue
            closed = True
            ops.append(["close"])
        else:
            ops.append([k])
    if not closed:
        ops += epilogue()
    return {"kind": "proxy", "raw": rng.choice([0, 0, 1]), "session": rng.choice(["default", "default", "custom"]),
            "ops": ops}


def random_calm_proxy(rng, nops):
    """a realistic run: the loop works off what it accepted before anything else happens to it"""
    nthreads = rng.choice([2, 3, 4])
    ops = [["newloop"], ["start"]] if rng.random() < 0.8 else []
    for _ in range(nops):
        r = rng.random()
        if r < 0.45:
            ops.append(["w", rng.randrange(nthreads), rng.choice(DATA_RAND)])
        elif r < 0.5:
            ops.append(["f", rng.randrange(nthreads)])
        elif r < 0.80:
            ops.append(["fl"])
        elif r < 0.84:
            ops.append(["run"])
        elif r < 0.88:
            ops.append(["cb"])
        elif r < 0.91:
            ops.append(["task"])
        elif r < 0.93:
            ops.append(["inval"])
        elif r < 0.95:
            ops.append(rng.choice([["exit"], ["runexit"], ["exitrun"], ["wake"], ["finish"], ["wbad", 0, rng.randrange(5)]]))
        else:
            ops.append(["settle"])
            ops.append(rng.choice([["stop"], ["start"], ["newloop"], ["closeloop"], ["exit"], ["wake"], ["finish"]]))
    ops += epilogue()
    return {"kind": "proxy", "raw": rng.choice([0, 1]), "session": rng.choice(["default", "custom"]), "ops": ops}


def exhaustive_chain(maxlen):
    alpha = [["center", 1], ["center", 0], ["cstep", 0], ["cstep", 1], ["cstep", 2], ["cstop"], ["cstart"], ["cinval"], ["cexit"]]
    for n in range(0, maxlen + 1):
        for seq in itertools.product(alpha, repeat=n):
            yield {"kind": "chain", "session": "default", "ops": [["cstart"]] + [list(o) for o in seq]}


def random_chain(rng, nops):
    ops = [["cstart"]]
    n = 0
    for _ in range(nops):
        r = rng.random()
        if r < 0.4:
            ops.append(["center", rng.choice([0, 0, 1])])
            n += 1
        elif r < 0.8:
            ops.append(["cstep", rng.randrange(max(1, n))])
        elif r < 0.87:
            ops.append(["cstop"])
        elif r < 0.91:
            ops.append(["cinval"])
        elif r < 0.95:
            ops.append(["cexit"])
        else:
            ops.append(["cstart"])
    return {"kind": "chain", "session": rng.choice(["default", "custom"]), "ops": ops}


def lock_case(rng, nops, contention):
    """calls of up to 4 threads interleaved inside the lock; at most one thread waits for the lock at a
    time and at most `contention` calls are made while the lock is held (each costs BLOCK_WAIT)"""
    pc = {t: "i" for t in range(4)}
    holder = None
    ops = []

    def do(op):
        nonlocal holder
        ops.append(op)
        k = op[0]
        if k == "lcall":
            t = op[1]
            if holder is None:
                pc[t], holder = "l", t
            else:
                pc[t] = "w"
        elif k == "lbody":
            pc[op[1]] = "r"
        elif k == "lrel":
            pc[op[1]] = "i"
            holder = None
            for u in range(4):
                if pc[u] == "w":
                    pc[u], holder = "l", u
                    break

    def call(t):
        if rng.random() < 0.2:
            return ["lcall", t, ["f"]]
        return ["lcall", t, ["w", rng.choice(["a", "b\n", "c\nd", "", "xy", "\n", "e\n\nf"])]]

    for _ in range(nops):
        choices = []
        idle = [t for t in range(4) if pc[t] == "i"]
        waiting = [t for t in range(4) if pc[t] == "w"]
        if idle and (holder is None or (not waiting and contention > 0)):
            choices += ["call"] * 3
        if holder is not None:
            choices += ["step"] * 4
        choices += ["fl"]
        c = rng.choice(choices)
        if c == "call":
            if holder is not None:
                contention -= 1
            do(call(rng.choice(idle)))
        elif c == "step":
            do(["lbody", holder] if pc[holder] == "l" else ["lrel", holder])
        else:
            do(["lfl"])
    # let everybody finish, flush, drain
    while holder is not None:
        do(["lbody", holder] if pc[holder] == "l" else ["lrel", holder])
    do(["lcall", 0, ["f"]])
    do(["lbody", 0])
    do(["lrel", 0])
    do(["lfl"])
    return {"kind": "lock", "ops": ops, "complete": True}


def soak_case(rng, mode, via="proxy"):
    nthreads = rng.choice([2, 3, 4, 6])
    writes = []
    for t in range(nthreads):
        ws = []
        for k in range(rng.choice([5, 20, 60])):
            body = rng.choice(["", "x", "\n", "line\n", "a\nb", "partial", "\n\n", "z" * 30 + "\n"])
            ws.append("[%d:%d%s]" % (t, k, body))
            if rng.random() < 0.15:
                ws.append("")
        writes.append(ws)
    if mode == "exitrace":
        # the last list is printed by code running in the event loop right before Application.exit()
        t = nthreads - 1
        writes[t] = ["[%d:%d%s]" % (t, k, rng.choice(["\n", " bye\n", "a\nb\n"])) for k in range(rng.choice([1, 1, 2, 3]))]
    return {"kind": "soak", "mode": mode, "writes": writes, "raw": rng.choice([0, 1]),
            "session": rng.choice(["default", "custom"]), "sleep": rng.choice([0.0, 0.0, 0.001]),
            "cycles": rng.choice([1, 2, 3]), "via": via, "busy": rng.choice([0.01, 0.03, 0.05])}


NEST_ALPHA = [["nstart"], ["nstop"], ["nenter"], ["nleave"], ["nw", "a\n"]]
NEST_PREFIXES = [
    [["nstart"]],
    [["nstart"], ["nenter"], ["nstart"]],          # a nested application runs inside the open section of the outer one
    [["nstart"], ["nenter"], ["nw", "w\n"]],       # text waits for the open section
    [["nstart"], ["nenter"], ["nstart"], ["nstop"]],   # the nested application has finished, the section is still open
]


def exhaustive_nest(maxlen):
    for pre in NEST_PREFIXES:
        for n in range(0, maxlen + 1):
            for seq in itertools.product(NEST_ALPHA, repeat=n):
                yield {"kind": "nest", "session": "default", "ops": [list(o) for o in pre] + [list(o) for o in seq]}


def random_nest(rng, nops):
    ops = [["nstart"]] if rng.random() < 0.8 else []
    k = 0
    for _ in range(nops):
        r = rng.random()
        if r < 0.3:
            k += 1
            ops.append(["nw", rng.choice(["t%d\n" % k, "t%d" % k, "u%d\nv%d\n" % (k, k), "e\x1b%d\n" % k])])
        elif r < 0.5:
            ops.append(["nenter"])
        elif r < 0.68:
            ops.append(["nstart"])
        elif r < 0.84:
            ops.append(["nstop"])
        else:
            ops.append(["nleave"])
    return {"kind": "nest", "session": rng.choice(["default", "custom"]), "ops": ops}


PATCH_ALPHA = [["pw", 0, "a\n"], ["pw", 1, "b"], ["pw", 1, "c\nd"], ["pf", 0], ["pemit"], ["pexit"]]


def exhaustive_patch(maxlen):
    for n in range(0, maxlen + 1):
        for seq in itertools.product(PATCH_ALPHA, repeat=n):
            yield {"kind": "patch", "raw": 0, "ops": [list(o) for o in seq]}


def random_patch(rng, nops):
    nthreads = rng.choice([1, 2, 3])
    ops = []
    left = False
    for i in range(nops):
        r = rng.random()
        if r < 0.5:
            ops.append(["pw", rng.randrange(nthreads), rng.choice(DATA_RAND)])
        elif r < 0.6:
            ops.append(["pf", rng.randrange(nthreads)])
        elif r < 0.85:
            ops.append(["pemit"])
        elif not left:
            left = True
            ops.append(["pexit"])
    return {"kind": "patch", "raw": rng.choice([0, 0, 1]), "ops": ops}


ALT_ALPHA = [["astart"], ["astop"], ["ainval"], ["aresize"], ["asec", "a\n"]]


def exhaustive_alt(maxlen):
    for fs in (1, 0):
        for n in range(0, maxlen + 1):
            for seq in itertools.product(ALT_ALPHA, repeat=n):
                yield {"kind": "alt", "fs": fs, "session": "default", "ops": [list(o) for o in seq]}


def random_alt(rng, nops):
    ops = [["astart"]] if rng.random() < 0.8 else []
    for i in range(nops):
        r = rng.random()
        if r < 0.45:
            ops.append(["asec", rng.choice(["t%d\n" % i, "p%d" % i, "x\ny%d\n" % i, "e\x1b[2J%d\n" % i])])
        elif r < 0.6:
            ops.append(["ainval"])
        elif r < 0.75:
            ops.append(["aresize"])
        elif r < 0.88:
            ops.append(["astop"])
        else:
            ops.append(["astart"])
    return {"kind": "alt", "fs": rng.choice([1, 1, 0]), "session": rng.choice(["default", "custom"]), "ops": ops}


def cases(tier, rng):
    quick = tier == "quick"
    yield from exhaustive_noapp(3 if quick else 5)
    yield from exhaustive_app(2 if quick else 3)
    yield from exhaustive_handoff(3 if quick else 4)
    yield from exhaustive_chain(3 if quick else 4)
    for _ in range(240 if quick else 4000):
        yield random_proxy(rng, rng.choice([5, 10, 20, 40]))
    for _ in range(160 if quick else 3000):
        yield random_calm_proxy(rng, rng.choice([10, 30, 60]))
    for _ in range(120 if quick else 4000):
        yield random_chain(rng, rng.choice([4, 8, 16]))
    for i in range(8 if quick else 80):
        yield lock_case(rng, rng.choice([6, 12, 24]), rng.choice([0, 1, 1, 2]))
    yield from exhaustive_alt(4 if quick else 5)
    for _ in range(60 if quick else 1500):
        yield random_alt(rng, rng.choice([5, 10, 16]))
    yield from exhaustive_nest(3 if quick else 5)
    yield from exhaustive_patch(4 if quick else 5)
    for _ in range(60 if quick else 1500):
        yield random_nest(rng, rng.choice([6, 10, 16]))
    for _ in range(100 if quick else 2000):
        yield random_patch(rng, rng.choice([6, 12, 24]))
    for i in range(3 if quick else 60):
        yield soak_case(rng, "exitrace")
    if not quick:
        for i in range(240):
            yield soak_case(rng, ["noapp", "app", "startstop"][i % 3])
        for i in range(12):
            yield soak_case(rng, ["noapp", "app"][i % 2], via="patch")
    else:
        for i in range(6):
            yield soak_case(rng, ["noapp", "app", "startstop"][i % 3])
        yield soak_case(rng, "noapp", via="patch")
        yield soak_case(rng, "app", via="patch")


def nontrivial(case):
    k = case.get("kind", "proxy")
    if k == "proxy":
        return any(op[0] == "w" and op[2] for op in case["ops"]) and any(op[0] == "fl" or op[0] == "settle" for op in case["ops"])
    if k == "chain":
        return any(op[0] == "center" for op in case["ops"])
    if k == "lock":
        return any(op[0] == "lcall" and op[2][0] == "w" and op[2][1] for op in case["ops"])
    if k == "alt":
        return any(op[0] == "asec" for op in case["ops"]) and any(op[0] == "astart" for op in case["ops"])
    if k == "nest":
        return any(op[0] == "nw" for op in case["ops"]) and any(op[0] == "nstart" for op in case["ops"])
    if k == "patch":
        return any(op[0] == "pw" and op[2] for op in case["ops"])
    return True


def distribution(cases_):
    d = {"kind": {}, "ops": {}, "threads": {}, "session": {}, "raw": {}, "len": {}}
    for c in cases_:
        k = c.get("kind", "proxy")
        d["kind"][k] = d["kind"].get(k, 0) + 1
        d["session"][c.get("session", "default")] = d["session"].get(c.get("session", "default"), 0) + 1
        if k == "soak":
            n = len(c["writes"])
            d["threads"][str(n)] = d["threads"].get(str(n), 0) + 1
            continue
        if k == "lock":
            ts = {op[1] for op in c["ops"] if op[0] == "lcall"}
            d["threads"][str(len(ts))] = d["threads"].get(str(len(ts)), 0) + 1
            for op in c["ops"]:
                d["ops"][op[0]] = d["ops"].get(op[0], 0) + 1
            continue
        ts = {op[1] for op in c["ops"] if op[0] in ("w", "f")}
        d["threads"][str(len(ts))] = d["threads"].get(str(len(ts)), 0) + 1
        n = len(c["ops"])
        key = str(n) if n < 10 else "10-19" if n < 20 else "20-39" if n < 40 else "40+"
        d["len"][key] = d["len"].get(key, 0) + 1
        if k == "proxy":
            d["raw"][str(c["raw"])] = d["raw"].get(str(c["raw"]), 0) + 1
        for op in c["ops"]:
            d["ops"][op[0]] = d["ops"].get(op[0], 0) + 1
    return d


def sample_view(case):
    if case.get("kind") == "soak":
        return dict(case, writes=[ws[:3] + ["... %d writes" % len(ws)] for ws in case["writes"]])
    return case


if __name__ == "__main__":
    sys.exit(core.main(sys.modules[__name__]))
