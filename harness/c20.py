#!/venv/bin/python
"""C20 - output printed from any thread (patch_stdout.StdoutProxy, run_in_terminal.in_terminal):
correspondence with Ptk.Model.C20 / Ptk.Model.C20Chain + property oracle.

Kinds of cases
  proxy : a real StdoutProxy on a recording Vt100_Output(StringIO), driven step by step under an
          explicit schedule: writer threads (real threads, one call each step), the real
          `patch-stdout-flush-thread` released one section at a time, a real Application
          (pipe input + the recording output) inside an asyncio loop that runs in its own
          thread, started / stopped / its loop closed and replaced at scheduled points.
          The schedule is enforced from the harness only (no source hooks): a StdoutProxy
          subclass pauses in `_flush_queue.get`, `_get_app_loop`, `_write_and_flush`; the loop
          object handed to `_write_and_flush` is a thin stand-in whose `call_soon_threadsafe`
          forwards to the real loop at the scheduled `run` step (with the context captured at
          call time), so "callback accepted" and "callback runs" are separate steps.
  chain : `in_terminal` sections (some with a body that stays open across awaits) in a real
          running Application; compared with Ptk.Model.C20Chain.
  soak  : free running threads against an unmodified StdoutProxy (no gates), without / with a
          running Application and across start/stop; only schedule independent facts are compared
          with the model (per-thread projections), the oracle checks the property.
"""
from __future__ import annotations

import asyncio
import contextvars
import io
import itertools
import json
import os
import queue
import re
import sys
import threading
import time

sys.path.insert(0, os.path.dirname(os.path.abspath(__file__)))
import core
from core import enc_str, enc_list

from prompt_toolkit.application import Application
from prompt_toolkit.application.current import create_app_session, get_app_session
from prompt_toolkit.application.run_in_terminal import in_terminal
from prompt_toolkit.data_structures import Size
from prompt_toolkit.input import create_pipe_input
from prompt_toolkit.layout import FormattedTextControl, Layout, Window
from prompt_toolkit.output.vt100 import Vt100_Output
from prompt_toolkit import patch_stdout as PS
from prompt_toolkit.patch_stdout import StdoutProxy

ID = "C20"
DRIVER = "drv_c20"
PROPS = ["Ptk.Props.C20", "Ptk.Props.C20Chain"]
SERIAL = False

TIMEOUT = float(os.environ.get("VERIF_C20_TIMEOUT", "10"))


class RigTimeout(Exception):
    pass


def _noop():
    pass


# ------------------------------------------------------------------ recording output
class RecOutput(Vt100_Output):
    """A real Vt100_Output on a StringIO that also records what it is asked to do.
    Calls made from inside a renderer operation (erase / render / reset) are not recorded
    one by one: the renderer operation itself is one event."""

    def __init__(self, rig):
        self.rig = rig
        self.sio = io.StringIO()
        super().__init__(self.sio, lambda: Size(rows=24, columns=80), term="xterm")

    def _rec(self, ev):
        rig = self.rig
        if getattr(rig.tl, "depth", 0) == 0:
            rig.events.append(ev + (threading.current_thread().name,))

    def enable_autowrap(self):
        self._rec(("A",))
        tl = self.rig.tl
        tl.depth = getattr(tl, "depth", 0) + 1
        try:
            super().enable_autowrap()
        finally:
            tl.depth -= 1

    def write(self, data):
        self._rec(("W", 0, data))
        super().write(data)

    def write_raw(self, data):
        self._rec(("W", 1, data))
        super().write_raw(data)

    def flush(self):
        self._rec(("F",))
        super().flush()


def wrap_renderer(rig, app):
    r = app.renderer

    def mk(name, orig):
        def wrapped(*a, **k):
            tl = rig.tl
            if getattr(tl, "depth", 0) == 0:
                if name == "erase":
                    rig.events.append(("E", threading.current_thread().name))
                elif name == "render":
                    rig.events.append(("X" if k.get("is_done") else "D", threading.current_thread().name))
            tl.depth = getattr(tl, "depth", 0) + 1
            try:
                return orig(*a, **k)
            finally:
                tl.depth -= 1
        return wrapped

    for name in ("erase", "render", "reset"):
        setattr(r, name, mk(name, getattr(r, name)))


# ------------------------------------------------------------------ event loop in a thread
class LoopThread:
    def __init__(self, rig, gen):
        self.rig = rig
        self.gen = gen
        self.loop = None
        self.ready = threading.Event()
        self.stopped = threading.Event()
        self.may_close = threading.Event()
        self.closed = threading.Event()
        ctx = contextvars.copy_context()   # same AppSession as the harness thread
        self.thread = threading.Thread(target=ctx.run, args=(self._main,), name=f"loop-{gen}", daemon=True)
        self.thread.start()
        if not self.ready.wait(TIMEOUT):
            raise RigTimeout("loop start")

    def _main(self):
        loop = asyncio.new_event_loop()
        self.loop = loop
        self.quit = loop.create_future()
        self.ready.set()
        try:
            loop.run_until_complete(self.quit)
        finally:
            self.stopped.set()
            self.may_close.wait(TIMEOUT)
            try:
                loop.close()
            finally:
                self.closed.set()

    def call(self, coro):
        fut = asyncio.run_coroutine_threadsafe(coro, self.loop)
        try:
            return fut.result(TIMEOUT)
        except Exception as e:
            if isinstance(e, (TimeoutError, asyncio.TimeoutError)) or type(e).__name__ == "TimeoutError":
                raise RigTimeout("loop call")
            raise

    async def _barrier(self, n=8):
        for _ in range(n):
            await asyncio.sleep(0)

    def barrier(self, n=8):
        self.call(self._barrier(n))

    def stop_running(self):
        """let run_until_complete return; the loop is then stopped but not closed"""
        if not self.stopped.is_set():
            self.loop.call_soon_threadsafe(lambda: self.quit.done() or self.quit.set_result(None))
            if not self.stopped.wait(TIMEOUT):
                raise RigTimeout("loop stop")

    def close(self):
        self.stop_running()
        self.may_close.set()
        if not self.closed.wait(TIMEOUT):
            raise RigTimeout("loop close")
        self.thread.join(TIMEOUT)


class ShimLoop:
    """Stands in for the event loop between `_get_app_loop` and `_write_and_flush`:
    `call_soon_threadsafe` asks the real loop whether it accepts callbacks (a closed loop raises
    its genuine RuntimeError) and then parks the callback until the schedule says `run`."""

    def __init__(self, rig, lt):
        self.rig = rig
        self.lt = lt

    def call_soon_threadsafe(self, cb, *args, context=None):
        self.lt.loop.call_soon_threadsafe(_noop)          # RuntimeError('Event loop is closed') if closed
        ctx = context if context is not None else contextvars.copy_context()
        self.rig.pending.append((self.lt, cb, args, ctx, self.rig.emit_text))

    def is_closed(self):
        return self.lt.loop.is_closed()

    def __getattr__(self, name):
        return getattr(self.lt.loop, name)


# ------------------------------------------------------------------ gated proxy
class GatedQueue(queue.Queue):
    def __init__(self, rig):
        super().__init__()
        self.rig = rig

    def get(self, block=True, timeout=None):
        if block and threading.current_thread().name == "patch-stdout-flush-thread":
            self.rig.gate("get")
        return super().get(block, timeout)


class GatedProxy(StdoutProxy):
    def __init__(self, rig, **kw):
        self.rig = rig
        super().__init__(**kw)

    def _start_write_thread(self):
        self._flush_queue = GatedQueue(self.rig)
        return super()._start_write_thread()

    def _write_thread(self):
        try:
            super()._write_thread()
        except BaseException as e:  # the flush thread dies
            self.rig.fl_exc = e
        finally:
            self.rig.fl_at = ("exited",)
            self.rig.fl_arrived.set()

    def _get_app_loop(self):
        self.rig.gate("getloop")
        loop = super()._get_app_loop()
        if loop is None or self.rig.free:
            return loop
        return self.rig.shim_for(loop)

    def _write_and_flush(self, loop, text):
        self.rig.gate("emit", loop, text)
        self.rig.emit_text = text
        self.rig.emit_thread_direct = loop is None
        return super()._write_and_flush(loop, text)


class Rig:
    """One real StdoutProxy + output + (optionally) application and loops, under harness control."""

    def __init__(self, raw=False, session="default", gated=True, sleep=0.0):
        self.tl = threading.local()
        self.events = []
        self.ev_pos = 0
        self.free = not gated
        self.gated = gated
        self.fl_at = None
        self.fl_prev = None
        self.fl_exc = None
        self.fl_arrived = threading.Event()
        self.fl_permit = threading.Semaphore(0)
        self.emit_text = None
        self.pending = []
        self.lost = []
        self.loops = []          # LoopThread objects, newest last
        self.shims = {}
        self.gen = 0
        self.app = None
        self.app_task = None
        self.inp_cm = None
        self.writers = {}
        self.close_thread = None
        self.session_mode = session
        self.out = RecOutput(self)
        self._sess_cm = None
        self._saved = None
        if session == "custom":
            self._sess_cm = create_app_session(output=self.out)
            self.session = self._sess_cm.__enter__()
        else:
            self.session = get_app_session()
            self._saved = (self.session._output, self.session.app)
            self.session._output = self.out
            self.session.app = None
        try:
            if gated:
                self.proxy = GatedProxy(self, sleep_between_writes=sleep, raw=raw)
                self.wait_fl()
            else:
                self.proxy = StdoutProxy(sleep_between_writes=sleep, raw=raw)
        except BaseException:
            self.teardown()
            raise

    # -- flush thread control
    def gate(self, name, *info):
        if self.free:
            return
        self.fl_prev = self.fl_at
        self.fl_at = (name,) + info
        self.fl_arrived.set()
        if not self.fl_permit.acquire(timeout=TIMEOUT * 6):
            raise RigTimeout("flush thread gate " + name)

    def wait_fl(self):
        if not self.fl_arrived.wait(TIMEOUT):
            raise RigTimeout("flush thread did not arrive")

    def fl_enabled(self):
        self.wait_fl()
        at = self.fl_at[0]
        if at == "exited":
            return False
        if at == "get":
            return self.proxy._flush_queue.qsize() > 0
        return True

    def fl_step(self):
        if not self.fl_enabled():
            return
        self.fl_arrived.clear()
        self.fl_permit.release()
        self.wait_fl()

    def fl_pc(self):
        self.wait_fl()
        at = self.fl_at
        if at[0] == "exited":
            return "exited" if self.fl_exc is None else "died:" + type(self.fl_exc).__name__
        if at[0] == "get":
            return "idle"
        if at[0] == "getloop":
            if self.fl_prev is not None and self.fl_prev[0] == "emit":
                lp = self.fl_prev[1]
                return "relook:%s" % (lp.lt.gen if isinstance(lp, ShimLoop) else "?")
            return "batch"
        lp, text = at[1], at[2]
        g = "N" if lp is None else (lp.lt.gen if isinstance(lp, ShimLoop) else "?")
        return "ready:%s:%s" % (g, enc_str(text))

    def shim_for(self, loop):
        for lt in self.loops:
            if lt.loop is loop:
                if id(lt) not in self.shims:
                    self.shims[id(lt)] = ShimLoop(self, lt)
                return self.shims[id(lt)]
        raise RuntimeError("application runs on a loop the harness does not know")

    # -- writers
    def writer(self, t):
        if t not in self.writers:
            q = queue.Queue()
            done = threading.Event()

            def body():
                while True:
                    cmd = q.get()
                    if cmd is None:
                        return
                    try:
                        if cmd[0] == "w":
                            self.proxy.write(cmd[1])
                        elif cmd[0] == "f":
                            self.proxy.flush()
                        elif cmd[0] == "ww":      # free running: a whole list of writes
                            for d in cmd[1]:
                                self.proxy.write(d)
                    finally:
                        done.set()

            th = threading.Thread(target=body, name=f"writer-{t}", daemon=True)
            th.start()
            self.writers[t] = (q, done, th)
        return self.writers[t]

    def do_write(self, t, data):
        q, done, _ = self.writer(t)
        done.clear()
        q.put(("w", data))
        if not done.wait(TIMEOUT):
            raise RigTimeout("write blocked")

    def do_flush(self, t):
        q, done, _ = self.writer(t)
        done.clear()
        q.put(("f",))
        if not done.wait(TIMEOUT):
            raise RigTimeout("flush blocked")

    def do_close(self):
        """StdoutProxy.close() from its own thread: puts _Done, then blocks in join()"""
        if self.close_thread is not None:
            return
        n = self.proxy._flush_queue.qsize()
        self.close_thread = threading.Thread(target=self.proxy.close, name="closer", daemon=True)
        self.close_thread.start()
        t0 = time.time()
        while self.proxy._flush_queue.qsize() == n and self.close_thread.is_alive():
            if time.time() - t0 > TIMEOUT:
                raise RigTimeout("close did not enqueue")
            time.sleep(0.0005)

    # -- loops and application
    def cur_loop(self):
        return self.loops[-1] if self.loops and not self.loops[-1].closed.is_set() else None

    def app_on(self):
        return self.session.app is not None

    def new_loop(self):
        if self.cur_loop() is not None:
            return
        self.gen += 1
        self.loops.append(LoopThread(self, self.gen))

    def ensure_app(self):
        if self.app is None:
            self.inp_cm = create_pipe_input()
            inp = self.inp_cm.__enter__()
            self.app = Application(layout=Layout(Window(FormattedTextControl(">"))), input=inp, output=self.out)
            wrap_renderer(self, self.app)

    def start_app(self):
        lt = self.cur_loop()
        if lt is None or self.app_on():
            return
        self.ensure_app()

        async def go():
            self.app_task = asyncio.ensure_future(self.app.run_async())
            for _ in range(100):
                await asyncio.sleep(0)
                if self.app._is_running and self.session.app is self.app:
                    break
            for _ in range(4):
                await asyncio.sleep(0)

        lt.call(go())
        if self.session.app is not self.app:
            raise RigTimeout("application did not start")

    def stop_app(self):
        if not self.app_on():
            return
        lt = self.cur_loop()

        async def go():
            self.app.exit()
            await self.app_task

        lt.call(go())

    def run_pending(self):
        if not self.pending:
            return
        lt, cb, args, ctx, text = self.pending.pop(0)
        lt.loop.call_soon_threadsafe(cb, *args, context=ctx)
        lt.barrier()

    def close_loop(self):
        lt = self.cur_loop()
        if lt is None or self.app_on():
            return
        lt.stop_running()
        # the callbacks the loop had accepted are in its ready queue when it is closed
        for (l2, cb, args, ctx, text) in self.pending:
            l2.loop.call_soon_threadsafe(cb, *args, context=ctx)
            self.lost.append(text)
        self.pending = []
        lt.close()

    def settle(self, limit=100000):
        for _ in range(limit):
            if self.fl_enabled():
                self.fl_step()
            elif self.pending:
                self.run_pending()
            else:
                return

    # -- observation
    def take_events(self):
        evs = self.events[self.ev_pos:]
        self.ev_pos += len(evs)
        return evs

    def state_line(self):
        p = self.proxy
        items = list(p._flush_queue.queue)
        q = enc_list(items, lambda i: enc_str(i) if isinstance(i, str) else "DONE")
        lt = self.loops[-1] if self.loops else None
        lopen = 1 if (lt is not None and not lt.loop.is_closed()) else 0
        app = 1 if (self.session.app is not None and self.session.app._is_running) else 0
        return ("buf=%s q=%s fl=%s pend=%s lost=%s app=%d loop=%d/%d" % (
            enc_str("".join(p._buffer)), q, self.fl_pc(), enc_list([x[4] for x in self.pending], enc_str),
            enc_list(self.lost, enc_str), app, self.gen, lopen))

    # -- teardown: never hangs
    def teardown(self):
        errs = []
        self.free = True
        for _ in range(4):
            self.fl_permit.release()

        def attempt(f):
            try:
                f()
            except BaseException as e:
                errs.append(repr(e))

        # deliver what is parked, stop the application, close the proxy, close the loops
        def deliver():
            for (lt, cb, args, ctx, text) in self.pending:
                try:
                    lt.loop.call_soon_threadsafe(cb, *args, context=ctx)
                except RuntimeError:
                    pass
            self.pending = []
        attempt(deliver)
        if getattr(self, "proxy", None) is not None:
            def close_proxy():
                if self.close_thread is None:
                    self.close_thread = threading.Thread(target=self.proxy.close, daemon=True)
                    self.close_thread.start()
                self.close_thread.join(TIMEOUT)
                if self.close_thread.is_alive():
                    # the flush thread died earlier: close() waits in join() for a dead thread? no -
                    # join() of a dead thread returns; a live blocked one is reported
                    raise RigTimeout("close() did not return")
            attempt(close_proxy)
        attempt(lambda: self.stop_app())
        for lt in self.loops:
            attempt(lt.close)
        for (q, done, th) in self.writers.values():
            q.put(None)
        for (q, done, th) in self.writers.values():
            th.join(TIMEOUT)
        if self.inp_cm is not None:
            attempt(lambda: self.inp_cm.__exit__(None, None, None))
        if self._sess_cm is not None:
            attempt(lambda: self._sess_cm.__exit__(None, None, None))
        elif self._saved is not None:
            self.session._output, self.session.app = self._saved
        return errs


# ------------------------------------------------------------------ canonical events
def canon_events(evs):
    """A W F (enable_autowrap, write, flush outside any renderer operation) = one emission."""
    out = []
    i = 0
    while i < len(evs):
        e = evs[i]
        if e[0] == "A" and i + 2 < len(evs) + 0 and evs[i + 1][0] == "W" and evs[i + 2][0] == "F":
            out.append("O%d:%s" % (evs[i + 1][1], enc_str(evs[i + 1][2])))
            i += 3
        elif e[0] in ("E", "D", "X"):
            out.append(e[0])
            i += 1
        else:
            out.append("?" + e[0] + (":" + enc_str(e[2]) if e[0] == "W" else ""))
            i += 1
    return out


def op_line(op):
    k = op[0]
    if k == "w":
        return "w %d %s" % (op[1], enc_str(op[2]))
    if k == "f":
        return "f %d" % op[1]
    return k


def model_lines(case):
    kind = case.get("kind", "proxy")
    if kind == "proxy":
        return ["init %d" % case["raw"]] + [op_line(op) for op in case["ops"]] + ["end"]
    raise ValueError(kind)


def run_proxy_case(case):
    """-> (lines, record) ; record is what the oracle needs"""
    rig = Rig(raw=bool(case["raw"]), session=case.get("session", "default"))
    lines = []
    rec = {"events": None, "errors": []}
    all_toks = []
    try:
        lines.append(" | " + rig.state_line())
        for op in case["ops"]:
            k = op[0]
            lifecycle = k in ("start", "stop")
            if k == "w":
                rig.do_write(op[1], op[2])
            elif k == "f":
                rig.do_flush(op[1])
            elif k == "close":
                rig.do_close()
            elif k == "fl":
                rig.fl_step()
            elif k == "run":
                rig.run_pending()
            elif k == "start":
                rig.start_app()
            elif k == "stop":
                rig.stop_app()
            elif k == "newloop":
                rig.new_loop()
            elif k == "closeloop":
                rig.close_loop()
            elif k == "settle":
                rig.settle()
            else:
                raise ValueError(op)
            evs = rig.take_events()
            if lifecycle:
                # the application's own start-up / shut-down writes (cursor shape, bracketed paste ...)
                evs = [e for e in evs if e[0] in ("E", "D", "X")]
            toks = canon_events(evs)
            all_toks += toks
            lines.append(" ".join(toks) + " | " + rig.state_line())
        text = "".join(core.dec_str(t[3:]) for t in all_toks if t[0] == "O")
        started = any(t == "D" for t in all_toks)
        quiescent = ("".join(rig.proxy._buffer) == "" and not any(isinstance(i, str) and i for i in rig.proxy._flush_queue.queue)
                     and rig.fl_pc() in ("idle", "exited") and not rig.pending)
        lines.append("out=%s term=%s quiescent=%d" % (enc_str(text), "-" if started else enc_str(rig.out.sio.getvalue()),
                                                     1 if quiescent else 0))
    finally:
        rec["errors"] = rig.teardown()
    if rec["errors"]:
        lines.append("teardown-errors:" + ";".join(rec["errors"])[:300])
    return lines, rec


def impl_lines(case):
    kind = case.get("kind", "proxy")
    if kind == "proxy":
        return run_proxy_case(case)[0]
    raise ValueError(kind)


def oracle(case):
    return []


def cases(tier, rng):
    yield {"kind": "proxy", "raw": 0, "session": "default",
           "ops": [["w", 0, "a\nb"], ["fl"], ["fl"], ["fl"], ["newloop"], ["start"], ["w", 1, "c\n"], ["fl"], ["fl"],
                   ["fl"], ["run"], ["f", 0], ["settle"], ["stop"], ["closeloop"]]}


if __name__ == "__main__":
    sys.exit(core.main(sys.modules[__name__]))
