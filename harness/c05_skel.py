"""
C05 support: the binding table of the running code and the projection of a live editor to the
MODE SKELETON modelled in lean/Ptk/Model/C05Skel.lean.

Used by harness/gen_c05.py (-> lean/Ptk/Gen/C05Bindings.lean, regenerated on every check) and by
harness/c05.py (the per-key skeleton correspondence).  Nothing here decides anything about the
property: it prints what the real objects contain.
"""
from __future__ import annotations

import enum
import hashlib

from prompt_toolkit.filters.base import Always, Condition, Never, _AndList, _Invert, _OrList

NAMED_BASE = 0x110000
FLUSH_KEY = 0x300000
SIMPLE = (str, bool, int, type(None))
FOLLOW = ("operator_func", "test")      # closed-over functions whose identity is part of the label


# ------------------------------------------------------------------------------ labels
def _short_mod(fn) -> str:
    return (getattr(fn, "__module__", "") or "").split(".")[-1]


_LABELS: dict = {}


def fn_label(fn, depth=0) -> str:
    """deterministic, descriptive label of a (possibly closed-over) function: `module:qualname` plus
    the simple values it closes over (`[delete_only=False,...]`) and the labels of a closed-over
    operator / focus-test function"""
    key = id(fn)
    hit = _LABELS.get(key)
    if hit is not None and hit[0] is fn:
        return hit[1]
    q = getattr(fn, "__qualname__", type(fn).__name__).replace("<locals>.", "")
    lab = f"{_short_mod(fn)}:{q}"
    extra = []
    code = getattr(fn, "__code__", None)
    clo = getattr(fn, "__closure__", None)
    if code is not None and clo and depth < 3:
        for name, cell in sorted(zip(code.co_freevars, clo)):
            try:
                v = cell.cell_contents
            except ValueError:
                continue
            if isinstance(v, enum.Enum):
                extra.append(f"{name}={v.name}")
            elif isinstance(v, SIMPLE):
                extra.append(f"{name}={v!r}")
            elif callable(v) and hasattr(v, "__code__") and name in FOLLOW:
                extra.append(f"{name}={fn_label(v, depth + 1)}")
            elif type(v).__name__ == "Buffer":
                extra.append(f"{name}=Buffer({v.name})")
    if extra:
        lab += "[" + ",".join(extra) + "]"
    if depth == 0:
        _LABELS[key] = (fn, lab)
    return lab


def key_name(k) -> str:
    return k.value if isinstance(k, enum.Enum) else k


# ------------------------------------------------------------------------------ the table
def filt(f, atoms):
    """Filter -> nested tuple over atom names; `atoms[name]` = a Condition object with that name"""
    if isinstance(f, _AndList):
        return ("and", [filt(x, atoms) for x in f.filters])
    if isinstance(f, _OrList):
        return ("or", [filt(x, atoms) for x in f.filters])
    if isinstance(f, _Invert):
        return ("not", filt(f.filter, atoms))
    if isinstance(f, Always):
        return ("tt",)
    if isinstance(f, Never):
        return ("ff",)
    if isinstance(f, Condition):
        n = fn_label(f.func)
    else:
        n = "?" + type(f).__name__
    atoms.setdefault(n, f)
    return ("atom", n)


def live_bindings(app):
    """the flattened Binding list the key processor of `app` matches against right now"""
    return app.key_processor._bindings._key_bindings.bindings


def table(app):
    """-> (rows, atoms): rows = [{keys, filter, eager, handler}], atoms = {name: Condition}"""
    atoms: dict = {}
    rows = []
    for b in live_bindings(app):
        rows.append({"keys": [key_name(k) for k in b.keys], "filter": filt(b.filter, atoms),
                     "eager": filt(b.eager, atoms), "handler": fn_label(b.handler)})
    return rows, atoms


def table_names(rows, atoms):
    """-> (sorted atom names, sorted handler labels, sorted named keys)"""
    an = sorted(atoms)
    hn = sorted({r["handler"] for r in rows})
    kn = sorted({k for r in rows for k in r["keys"] if len(k) != 1})
    return an, hn, kn


def table_hash(rows, atoms) -> str:
    an, hn, kn = table_names(rows, atoms)
    return hashlib.sha1(repr((rows, an, hn, kn)).encode()).hexdigest()[:16]


def canonical_app():
    """a PromptSession application as the harness builds them (for the generator)"""
    import asyncio

    from prompt_toolkit import PromptSession
    from prompt_toolkit.application.current import set_app
    from prompt_toolkit.enums import EditingMode
    from prompt_toolkit.input import DummyInput
    from prompt_toolkit.output import DummyOutput

    out = {}

    async def mk():
        s = PromptSession(input=DummyInput(), output=DummyOutput(), editing_mode=EditingMode.VI, multiline=True)
        with set_app(s.app):
            out["t"] = table(s.app)
            # the table must not depend on which buffer has the focus
            s.app.layout.focus(s.search_buffer)
            out["t2"] = table(s.app)

    loop = asyncio.new_event_loop()
    try:
        loop.run_until_complete(mk())
    finally:
        loop.close()
    (rows, atoms), (rows2, atoms2) = out["t"], out["t2"]
    same = rows == rows2 and sorted(atoms) == sorted(atoms2)
    return rows, atoms, same


def canonical_writes() -> dict:
    """handler label -> skeleton-relevant statements, for the generator"""
    import asyncio

    from prompt_toolkit import PromptSession
    from prompt_toolkit.application.current import set_app
    from prompt_toolkit.enums import EditingMode
    from prompt_toolkit.input import DummyInput
    from prompt_toolkit.output import DummyOutput

    out = {}

    async def mk():
        s = PromptSession(input=DummyInput(), output=DummyOutput(), editing_mode=EditingMode.VI, multiline=True)
        with set_app(s.app):
            out["w"] = table_writes(s.app)

    loop = asyncio.new_event_loop()
    try:
        loop.run_until_complete(mk())
    finally:
        loop.close()
    return out["w"]


# ------------------------------------------------------------------------------ key ids
class KeyIds:
    def __init__(self, named):
        self.named = {k: i for i, k in enumerate(named)}
        self.other = NAMED_BASE + len(named)

    def of(self, key) -> int:
        """key (Keys member or one character) -> id"""
        k = key_name(key)
        if len(k) == 1:
            return ord(k)
        i = self.named.get(k)
        return self.other if i is None else NAMED_BASE + i


def data_class(data: str, register_names: str) -> int:
    """0: not a register name; 1: `data in vi_register_names` and non-empty; 2: empty"""
    if data == "":
        return 2
    return 1 if data in register_names else 0


# ------------------------------------------------------------------------------ skeleton writes of a handler
# The statements of a handler body that can write to the mode skeleton, in source order, with the
# control flow around them (everything else pruned): pinned next to the hand-written handler class.
SK_ATTRS = {"input_mode", "operator_func", "operator_arg", "waiting_for_digraph", "digraph_symbol1",
            "temporary_navigation_mode", "recording_register", "quoted_insert", "selection_state", "editing_mode",
            "arg", "type", "original_cursor_position", "shift_mode"}
SK_CALLS = {"start_selection", "exit_selection", "copy_selection", "cut_selection", "enter_shift_mode",
            "append_to_arg_count", "start_search", "stop_search", "accept_search", "feed", "feed_multiple",
            "start_macro", "end_macro", "validate_and_handle", "exit", "reset", "insert_in_block_selection",
            "operator_func", "text_object_func", "unshift_move", "open_in_editor", "call"}


# buffer edits (they may raise EditReadOnlyBuffer before a later skeleton write): kept only in handlers
# that also write to the skeleton
ED_ATTRS = {"document", "text"}
ED_CALLS = {"delete", "delete_before_cursor", "insert_text", "insert_line_above", "insert_line_below", "newline",
            "transform_region", "transform_current_line", "transform_lines", "join_next_line",
            "join_selected_lines", "paste_clipboard_data", "undo", "redo", "swap_characters_before_cursor",
            "apply_search"}


def _is_sk_node(n, edits=False) -> bool:
    import ast

    attrs = SK_ATTRS | ED_ATTRS if edits else SK_ATTRS
    calls = SK_CALLS | ED_CALLS if edits else SK_CALLS
    if isinstance(n, (ast.Assign, ast.AugAssign, ast.AnnAssign)):
        targets = n.targets if isinstance(n, ast.Assign) else [n.target]
        for t in targets:
            for x in ast.walk(t):
                if isinstance(x, ast.Attribute) and x.attr in attrs:
                    return True
    for x in ast.walk(n):
        if isinstance(x, ast.Call):
            f = x.func
            name = f.attr if isinstance(f, ast.Attribute) else (f.id if isinstance(f, ast.Name) else None)
            if name in calls:
                return True
    return False


def _prune(stmts, edits, top=False):
    """keep the statements that may write to the skeleton, and the control flow that leads to them
    (an `if` that only returns / raises is kept when something kept follows it in the same block)"""
    import ast

    def real(xs):
        return any(not isinstance(x, (ast.Pass, ast.Return, ast.Raise, ast.Break, ast.Continue))
                   and not getattr(x, "_flow_only", False) for x in xs)

    def jumps(xs):
        return any(isinstance(x, (ast.Return, ast.Raise, ast.Break, ast.Continue)) or getattr(x, "_flow_only", False)
                   for x in xs)

    out = []
    for st in stmts:
        if isinstance(st, (ast.FunctionDef, ast.AsyncFunctionDef, ast.ClassDef)):
            continue
        if isinstance(st, ast.If):
            body, orelse = _prune(st.body, edits), _prune(st.orelse, edits)
            if real(body) or real(orelse) or _is_sk_node(st.test, edits):
                out.append(ast.If(test=st.test, body=body or [ast.Pass()], orelse=orelse))
            elif jumps(body) or jumps(orelse):
                node = ast.If(test=st.test, body=body or [ast.Pass()], orelse=orelse)
                node._flow_only = True
                out.append(node)
            continue
        if isinstance(st, (ast.For, ast.While)):
            body = _prune(st.body, edits)
            if real(body):
                if isinstance(st, ast.For):
                    out.append(ast.For(target=st.target, iter=st.iter, body=body, orelse=[]))
                else:
                    out.append(ast.While(test=st.test, body=body, orelse=[]))
            continue
        if isinstance(st, ast.With):
            body = _prune(st.body, edits)
            if real(body):
                out.append(ast.With(items=st.items, body=body))
            continue
        if isinstance(st, ast.Try):
            body, orelse, fin = _prune(st.body, edits), _prune(st.orelse, edits), _prune(st.finalbody, edits)
            hs = [ast.ExceptHandler(type=h.type, name=h.name, body=_prune(h.body, edits) or [ast.Pass()])
                  for h in st.handlers]
            if real(body) or real(orelse) or real(fin) or any(real(h.body) for h in hs):
                out.append(ast.Try(body=body or [ast.Pass()], handlers=hs, orelse=orelse, finalbody=fin))
            elif any(jumps(h.body) for h in hs):
                node = ast.Try(body=body or [ast.Pass()], handlers=hs, orelse=orelse, finalbody=fin)
                node._flow_only = True
                out.append(node)
            continue
        if isinstance(st, ast.Return):
            out.append(st if (st.value is not None and _is_sk_node(st, edits)) else ast.Return(value=None))
            continue
        if isinstance(st, (ast.Raise, ast.Break, ast.Continue)):
            out.append(st)
            continue
        if _is_sk_node(st, edits):
            out.append(st)
    # jumps (and ifs that only jump) after the last real statement of the function carry no information
    while top and out and (getattr(out[-1], "_flow_only", False)
                   or isinstance(out[-1], (ast.Return, ast.Raise, ast.Break, ast.Continue, ast.Pass))):
        out.pop()
    return out


_WRITES: dict = {}


def handler_writes(fn) -> str:
    """the pruned, normalised source of the skeleton-relevant statements of `fn` ('' when it has none);
    line breaks are written ` /<indent> `"""
    import ast
    import inspect
    import re
    import textwrap

    code = getattr(fn, "__code__", None)
    if code is None:
        return "?"
    if code in _WRITES:
        return _WRITES[code]
    try:
        src = textwrap.dedent(inspect.getsource(fn))
        tree = ast.parse(src)
        fdef = next(n for n in ast.walk(tree) if isinstance(n, (ast.FunctionDef, ast.AsyncFunctionDef)))
        body = _prune(fdef.body, False, True)
        if not any(not isinstance(x, (ast.Pass, ast.Return)) for x in body):
            res = ""
        else:
            body = _prune(fdef.body, True, True)
            mod = ast.Module(body=body, type_ignores=[])
            ast.fix_missing_locations(mod)
            txt = ast.unparse(mod)
            res = re.sub(r"\n( *)", lambda m: f" /{len(m.group(1)) // 4} ", txt)
    except Exception as e:  # noqa
        res = "?" + type(e).__name__
    _WRITES[code] = res
    return res


def handler_writes_full(fn) -> str:
    """`handler_writes` of a handler, followed by that of the Vi operator function it closes over"""
    res = handler_writes(fn)
    code = getattr(fn, "__code__", None)
    clo = getattr(fn, "__closure__", None)
    if code is not None and clo and "operator_func" in code.co_freevars:
        try:
            op = clo[code.co_freevars.index("operator_func")].cell_contents
            res += " || operator_func: " + handler_writes(op)
        except ValueError:
            pass
    return res


def table_writes(app) -> dict:
    """handler label -> skeleton writes (of the first handler function with that label)"""
    out = {}
    for b in live_bindings(app):
        out.setdefault(fn_label(b.handler), handler_writes_full(b.handler))
    return out
