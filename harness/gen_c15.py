#!/venv/bin/python
"""
C15 constants re-extracted from the CURRENT tree on every run -> lean/Ptk/Gen/C15.lean:

  bufferSize          default `buffer_size` of generator_to_async_generator (read from the signature of the
                      imported function) = the queue bound of ThreadedCompleter's hand-off
  threadedDefaultSize ThreadedCompleter.get_completions_async calls generator_to_async_generator with the
                      iterable only (so `bufferSize` is what it gets)
  putHasTimeout       every `q.put(...)` of the producer thread has a `timeout=` (a blocking put could never
                      notice `quitting` on a full queue: the model's `Full` steps would not exist)
  putTimeoutSecs      that timeout (seconds; the harness waits for real `Full` timeouts in a few cases)
  quitInFinally       the consumer's `finally` first sets `quitting = True`, then awaits `runner_f`
  runningFinally      `_only_one_at_a_time` resets `running` in a `finally` (cancellation clears the flag)

The structural flags are read from the AST of the source files of the imported modules; the Props
module re-decides `gen_ok` on them, so a change there breaks the build at a named place (the
correspondence would report the behaviour as well).
"""
from __future__ import annotations

import ast
import inspect

import gen_tables as G


def _func(tree, *path):
    node = tree
    for name in path:
        found = None
        for ch in ast.walk(node):
            if isinstance(ch, (ast.FunctionDef, ast.AsyncFunctionDef, ast.ClassDef)) and ch.name == name and ch is not node:
                found = ch
                break
        if found is None:
            return None
        node = found
    return node


def probe():
    res = {"bufferSize": 0, "threadedDefaultSize": False, "putHasTimeout": False, "putTimeoutSecs": 0,
           "quitInFinally": False, "runningFinally": False}
    from prompt_toolkit.eventloop import async_generator as ag
    from prompt_toolkit.completion import base as cb
    from prompt_toolkit import buffer as bf

    try:
        d = inspect.signature(ag.generator_to_async_generator).parameters["buffer_size"].default
        res["bufferSize"] = int(d) if isinstance(d, int) and d > 0 else 0
    except Exception:
        pass

    try:
        tree = ast.parse(inspect.getsource(cb))
        f = _func(tree, "ThreadedCompleter", "get_completions_async")
        calls = [c for c in ast.walk(f) if isinstance(c, ast.Call)
                 and getattr(c.func, "id", getattr(c.func, "attr", None)) == "generator_to_async_generator"]
        res["threadedDefaultSize"] = len(calls) == 1 and len(calls[0].args) == 1 and not calls[0].keywords
    except Exception:
        pass

    try:
        tree = ast.parse(inspect.getsource(ag))
        g = _func(tree, "generator_to_async_generator")
        runner = _func(g, "runner")
        puts = [c for c in ast.walk(runner) if isinstance(c, ast.Call)
                and isinstance(c.func, ast.Attribute) and c.func.attr == "put"]
        touts = []
        for c in puts:
            kw = [k for k in c.keywords if k.arg == "timeout"]
            touts.append(kw[0].value.value if kw and isinstance(kw[0].value, ast.Constant) else None)
        res["putHasTimeout"] = len(puts) >= 2 and all(isinstance(t, (int, float)) and t > 0 for t in touts)
        if res["putHasTimeout"]:
            res["putTimeoutSecs"] = int(max(touts))
        # the consumer: the Try statement directly in the body of the async generator (not in runner)
        tries = [s for s in g.body if isinstance(s, ast.Try)]
        ok = False
        for t in tries:
            fb = t.finalbody
            if (len(fb) >= 2 and isinstance(fb[0], ast.Assign) and getattr(fb[0].targets[0], "id", None) == "quitting"
                    and isinstance(fb[0].value, ast.Constant) and fb[0].value.value is True):
                aw = [n for s in fb[1:] for n in ast.walk(s) if isinstance(n, ast.Await)]
                ok = any(getattr(a.value, "id", None) == "runner_f" for a in aw)
        res["quitInFinally"] = ok
    except Exception:
        pass

    try:
        tree = ast.parse(inspect.getsource(bf))
        f = _func(tree, "_only_one_at_a_time", "new_coroutine")
        ok = False
        for t in ast.walk(f):
            if isinstance(t, ast.Try):
                for s in t.finalbody:
                    if (isinstance(s, ast.Assign) and getattr(s.targets[0], "id", None) == "running"
                            and isinstance(s.value, ast.Constant) and s.value.value is False):
                        ok = True
        res["runningFinally"] = ok
    except Exception:
        pass
    return res


def generate() -> None:
    try:
        r = probe()
    except Exception:  # broken tree: keep the model compilable, the side conditions fail at `gen_ok`
        r = {"bufferSize": 0, "threadedDefaultSize": False, "putHasTimeout": False, "putTimeoutSecs": 0,
             "quitInFinally": False, "runningFinally": False}
    b = lambda x: "true" if x else "false"  # noqa: E731
    body = "namespace Ptk.Gen.C15\n\n"
    body += "/-- default `buffer_size` of `generator_to_async_generator` (0 = could not be read) -/\n"
    body += f"def bufferSize : Nat := {r['bufferSize']}\n\n"
    body += "/-- `ThreadedCompleter.get_completions_async` passes only the iterable -/\n"
    body += f"def threadedDefaultSize : Bool := {b(r['threadedDefaultSize'])}\n\n"
    body += "/-- every `q.put` of the producer thread has a positive `timeout=` -/\n"
    body += f"def putHasTimeout : Bool := {b(r['putHasTimeout'])}\n\n"
    body += f"def putTimeoutSecs : Nat := {r['putTimeoutSecs']}\n\n"
    body += "/-- the consumer's `finally` sets `quitting = True` and then awaits `runner_f` -/\n"
    body += f"def quitInFinally : Bool := {b(r['quitInFinally'])}\n\n"
    body += "/-- `_only_one_at_a_time` clears `running` in a `finally` -/\n"
    body += f"def runningFinally : Bool := {b(r['runningFinally'])}\n\n"
    body += "end Ptk.Gen.C15\n"
    G.write("C15.lean", body)


if __name__ == "__main__":
    generate()
    print(probe())
