#!/venv/bin/python
"""
C19 tables: re-extracted from the live objects of the CURRENT tree on every run and
written to lean/Ptk/Gen/C19.lean (only rewritten when the content changes).

  styles/base.py        ANSI_COLOR_NAMES, ANSI_COLOR_NAMES_ALIASES, DEFAULT_ATTRS
  styles/style.py       _named_colors_lowercase, _EMPTY_ATTRS
  output/vt100.py       FG_ANSI_COLORS, BG_ANSI_COLORS, ANSI_COLORS_TO_RGB (dict order), _256_colors.colors
  formatted_text/ansi.py  _fg_colors, _bg_colors, _256_colors   (the decoder's tables)
"""
from __future__ import annotations

import gen_tables as G


def ltext(s: str) -> str:
    out = []
    for c in s:
        if 33 <= ord(c) < 127 and c not in "'\\":
            out.append(f"'{c}'")
        else:
            out.append(f"Char.ofNat {ord(c)}")
    return "[" + ", ".join(out) + "]"


def lrgb(t) -> str:
    r, g, b = t
    return f"({int(r)}, {int(g)}, {int(b)})"


def lopt_text(v) -> str:
    return "none" if v is None else f"some {ltext(v)}"


def lopt_bool(v) -> str:
    return "none" if v is None else ("some true" if v else "some false")


def lattrs(a) -> str:
    return ("{ color := %s, bgcolor := %s, bold := %s, underline := %s, strike := %s, italic := %s, "
            "blink := %s, reverse := %s, hidden := %s }") % (
        lopt_text(a.color), lopt_text(a.bgcolor), lopt_bool(a.bold), lopt_bool(a.underline),
        lopt_bool(a.strike), lopt_bool(a.italic), lopt_bool(a.blink), lopt_bool(a.reverse),
        lopt_bool(a.hidden))


def llist(items, per_line=4) -> str:
    items = list(items)
    if not items:
        return "[]"
    rows = [", ".join(items[i:i + per_line]) for i in range(0, len(items), per_line)]
    return "[\n  " + ",\n  ".join(rows) + "]"


def generate() -> None:
    """never raises (other properties' checks import this plug-in too): if the tables cannot be
    extracted, a Gen file that does not compile is written, so that only the C19 build fails."""
    try:
        _generate()
    except Exception as e:  # noqa: BLE001
        msg = (type(e).__name__ + ": " + str(e)).replace("\n", " ")[:300]
        G.write("C19.lean", "import Ptk.Model.C19Types\n-- table extraction from the current tree FAILED: "
                + msg + "\nexample : False := by decide\n")


def _generate() -> None:
    from prompt_toolkit.styles import base as sbase
    from prompt_toolkit.styles import style as sstyle
    from prompt_toolkit.output import vt100
    from prompt_toolkit.formatted_text import ansi

    b = "import Ptk.Model.C19Types\nnamespace Ptk.Gen.C19\nopen Ptk.C19\n\n"
    b += "/-- styles/base.py ANSI_COLOR_NAMES (list order) -/\n"
    b += "def ansiNames : List Text := " + llist(ltext(n) for n in sbase.ANSI_COLOR_NAMES) + "\n\n"
    b += "/-- styles/base.py ANSI_COLOR_NAMES_ALIASES (dict order) -/\n"
    b += "def aliases : List (Text × Text) := " + llist(
        (f"({ltext(k)}, {ltext(v)})" for k, v in sbase.ANSI_COLOR_NAMES_ALIASES.items()), 2) + "\n\n"
    b += "/-- styles/style.py _named_colors_lowercase (dict order) -/\n"
    b += "def named : List (Text × Text) := " + llist(
        (f"({ltext(k)}, {ltext(v)})" for k, v in sstyle._named_colors_lowercase.items()), 2) + "\n\n"
    b += "/-- output/vt100.py FG_ANSI_COLORS -/\n"
    b += "def fg : List (Text × Nat) := " + llist(
        (f"({ltext(k)}, {int(v)})" for k, v in vt100.FG_ANSI_COLORS.items()), 2) + "\n\n"
    b += "/-- output/vt100.py BG_ANSI_COLORS -/\n"
    b += "def bg : List (Text × Nat) := " + llist(
        (f"({ltext(k)}, {int(v)})" for k, v in vt100.BG_ANSI_COLORS.items()), 2) + "\n\n"
    b += "/-- output/vt100.py ANSI_COLORS_TO_RGB in dict iteration order -/\n"
    b += "def ansiRgb : List (Text × RGB) := " + llist(
        (f"({ltext(k)}, {lrgb(v)})" for k, v in vt100.ANSI_COLORS_TO_RGB.items()), 2) + "\n\n"
    b += "/-- output/vt100.py _256_colors.colors -/\n"
    b += "def pal256 : List RGB := " + llist((lrgb(c) for c in vt100._256_colors.colors), 8) + "\n\n"
    b += "/-- formatted_text/ansi.py _fg_colors (SGR code -> name) -/\n"
    b += "def decFg : List (Nat × Text) := " + llist(
        (f"({int(k)}, {ltext(v)})" for k, v in ansi._fg_colors.items()), 3) + "\n\n"
    b += "/-- formatted_text/ansi.py _bg_colors (SGR code -> name) -/\n"
    b += "def decBg : List (Nat × Text) := " + llist(
        (f"({int(k)}, {ltext(v)})" for k, v in ansi._bg_colors.items()), 3) + "\n\n"
    b += "/-- formatted_text/ansi.py _256_colors (index -> '#rrggbb') -/\n"
    b += "def dec256 : List (Nat × Text) := " + llist(
        (f"({int(k)}, {ltext(v)})" for k, v in ansi._256_colors.items()), 3) + "\n\n"
    b += "/-- styles/base.py DEFAULT_ATTRS -/\n"
    b += "def defaultAttrs : Attrs := " + lattrs(sbase.DEFAULT_ATTRS) + "\n\n"
    b += "/-- styles/style.py _EMPTY_ATTRS -/\n"
    b += "def emptyAttrs : Attrs := " + lattrs(sstyle._EMPTY_ATTRS) + "\n\n"
    # behaviour probe: is the text after '#' validated as hexadecimal?
    def rejects(t):
        try:
            sstyle.parse_color(t)
            return False
        except ValueError:
            return True
    validated = rejects("#zzzzzz") and rejects("#zzz") and rejects("#+12345") and rejects("#0x1234")
    b += "/-- probe of styles/style.py parse_color: '#zzzzzz', '#zzz', '#+12345', '#0x1234' raise ValueError -/\n"
    b += "def hexValidated : Bool := " + ("true" if validated else "false") + "\n\n"
    b += ("def tables : Tables :=\n  { ansiNames := ansiNames, aliases := aliases, named := named, fg := fg, bg := bg,\n"
          "    ansiRgb := ansiRgb, pal256 := pal256, decFg := decFg, decBg := decBg, dec256 := dec256,\n"
          "    defaultAttrs := defaultAttrs, emptyAttrs := emptyAttrs, hexValidated := hexValidated }\n")
    b += "\nend Ptk.Gen.C19\n"
    G.write("C19.lean", b.replace("-- GENERATED by harness/gen_tables.py", "-- GENERATED by harness/gen_c19.py"))


if __name__ == "__main__":
    generate()
