#!/venv/bin/python
"""
C19 tables: re-extracted from the live objects of the CURRENT tree on every run and
written to lean/Ptk/Gen/C19.lean (only rewritten when the content changes).

  styles/base.py        ANSI_COLOR_NAMES, ANSI_COLOR_NAMES_ALIASES, DEFAULT_ATTRS
  styles/style.py       _named_colors_lowercase, _EMPTY_ATTRS
  output/vt100.py       FG_ANSI_COLORS, BG_ANSI_COLORS, ANSI_COLORS_TO_RGB (dict order), _256_colors.colors
  formatted_text/ansi.py  _fg_colors, _bg_colors, _256_colors   (the decoder's tables)
"""
from __future__ import annotations

import gen_tables as G


def ltext(s: str) -> str:
    out = []
    for c in s:
        if 33 <= ord(c) < 127 and c not in "'\\":
            out.append(f"'{c}'")
        else:
            out.append(f"Char.ofNat {ord(c)}")
    return "[" + ", ".join(out) + "]"


def lrgb(t) -> str:
    r, g, b = t
    return f"({int(r)}, {int(g)}, {int(b)})"


def lopt_text(v) -> str:
    return "none" if v is None else f"some {ltext(v)}"


def lopt_bool(v) -> str:
    return "none" if v is None else ("some true" if v else "some false")


def lattrs(a) -> str:
    return ("{ color := %s, bgcolor := %s, bold := %s, underline := %s, strike := %s, italic := %s, "
            "blink := %s, reverse := %s, hidden := %s }") % (
        lopt_text(a.color), lopt_text(a.bgcolor), lopt_bool(a.bold), lopt_bool(a.underline),
        lopt_bool(a.strike), lopt_bool(a.italic), lopt_bool(a.blink), lopt_bool(a.reverse),
        lopt_bool(a.hidden))


def llist(items, per_line=4) -> str:
    items = list(items)
    if not items:
        return "[]"
    rows = [", ".join(items[i:i + per_line]) for i in range(0, len(items), per_line)]
    return "[\n  " + ",\n  ".join(rows) + "]"


def generate() -> None:
    """never raises (other properties' checks import this plug-in too): if the tables cannot be
    extracted, a Gen file that does not compile is written, so that only the C19 build fails."""
    try:
        _generate()
    except Exception as e:  # noqa: BLE001
        msg = (type(e).__name__ + ": " + str(e)).replace("\n", " ")[:300]
        G.write("C19.lean", "import Ptk.Model.C19Types\n-- table extraction from the current tree FAILED: "
                + msg + "\nexample : False := by decide\n")
    try:
        _generate_x()
    except Exception as e:  # noqa: BLE001
        msg = (type(e).__name__ + ": " + str(e)).replace("\n", " ")[:300]
        # a file that COMPILES with empty tables (the driver must build so that the correspondence still
        # runs); every pin / *_follows_ast theorem of Props/C19Pins.lean fails on it
        names = {"attrsFields": "List Text", "noinheritWord": "Text", "parseInit": "List Text",
                 "parseChain": "List PBranch", "mergeDefaults": "List (Text × Text × Text)",
                 "unpackOrder": "List Text", "encFlags": "List (Text × Nat)", "decShape": "List Text",
                 "decFlags": "List (Nat × Text × Bool)", "decReset": "List (Text × Text)",
                 "styleColours": "List (Text × Text)", "styleFlagWords": "List (Text × Text)",
                 "classNamesRe": "Text", "priorities": "List (Text × Text)", "defaultPriority": "Text",
                 "opposite": "List (Text × Text)", "uiSheets": "List (List (Text × Text))",
                 "pygRules": "List (Text × Text)"}
        b = ("import Ptk.Model.C19Transform\nimport Ptk.Model.C19Kw\nnamespace Ptk.Gen.C19X\nopen Ptk.C19\n"
             "-- AST / table extraction from the current tree FAILED: " + msg + "\n")
        for n, t in names.items():
            b += f"def {n} : {t} := []\n"
        b += ("def encFlagsOk : Bool := false\ndef styleStringOk : Bool := false\ndef adjustSkipsDefault : Bool := false\n"
              "def trTables : TrTables := { opposite := opposite, adjustSkipsDefault := adjustSkipsDefault }\n"
              "end Ptk.Gen.C19X\n")
        G.write("C19X.lean", b)


def _generate() -> None:
    from prompt_toolkit.styles import base as sbase
    from prompt_toolkit.styles import style as sstyle
    from prompt_toolkit.output import vt100
    from prompt_toolkit.formatted_text import ansi

    b = "import Ptk.Model.C19Types\nnamespace Ptk.Gen.C19\nopen Ptk.C19\n\n"
    b += "/-- styles/base.py ANSI_COLOR_NAMES (list order) -/\n"
    b += "def ansiNames : List Text := " + llist(ltext(n) for n in sbase.ANSI_COLOR_NAMES) + "\n\n"
    b += "/-- styles/base.py ANSI_COLOR_NAMES_ALIASES (dict order) -/\n"
    b += "def aliases : List (Text × Text) := " + llist(
        (f"({ltext(k)}, {ltext(v)})" for k, v in sbase.ANSI_COLOR_NAMES_ALIASES.items()), 2) + "\n\n"
    b += "/-- styles/style.py _named_colors_lowercase (dict order) -/\n"
    b += "def named : List (Text × Text) := " + llist(
        (f"({ltext(k)}, {ltext(v)})" for k, v in sstyle._named_colors_lowercase.items()), 2) + "\n\n"
    b += "/-- output/vt100.py FG_ANSI_COLORS -/\n"
    b += "def fg : List (Text × Nat) := " + llist(
        (f"({ltext(k)}, {int(v)})" for k, v in vt100.FG_ANSI_COLORS.items()), 2) + "\n\n"
    b += "/-- output/vt100.py BG_ANSI_COLORS -/\n"
    b += "def bg : List (Text × Nat) := " + llist(
        (f"({ltext(k)}, {int(v)})" for k, v in vt100.BG_ANSI_COLORS.items()), 2) + "\n\n"
    b += "/-- output/vt100.py ANSI_COLORS_TO_RGB in dict iteration order -/\n"
    b += "def ansiRgb : List (Text × RGB) := " + llist(
        (f"({ltext(k)}, {lrgb(v)})" for k, v in vt100.ANSI_COLORS_TO_RGB.items()), 2) + "\n\n"
    b += "/-- output/vt100.py _256_colors.colors -/\n"
    b += "def pal256 : List RGB := " + llist((lrgb(c) for c in vt100._256_colors.colors), 8) + "\n\n"
    b += "/-- formatted_text/ansi.py _fg_colors (SGR code -> name) -/\n"
    b += "def decFg : List (Nat × Text) := " + llist(
        (f"({int(k)}, {ltext(v)})" for k, v in ansi._fg_colors.items()), 3) + "\n\n"
    b += "/-- formatted_text/ansi.py _bg_colors (SGR code -> name) -/\n"
    b += "def decBg : List (Nat × Text) := " + llist(
        (f"({int(k)}, {ltext(v)})" for k, v in ansi._bg_colors.items()), 3) + "\n\n"
    b += "/-- formatted_text/ansi.py _256_colors (index -> '#rrggbb') -/\n"
    b += "def dec256 : List (Nat × Text) := " + llist(
        (f"({int(k)}, {ltext(v)})" for k, v in ansi._256_colors.items()), 3) + "\n\n"
    b += "/-- styles/base.py DEFAULT_ATTRS -/\n"
    b += "def defaultAttrs : Attrs := " + lattrs(sbase.DEFAULT_ATTRS) + "\n\n"
    b += "/-- styles/style.py _EMPTY_ATTRS -/\n"
    b += "def emptyAttrs : Attrs := " + lattrs(sstyle._EMPTY_ATTRS) + "\n\n"
    # behaviour probe: is the text after '#' validated as hexadecimal?
    def rejects(t):
        try:
            sstyle.parse_color(t)
            return False
        except ValueError:
            return True
    validated = rejects("#zzzzzz") and rejects("#zzz") and rejects("#+12345") and rejects("#0x1234")
    b += "/-- probe of styles/style.py parse_color: '#zzzzzz', '#zzz', '#+12345', '#0x1234' raise ValueError -/\n"
    b += "def hexValidated : Bool := " + ("true" if validated else "false") + "\n\n"
    b += ("def tables : Tables :=\n  { ansiNames := ansiNames, aliases := aliases, named := named, fg := fg, bg := bg,\n"
          "    ansiRgb := ansiRgb, pal256 := pal256, decFg := decFg, decBg := decBg, dec256 := dec256,\n"
          "    defaultAttrs := defaultAttrs, emptyAttrs := emptyAttrs, hexValidated := hexValidated }\n")
    b += "\nend Ptk.Gen.C19\n"
    G.write("C19.lean", b.replace("-- GENERATED by harness/gen_tables.py", "-- GENERATED by harness/gen_c19.py"))


# ---------------------------------------------------------------------------------------------
# Gen/C19X.lean: if/elif chains of the anchored functions extracted from their AST, the tables of
# style_transformation.py / defaults.py, behaviour probes
# ---------------------------------------------------------------------------------------------
def _func_ast(fn):
    import ast
    import inspect
    import textwrap
    return ast.parse(textwrap.dedent(inspect.getsource(fn))).body[0]


def _is_name(n, name):
    import ast
    return isinstance(n, ast.Name) and n.id == name


def _const(n, typ):
    import ast
    return isinstance(n, ast.Constant) and type(n.value) is typ


def _call_method(n, obj, meth):
    """n is `obj.meth("lit")` -> the literal, else None"""
    import ast
    if (isinstance(n, ast.Call) and isinstance(n.func, ast.Attribute) and n.func.attr == meth
            and _is_name(n.func.value, obj) and len(n.args) == 1 and _const(n.args[0], str) and not n.keywords):
        return n.args[0].value
    return None


def _ptest(t) -> str:
    import ast
    if isinstance(t, ast.Compare) and _is_name(t.left, "part") and len(t.ops) == 1:
        c = t.comparators[0]
        if isinstance(t.ops[0], ast.Eq) and _const(c, str):
            return f".eq {ltext(c.value)}"
        if isinstance(t.ops[0], ast.In) and isinstance(c, ast.Tuple) and all(_const(e, str) for e in c.elts):
            return ".isIn [" + ", ".join(ltext(e.value) for e in c.elts) + "]"
    p = _call_method(t, "part", "startswith")
    if p is not None:
        return f".pfx {ltext(p)}"
    if isinstance(t, ast.BoolOp) and isinstance(t.op, ast.And) and len(t.values) == 2:
        p = _call_method(t.values[0], "part", "startswith")
        q = _call_method(t.values[1], "part", "endswith")
        if p is not None and q is not None:
            return f".pfxSfx {ltext(p)} {ltext(q)}"
    return ".unknown"


def _pact(body) -> str:
    import ast
    if len(body) == 1 and isinstance(body[0], ast.Pass):
        return ".pass"
    if len(body) == 1 and isinstance(body[0], ast.Assign) and len(body[0].targets) == 1 \
            and _is_name(body[0].targets[0], "attrs"):
        v = body[0].value
        if (isinstance(v, ast.Call) and isinstance(v.func, ast.Attribute) and v.func.attr == "_replace"
                and _is_name(v.func.value, "attrs") and not v.args and len(v.keywords) == 1):
            kw = v.keywords[0]
            if _const(kw.value, bool):
                return f".setFlag {ltext(kw.arg)} {'true' if kw.value.value else 'false'}"
            c = kw.value
            if isinstance(c, ast.Call) and _is_name(c.func, "parse_color") and len(c.args) == 1 and not c.keywords:
                a = c.args[0]
                if _is_name(a, "part"):
                    return f".setColor {ltext(kw.arg)} 0"
                if (isinstance(a, ast.Subscript) and _is_name(a.value, "part") and isinstance(a.slice, ast.Slice)
                        and a.slice.upper is None and a.slice.step is None and _const(a.slice.lower, int)):
                    return f".setColor {ltext(kw.arg)} {a.slice.lower.value}"
    return ".unknown"


def _if_chain(node):
    """[(test | None, body)] of an if / elif / else chain"""
    import ast
    out = []
    while True:
        out.append((node.test, node.body))
        if len(node.orelse) == 1 and isinstance(node.orelse[0], ast.If):
            node = node.orelse[0]
            continue
        if node.orelse:
            out.append((None, node.orelse))
        return out


def _generate_x() -> None:
    import ast
    from prompt_toolkit.styles import base as sbase
    from prompt_toolkit.styles import style as sstyle
    from prompt_toolkit.styles import style_transformation as strans
    from prompt_toolkit.styles import defaults as sdef
    from prompt_toolkit.output import vt100
    from prompt_toolkit.formatted_text import ansi

    b = "import Ptk.Model.C19Transform\nimport Ptk.Model.C19Kw\nnamespace Ptk.Gen.C19X\nopen Ptk.C19\n\n"
    b += "/-- styles/base.py Attrs._fields -/\n"
    b += "def attrsFields : List Text := " + llist(ltext(f) for f in sbase.Attrs._fields) + "\n\n"

    # ---- _parse_style_str
    fn = _func_ast(sstyle._parse_style_str)
    # (every piece that is not found is printed as a placeholder: the Gen file must still compile, so that
    #  the DRIVER builds and the correspondence runs; the pins / *_follows_ast theorems then fail)
    first_if = next((n for n in fn.body if isinstance(n, ast.If)), None)
    word = ""
    init = []
    if first_if is not None:
        t = first_if.test
        if isinstance(t, ast.Compare) and isinstance(t.ops[0], ast.In) and _const(t.left, str) \
                and _is_name(t.comparators[0], "style_str"):
            word = t.left.value
        for body in (first_if.body, first_if.orelse):
            if len(body) == 1 and isinstance(body[0], ast.Assign) and _is_name(body[0].targets[0], "attrs") \
                    and isinstance(body[0].value, ast.Name):
                init.append(body[0].value.id)
            else:
                init.append("?")
    else:
        init = ["no `if ... in style_str` before the loop"]
    b += "/-- styles/style.py _parse_style_str: the literal of `if \"…\" in style_str` and what `attrs` starts as -/\n"
    b += "def noinheritWord : Text := " + ltext(word) + "\n"
    b += "def parseInit : List Text := " + llist(ltext(x) for x in init) + "\n\n"
    loop = next((n for n in fn.body if isinstance(n, ast.For)), None)
    ok_loop = (loop is not None and _is_name(loop.target, "part") and isinstance(loop.iter, ast.Call)
               and isinstance(loop.iter.func, ast.Attribute) and loop.iter.func.attr == "split"
               and _is_name(loop.iter.func.value, "style_str") and not loop.iter.args
               and len(loop.body) == 1 and isinstance(loop.body[0], ast.If))
    branches = []
    if ok_loop:
        for test, body in _if_chain(loop.body[0]):
            branches.append("{ test := %s, act := %s }" % (".otherwise" if test is None else _ptest(test), _pact(body)))
    else:
        branches.append("{ test := .unknown, act := .unknown }")
    b += "/-- styles/style.py _parse_style_str: the if/elif chain of `for part in style_str.split()` -/\n"
    b += "def parseChain : List PBranch := " + llist(branches, 1) + "\n\n"

    # ---- _merge_attrs
    fn = _func_ast(sstyle._merge_attrs)
    ret = next((n for n in fn.body if isinstance(n, ast.Return)), None)
    md = []
    if ret is not None and isinstance(ret.value, ast.Call) and _is_name(ret.value.func, "Attrs"):
        for kw in ret.value.keywords:
            v = kw.value
            if (isinstance(v, ast.Call) and _is_name(v.func, "_or") and len(v.args) == 2
                    and isinstance(v.args[0], ast.Constant) and isinstance(v.args[1], ast.Starred)
                    and isinstance(v.args[1].value, ast.ListComp)
                    and isinstance(v.args[1].value.elt, ast.Attribute)):
                md.append((kw.arg, repr(v.args[0].value), v.args[1].value.elt.attr))
            else:
                md.append((kw.arg, "?", "?"))
    b += "/-- styles/style.py _merge_attrs: (field, fallback literal, attribute collected) per keyword of `Attrs(...)` -/\n"
    b += "def mergeDefaults : List (Text × Text × Text) := " + llist(
        (f"({ltext(f)}, {ltext(d)}, {ltext(a)})" for f, d, a in md), 2) + "\n\n"

    # ---- _EscapeCodeCache.__missing__
    fn = _func_ast(vt100._EscapeCodeCache.__missing__)
    unpack = []
    enc = []
    enc_ok = True
    for n in fn.body:
        if isinstance(n, ast.Assign) and isinstance(n.targets[0], ast.Tuple) and _is_name(n.value, "attrs"):
            unpack = [e.id for e in n.targets[0].elts]
        if isinstance(n, ast.If):
            if isinstance(n.test, ast.Name) and n.test.id != "parts":
                body = n.body
                if (len(body) == 1 and isinstance(body[0], ast.Expr) and not n.orelse
                        and _call_method(body[0].value, "parts", "append") is not None
                        and _call_method(body[0].value, "parts", "append").isdigit()):
                    enc.append((n.test.id, int(_call_method(body[0].value, "parts", "append"))))
                else:
                    enc_ok = False
    b += "/-- output/vt100.py _EscapeCodeCache.__missing__: names of the tuple unpacking of `attrs` -/\n"
    b += "def unpackOrder : List Text := " + llist(ltext(x) for x in unpack) + "\n"
    b += "/-- … and the `if <flag>: parts.append(\"<code>\")` statements in source order -/\n"
    b += "def encFlags : List (Text × Nat) := " + llist((f"({ltext(f)}, {c})" for f, c in enc), 4) + "\n"
    b += "def encFlagsOk : Bool := " + ("true" if enc_ok else "false") + "\n\n"

    # ---- ANSI._select_graphic_rendition
    fn = _func_ast(ansi.ANSI._select_graphic_rendition)
    loop = next((n for n in fn.body if isinstance(n, ast.While)), None)
    chain_if = next((n for n in (loop.body if loop is not None else []) if isinstance(n, ast.If)), None)
    shape, dec, reset = [], [], []

    def self_assigns(body):
        out = []
        for st in body:
            if (isinstance(st, ast.Assign) and len(st.targets) == 1 and isinstance(st.targets[0], ast.Attribute)
                    and _is_name(st.targets[0].value, "self") and isinstance(st.value, ast.Constant)):
                out.append((st.targets[0].attr.lstrip("_"), st.value.value))
            else:
                return None
        return out

    for test, body in (_if_chain(chain_if) if chain_if is not None else []):
        if test is None:
            shape.append("else")
        elif isinstance(test, ast.Compare) and _is_name(test.left, "attr") and isinstance(test.ops[0], ast.In) \
                and isinstance(test.comparators[0], ast.Name):
            shape.append("in " + test.comparators[0].id)
        elif isinstance(test, ast.Compare) and _is_name(test.left, "attr") and isinstance(test.ops[0], ast.Eq) \
                and _const(test.comparators[0], int):
            sa = self_assigns(body)
            if sa is not None and len(sa) == 1 and type(sa[0][1]) is bool:
                dec.append((test.comparators[0].value, sa[0][0], sa[0][1]))
                shape.append("flag")
            else:
                shape.append("?")
        elif isinstance(test, ast.UnaryOp) and isinstance(test.op, ast.Not) and _is_name(test.operand, "attr"):
            sa = self_assigns(body)
            reset = sa if sa is not None else [("?", None)]
            shape.append("reset")
        elif isinstance(test, ast.BoolOp):
            shape.append("extended")
        else:
            shape.append("?")
    b += "/-- formatted_text/ansi.py ANSI._select_graphic_rendition: kinds of the branches in source order -/\n"
    b += "def decShape : List Text := " + llist((ltext(x) for x in shape), 6) + "\n"
    b += "/-- … the `elif attr == k: self._field = v` branches -/\n"
    b += "def decFlags : List (Nat × Text × Bool) := " + llist(
        (f"({k}, {ltext(f)}, {'true' if v else 'false'})" for k, f, v in dec), 3) + "\n"
    b += "/-- … the fields assigned by the reset branch (`elif not attr:`) with the literal assigned -/\n"
    b += "def decReset : List (Text × Text) := " + llist(
        (f"({ltext(f)}, {ltext(repr(v))})" for f, v in reset), 3) + "\n\n"

    # ---- ANSI._create_style_string
    fn = _func_ast(ansi.ANSI._create_style_string)
    words, colours = [], []
    css_ok = True
    for n in fn.body:
        if isinstance(n, ast.If):
            if (isinstance(n.test, ast.Attribute) and _is_name(n.test.value, "self") and len(n.body) == 1
                    and isinstance(n.body[0], ast.Expr) and isinstance(n.body[0].value, ast.Call)
                    and isinstance(n.body[0].value.func, ast.Attribute) and n.body[0].value.func.attr == "append"
                    and len(n.body[0].value.args) == 1 and not n.orelse):
                f = n.test.attr.lstrip("_")
                a = n.body[0].value.args[0]
                if _const(a, str):
                    words.append((f, a.value))
                elif isinstance(a, ast.Attribute) and a.attr == n.test.attr:
                    colours.append((f, ""))
                elif isinstance(a, ast.BinOp) and isinstance(a.op, ast.Add) and _const(a.left, str) \
                        and isinstance(a.right, ast.Attribute) and a.right.attr == n.test.attr:
                    colours.append((f, a.left.value))
                else:
                    css_ok = False
            else:
                css_ok = False
    b += "/-- formatted_text/ansi.py ANSI._create_style_string: colour fields with their prefix, then flag words -/\n"
    b += "def styleColours : List (Text × Text) := " + llist((f"({ltext(f)}, {ltext(w)})" for f, w in colours), 4) + "\n"
    b += "def styleFlagWords : List (Text × Text) := " + llist((f"({ltext(f)}, {ltext(w)})" for f, w in words), 4) + "\n"
    b += "def styleStringOk : Bool := " + ("true" if css_ok else "false") + "\n\n"

    # ---- patterns / constants
    b += "/-- styles/style.py CLASS_NAMES_RE.pattern -/\n"
    b += "def classNamesRe : Text := " + ltext(sstyle.CLASS_NAMES_RE.pattern) + "\n"
    b += "/-- styles/style.py Priority members (name, value) and the default priority -/\n"
    b += "def priorities : List (Text × Text) := " + llist(
        (f"({ltext(p.name)}, {ltext(str(p.value))})" for p in sstyle.Priority), 2) + "\n"
    b += "def defaultPriority : Text := " + ltext(sstyle.default_priority.name) + "\n\n"

    # ---- style_transformation.py
    b += "/-- styles/style_transformation.py OPPOSITE_ANSI_COLOR_NAMES (dict order) -/\n"
    b += "def opposite : List (Text × Text) := " + llist(
        (f"({ltext(k)}, {ltext(v)})" for k, v in strans.OPPOSITE_ANSI_COLOR_NAMES.items()), 2) + "\n"
    try:
        strans.AdjustBrightnessStyleTransformation(min_brightness=0.3).transform_attrs(
            sbase.DEFAULT_ATTRS._replace(color="default"))
        skips = True
    except ValueError:
        skips = False
    b += "/-- probe: AdjustBrightnessStyleTransformation(0.3).transform_attrs(color='default') does not raise -/\n"
    b += "def adjustSkipsDefault : Bool := " + ("true" if skips else "false") + "\n"
    b += "def trTables : TrTables := { opposite := opposite, adjustSkipsDefault := adjustSkipsDefault }\n\n"

    # ---- defaults.py: the style stack of an Application
    ui = sdef.default_ui_style()
    sheets = [list(s.style_rules) for s in ui.styles]
    b += "/-- styles/defaults.py default_ui_style(): the rule lists of the merged Style objects, in order -/\n"
    b += "def uiSheets : List (List (Text × Text)) := " + llist(
        (llist((f"({ltext(k)}, {ltext(v)})" for k, v in sh), 2) for sh in sheets), 1) + "\n\n"
    b += "/-- styles/defaults.py default_pygments_style().style_rules -/\n"
    b += "def pygRules : List (Text × Text) := " + llist(
        (f"({ltext(k)}, {ltext(v)})" for k, v in sdef.default_pygments_style().style_rules), 2) + "\n\n"
    b += "end Ptk.Gen.C19X\n"
    G.write("C19X.lean", b.replace("-- GENERATED by harness/gen_tables.py", "-- GENERATED by harness/gen_c19.py"))


if __name__ == "__main__":
    generate()
