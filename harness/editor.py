"""
Driving the real line editor key by key, without a terminal and without blocking:
a PromptSession's Application is created on a pipe input / DummyOutput, made the current app,
and KeyPress objects are fed straight into `app.key_processor` inside a running asyncio loop
(timeouts are injected explicitly as flushes, `timeoutlen = None`).
"""
from __future__ import annotations

import asyncio
import contextlib

from prompt_toolkit import PromptSession
from prompt_toolkit.application.current import set_app
from prompt_toolkit.clipboard import InMemoryClipboard
from prompt_toolkit.document import Document
from prompt_toolkit.enums import EditingMode
from prompt_toolkit.history import InMemoryHistory
from prompt_toolkit.input import DummyInput
from prompt_toolkit.input.vt100_parser import Vt100Parser
from prompt_toolkit.key_binding.key_processor import KeyPress
from prompt_toolkit.keys import Keys
from prompt_toolkit.output import DummyOutput


def parse_keys(data: str) -> list[KeyPress]:
    """terminal bytes -> KeyPress list (through the real VT100 parser, flushed)"""
    out: list[KeyPress] = []
    p = Vt100Parser(out.append)
    p.feed(data)
    p.flush()
    return out


class Editor:
    """One prompt session that can be fed keys step by step (use inside `with editor(...)`)."""

    def __init__(self, text="", cursor=None, vi=False, multiline=False, history=(), read_only=False,
                 clipboard=None, **kw):
        self.session = PromptSession(
            input=DummyInput(), output=DummyOutput(),
            editing_mode=EditingMode.VI if vi else EditingMode.EMACS,
            multiline=multiline, history=InMemoryHistory(list(history)),
            clipboard=clipboard or InMemoryClipboard(), **kw)
        self.app = self.session.app
        self.app.timeoutlen = None
        self.app.ttimeoutlen = None
        self.buffer = self.session.default_buffer
        self.buffer.reset(Document(text, len(text) if cursor is None else cursor))
        if read_only:
            self.buffer.read_only = lambda: True  # type: ignore
        self.result = None
        self.exc = None
        self.done = False
        # make app.exit() observable without a running `run_async`
        self.app.future = None

    def feed(self, keys) -> None:
        """feed KeyPress list / raw terminal string; process synchronously"""
        if isinstance(keys, str):
            keys = parse_keys(keys)
        kp = self.app.key_processor
        for k in keys:
            if self.done:
                break
            kp.feed(k)
            kp.process_keys()

    def flush(self):
        from prompt_toolkit.key_binding.key_processor import _Flush
        kp = self.app.key_processor
        kp.feed(_Flush)
        kp.process_keys()


@contextlib.contextmanager
def editor(**kw):
    """context manager giving an Editor inside a fresh event loop with the app set current."""
    loop = asyncio.new_event_loop()
    try:
        asyncio.set_event_loop(loop)

        async def mk():
            return Editor(**kw)

        ed = loop.run_until_complete(mk())
        fut = loop.create_future()
        ed.app.future = fut

        def _done(f):
            ed.done = True
            try:
                ed.result = f.result()
            except BaseException as e:  # noqa
                ed.exc = e

        fut.add_done_callback(_done)
        ed.app._is_running = True
        with set_app(ed.app):
            ed._loop = loop
            # run callbacks inside the loop context
            orig_feed = ed.feed

            def feed_in_loop(keys):
                async def go():
                    orig_feed(keys)
                    await asyncio.sleep(0)
                loop.run_until_complete(go())

            ed.feed = feed_in_loop  # type: ignore
            orig_flush = ed.flush

            def flush_in_loop():
                async def go():
                    orig_flush()
                    await asyncio.sleep(0)
                loop.run_until_complete(go())

            ed.flush = flush_in_loop  # type: ignore
            yield ed
    finally:
        try:
            pending = asyncio.all_tasks(loop)
            for t in pending:
                t.cancel()
            if pending:
                loop.run_until_complete(asyncio.gather(*pending, return_exceptions=True))
        except Exception:
            pass
        loop.close()
        asyncio.set_event_loop(None)


def run_keys(keys: str, text="", cursor=None, **kw):
    """feed a raw key string; return dict with the observable state"""
    with editor(text=text, cursor=cursor, **kw) as ed:
        ed.feed(keys)
        return snapshot(ed)


def snapshot(ed: Editor) -> dict:
    b = ed.buffer
    cd = ed.app.clipboard.get_data()
    return {
        "text": b.text, "cursor": b.cursor_position,
        "clip": cd.text, "clip_type": cd.type.name,
        "regs": {k: (v.text, v.type.name) for k, v in sorted(ed.app.vi_state.named_registers.items())},
        "mode": str(ed.app.vi_state.input_mode), "done": ed.done, "result": ed.result,
        "sel": None if b.selection_state is None else (b.selection_state.original_cursor_position, b.selection_state.type.name),
    }
