#!/venv/bin/python
"""C18 — formatted-text conversions: correspondence with Ptk.Model.C18 (+C18Html) and the property oracle."""
from __future__ import annotations

import itertools
import os
import re
import sys

sys.path.insert(0, os.path.dirname(os.path.abspath(__file__)))
import core
from core import enc_str

from prompt_toolkit.formatted_text import ANSI, HTML, FormattedText, Template, merge_formatted_text, \
    to_formatted_text, to_plain_text
from prompt_toolkit.formatted_text.ansi import ansi_escape
from prompt_toolkit.formatted_text.html import html_escape
from prompt_toolkit.formatted_text.utils import fragment_list_len, fragment_list_to_text, \
    fragment_list_width, split_lines
from prompt_toolkit.layout.utils import explode_text_fragments

ID = "C18"
DRIVER = "drv_c18"
PROPS = ["Ptk.Props.C18Frag", "Ptk.Props.C18", "Ptk.Props.C18Tok", "Ptk.Props.C18Html"]
TECHNIQUE = "Lean 4 proof over hand-written executable model + differential correspondence with the real code"
LEVEL_TEXT = ("Lean 4 theorems over an executable model of the formatted-text layer: the ANSI parser as an explicit "
              "state machine proved equal to the interpretation of a token grammar of its input (so the visible text "
              "is the input minus recognised control sequences, in order; plain strings are reproduced verbatim; the "
              "parameter buffer only ever holds ASCII digits), interpolation inertness for ANSI.format / % templates "
              "with any number of holes at ground state (escaped values are spliced in with the surrounding style, "
              "parser state unchanged), the same for HTML on a modelled XML sub-grammar (tokenizer + process_node "
              "walk: an escaped value in text position yields exactly its own characters in the enclosing style), "
              "html_escape / ansi_escape metacharacter freedom and round trip, split_lines = cut at newlines with "
              "every character's style kept and join identity, explode / fragment_list_* / Template / merge laws; "
              "tied to /repo on every run by generated SGR tables, a differential correspondence (exhaustive small "
              "scope + random) and a model-independent property oracle on the real code")
LEVEL_NOTE = ("trusted: Lean kernel, axioms propext/Classical.choice/Quot.sound only; the hand-written model "
              "(validated by the correspondence, not proved equal to the Python); CPython str/format/% semantics; "
              "HTML is partial: xml.dom.minidom/expat is modelled on a small sub-grammar only (sampled against the "
              "real parser, not verified)")
RULE = ("exhaustive: every ANSI input over an 11-symbol alphabet (ESC, 8-bit CSI, '[', digit, ';', 'm', 'C', "
        "SOH, STX, letter, superscript two) up to the tier's length; every SGR code 0..110 and the 38/48 "
        "extended forms incl. truncated ones; every markup string over a 12-symbol XML alphabet up to the tier's "
        "length; every template from fixed pools (holes at ground, inside a CSI, inside / right after a zero-width "
        "block; HTML holes in text, in single- and double-quoted attributes, as tag name) x every value over "
        "16-symbol alphabets (printable, markup metacharacters, both quotes, CR/LF, ESC, NUL, CSI 7/8-bit, "
        "zero-width markers, BS, format-spec characters) up to the tier's length via format() and %; every "
        "fragment list up to 3 fragments over 4 styles x texts up to length 3 over {a, newline, wide}; then "
        "seeded random larger cases (random ANSI streams, random well-formed and damaged markup, random "
        "templates/values/specs, fragment lists with handlers, to_formatted_text/Template/merge trees). A case "
        "is non-trivial when some op has a control or markup character, a hole, a newline or more than one "
        "fragment")
EXHAUSTIVE = True
EXHAUSTIVE_SCOPE = {
    "quick": "ANSI strings len<=4 over 11 symbols; markup strings len<=4 over 12 symbols; values len<=2 over 16 "
             "symbols x template pools; fragment lists <=2 frags, texts len<=3",
    "thorough": "ANSI strings len<=5 over 11 symbols (+len 6 over 7 symbols); markup strings len<=5 over 12 "
                "symbols; values len<=3 over 16 symbols x template pools; fragment lists <=3 frags, texts len<=3"}
TRUSTED = ["harness/c18.py compares fragment lists (style, text, handler id) / strings / error class per op",
           "Ptk/Model/C18.lean, C18Html.lean are hand translations of formatted_text/{ansi,html,base,utils}.py and "
           "layout/utils.py (correspondence-checked)",
           "harness/gen_c18.py prints _fg_colors/_bg_colors/_256_colors and the wcwidth of the test characters; "
           "the side condition tablesOK (no '[' in a colour name) is re-decided by the kernel on every run"]
ASSUMPTIONS = ["CPython str.format / Formatter.vformat / % semantics on the modelled sub-grammar "
               "(literal, {{, }}, {[n][:[[fill]align][width][.prec][s]]}; %%, %[-][width][.prec]s)",
               "wcwidth is a parameter of fragment_list_width (table of the test characters regenerated per run)",
               "xml.dom.minidom/expat on the modelled sub-grammar (elements, quoted attributes, the five predefined "
               "entities, numeric character references, line-end and attribute-value normalisation, ban of ]]> and "
               "of characters outside the XML Char production; adjacent character data forms one text node)",
               "values are str (str(value) / format(value, spec) of other types is CPython's)"]
PARTIAL_SCOPE = ["HTML: minidom/expat is modelled on a sub-grammar only (no comments, CDATA, processing "
                 "instructions, DOCTYPE, namespaces, non-ASCII names); the theorems are about that model",
                 "interpolation inertness is claimed (and proved) for holes at parser ground state only: a hole "
                 "inside a template control sequence (e.g. ESC[{}m), right after a zero-width block, or inside an "
                 "HTML tag / attribute is template-controlled, not inert",
                 "known findings (status known): HTML.__mod__ applies %-width/precision to the escaped text; a value "
                 "ending in ] followed by a literal > forms ]]>; a literal CR directly before a hole merges with a "
                 "leading LF of the value",
                 "format(): conversions (!r), nested fields, keyword fields and non-str values are not modelled",
                 "_ExplodedList mutation methods (append/extend/__setitem__) are not modelled"]

ESC, CSI8, SOH, STX, BS = "\x1b", "\x9b", "\x01", "\x02", "\x08"


# ------------------------------------------------------------------ handlers (opaque ids)
def _mk_handler(i):
    def h(mouse_event):
        return NotImplemented
    h.hid = i
    return h


HANDLERS = [_mk_handler(i) for i in range(4)]


def to_real_frags(frags):
    out = []
    for st, tx, h in frags:
        out.append((st, tx) if h is None else (st, tx, HANDLERS[h]))
    return out


def from_real_frags(frags):
    out = []
    for item in frags:
        if len(item) == 2:
            out.append([item[0], item[1], None])
        else:
            out.append([item[0], item[1], item[2].hid])
    return out


def enc_frag(f):
    return f"{enc_str(f[0])} {enc_str(f[1])} " + ("N" if f[2] is None else str(f[2]))


def enc_frags(frags):
    return " ".join([str(len(frags))] + [enc_frag(f) for f in frags])


def enc_any(v):
    d, kind, payload = v
    if kind == "none":
        return f"{d} none"
    if kind in ("str", "ansi", "html"):
        return f"{d} {kind} {enc_str(payload)}"
    return f"{d} {kind} {enc_frags(payload)}"


def real_any(v):
    d, kind, payload = v
    if kind == "none":
        val = None
    elif kind == "str":
        val = payload
    elif kind == "list":
        val = to_real_frags(payload)
    elif kind == "ft":
        val = FormattedText(to_real_frags(payload))
    elif kind == "ansi":
        val = ANSI(payload)
    elif kind == "html":
        val = HTML(payload)
    else:
        raise ValueError(kind)
    for _ in range(d):
        val = (lambda x: (lambda: x))(val)
    return val


# ------------------------------------------------------------------ templates
# a template is a list of items: ["lit", text] | ["hole", idx|None, spec] ; spec is the raw spec text
# (format: after ':' ; percent: between '%' and 's')
def render_format_template(items):
    out = []
    for it in items:
        if it[0] == "lit":
            out.append(it[1].replace("{", "{{").replace("}", "}}"))
        else:
            idx = "" if it[1] is None else str(it[1])
            out.append("{" + idx + (":" + it[2] if it[2] is not None else "") + "}")
    return "".join(out)


def render_percent_template(items):
    out = []
    for it in items:
        if it[0] == "lit":
            out.append(it[1].replace("%", "%%"))
        else:
            out.append("%" + (it[2] or "") + "s")
    return "".join(out)


def op_template(op):
    """the raw template string of a format / % op"""
    k = op[0]
    if k in ("afmt", "hfmt"):
        return render_format_template(op[1])
    if k in ("amod", "amod1", "hmod", "hmod1"):
        return render_percent_template(op[1])
    raise ValueError(k)


# ------------------------------------------------------------------ protocol
def op_line(op):
    k = op[0]
    if k in ("ansi", "aesc", "hesc", "html"):
        return f"{k} {enc_str(op[1])}"
    if k in ("afmt", "amod", "hfmt", "hmod"):
        return f"{k} {enc_str(op_template(op))} " + " ".join([str(len(op[2]))] + [enc_str(v) for v in op[2]])
    if k in ("amod1", "hmod1"):
        return f"{k[:-1]} {enc_str(op_template(op))} 1 {enc_str(op[2])}"
    if k in ("split", "explode", "text", "len", "width"):
        return f"{k} {enc_frags(op[1])}"
    if k == "tft":
        return f"tft {enc_str(op[1])} {enc_any(op[2])}"
    if k == "plain":
        return f"plain {enc_any(op[1])}"
    if k == "templ":
        return f"templ {enc_str(op[1])} " + " ".join([str(len(op[2]))] + [enc_any(v) for v in op[2]])
    if k == "merge":
        return "merge " + " ".join([str(len(op[1]))] + [enc_any(v) for v in op[1]])
    raise ValueError(op)


def model_lines(case):
    return [op_line(op) for op in case["ops"]]


ERR_NAMES = {"IndexError", "ValueError", "TypeError", "AssertionError"}


def run_op(op):
    """run one op on the real code; returns a python value (frags list / str / int / lines)"""
    k = op[0]
    if k == "ansi":
        return from_real_frags(to_formatted_text(ANSI(op[1])))
    if k == "html":
        return from_real_frags(to_formatted_text(HTML(op[1])))
    if k == "aesc":
        return ansi_escape(op[1])
    if k == "hesc":
        return html_escape(op[1])
    if k == "afmt":
        return from_real_frags(to_formatted_text(ANSI(op_template(op)).format(*op[2])))
    if k == "amod":
        return from_real_frags(to_formatted_text(ANSI(op_template(op)) % tuple(op[2])))
    if k == "amod1":
        return from_real_frags(to_formatted_text(ANSI(op_template(op)) % op[2]))
    if k == "hfmt":
        return from_real_frags(to_formatted_text(HTML(op_template(op)).format(*op[2])))
    if k == "hmod":
        return from_real_frags(to_formatted_text(HTML(op_template(op)) % tuple(op[2])))
    if k == "hmod1":
        return from_real_frags(to_formatted_text(HTML(op_template(op)) % op[2]))
    if k == "split":
        return [from_real_frags(l) for l in split_lines(to_real_frags(op[1]))]
    if k == "explode":
        return from_real_frags(explode_text_fragments(to_real_frags(op[1])))
    if k == "text":
        return fragment_list_to_text(to_real_frags(op[1]))
    if k == "len":
        return fragment_list_len(to_real_frags(op[1]))
    if k == "width":
        return fragment_list_width(to_real_frags(op[1]))
    if k == "tft":
        return from_real_frags(to_formatted_text(real_any(op[2]), style=op[1]))
    if k == "plain":
        return to_plain_text(real_any(op[1]))
    if k == "templ":
        return from_real_frags(to_formatted_text(Template(op[1]).format(*[real_any(v) for v in op[2]])))
    if k == "merge":
        return from_real_frags(to_formatted_text(merge_formatted_text([real_any(v) for v in op[1]])))
    raise ValueError(op)


def enc_result(op, r):
    k = op[0]
    if k in ("aesc", "hesc", "text", "plain"):
        return enc_str(r)
    if k in ("len", "width"):
        return str(r)
    if k == "split":
        return " ".join([str(len(r))] + [enc_frags(l) for l in r])
    return enc_frags(r)


def impl_lines(case):
    out = []
    for op in case["ops"]:
        try:
            out.append(enc_result(op, run_op(op)))
        except Exception as e:
            out.append("err:" + type(e).__name__)
    return out


# ------------------------------------------------------------------ oracle (independent of the model)
_TOKEN = re.compile(
    "\x01[^\x02]*\x02(?P<lit1>\x01)?"               # zero-width block; a SOH right after it is literal
    "|(?:\x1b\\[|\x9b)(?P<params>[0-9;]*)(?P<final>[^0-9;])"   # CSI … final
    "|\x1b[^\\[]"                                    # ESC + one other character
    "|(?P<ch>[^\x1b\x9b\x01])", re.S)


def visible_reference(s):
    """The visible text an ANSI input must produce: the input minus recognised control sequences,
    cursor-forward (CSI n C) standing for n spaces.  Written from the documentation of the format,
    with a regex, not from the parser."""
    out, pos = [], 0
    while pos < len(s):
        m = _TOKEN.match(s, pos)
        if not m:
            break           # truncated sequence at the end of the input: nothing visible
        if m.group("ch") is not None:
            out.append(m.group("ch"))
        elif m.group("lit1"):
            out.append("\x01")
        elif m.group("final") == "C":
            first = m.group("params").split(";")[0]
            out.append(" " * min(int(first or 0), 9999))
        pos = m.end()
    return "".join(out)


INTRODUCERS = (ESC, CSI8, SOH)


def expected_escape(s):
    return "".join("?" if c in (ESC, CSI8, SOH, STX, BS) else c for c in s)


def ansi_frags(s):
    return [tuple(f) for f in to_formatted_text(ANSI(s))]


def at_ground(prefix):
    """observational test on the real parser: is it at the top of its loop after `prefix`?
    (a probe character is emitted as one fragment and a probe zero-width block is recognised)"""
    base = ansi_frags(prefix)
    p1 = ansi_frags(prefix + "X")
    if len(p1) != len(base) + 1 or p1[:len(base)] != base or p1[-1][1] != "X":
        return None
    p2 = ansi_frags(prefix + "\x01q\x02")
    if p2 != base + [("[ZeroWidthEscape]", "q")]:
        return None
    return p1[-1][0]    # the style current at the hole


def py_format_value(v, spec, percent):
    if percent:
        return ("%" + (spec or "") + "s") % (v,)
    return format(v, spec or "")


def oracle_ansi_template(op, viol):
    k = op[0]
    items = op[1]
    percent = k != "afmt"
    vals = [op[2]] if k == "amod1" else list(op[2])
    site = "ANSI.format" if k == "afmt" else "ANSI.__mod__"
    # which value goes into which hole (CPython numbering rules; errors are not part of the property)
    holes = [it for it in items if it[0] == "hole"]
    if percent:
        if len(holes) != len(vals):
            return
        picks = list(range(len(holes)))
    else:
        idxs = [h[1] for h in holes]
        if any(i is None for i in idxs) and any(i is not None for i in idxs):
            return
        picks = [i if i is not None else n for n, i in enumerate(idxs)]
        if any(p >= len(vals) for p in picks):
            return
    try:
        got = [(f[0], f[1]) for f in run_op(op)]
    except Exception as e:
        viol.append({"signature": f"{site} | raises", "msg": f"{type(e).__name__}: {e} op={op!r}"})
        return
    # the template's own output, and the splice points
    lits = ""
    base_prev = []
    expected = []
    n = 0
    for it in items:
        if it[0] == "lit":
            lits += it[1]
            cur = ansi_frags(lits)
            expected += cur[len(base_prev):]
            base_prev = cur
        else:
            style = at_ground(lits)
            if style is None:
                return      # hole inside a template control sequence: template-controlled, not claimed
            v = vals[picks[n]]
            n += 1
            if percent:
                e = py_format_value(expected_escape(v), it[2], True)
            else:
                e = expected_escape(py_format_value(v, it[2], False))
            expected += [(style, c) for c in e]
    if got != expected:
        sig = "value not inert"
        for v in vals:
            if CSI8 in v:
                sig = "8-bit CSI passes"
            elif SOH in v or STX in v:
                sig = "zero-width markers pass"
        viol.append({"signature": f"{site} | {sig}",
                     "msg": f"interpolated value changed more than its own characters: op={op!r} "
                            f"got={got!r} expected={expected!r}"})


def explode_py(frags):
    return [(f[0], c, f[2]) for f in frags for c in f[1]]


def oracle_op(op, viol):
    k = op[0]

    def bad(site, cond, msg):
        viol.append({"signature": f"{site} | {cond}", "msg": f"{msg}: op={op!r}"})

    if k == "ansi":
        s = op[1]
        try:
            fr = ansi_frags(s)
        except Exception as e:
            cond = "non-ASCII digit in CSI parameters" if isinstance(e, ValueError) else "raises"
            bad("ANSI.__init__", cond, f"{type(e).__name__}: {e}")
            return
        for st, tx in fr:
            if "[ZeroWidthEscape]" not in st and len(tx) != 1:
                bad("ANSI.__init__", "fragment shape", "visible fragment is not one character")
        text = fragment_list_to_text(fr)
        if text != visible_reference(s):
            bad("ANSI.__init__", "visible text", f"plain text {text!r} != input minus control sequences "
                                                 f"{visible_reference(s)!r}")
        if to_plain_text(ANSI(s)) != text:
            bad("to_plain_text", "ANSI", "to_plain_text != fragment_list_to_text")
        if not any(c in s for c in INTRODUCERS) and fr != [("", c) for c in s]:
            bad("ANSI.__init__", "plain string", "a string without introducers is not reproduced verbatim")
    elif k in ("afmt", "amod", "amod1"):
        oracle_ansi_template(op, viol)
    elif k == "aesc":
        r = ansi_escape(op[1])
        if len(r) != len(op[1]) or any(c in r for c in (ESC, CSI8, SOH, STX)):
            bad("ansi_escape", "introducer left", f"escaped value {r!r} still contains an introducer")
        if any(a != b and b != "?" for a, b in zip(op[1], r)):
            bad("ansi_escape", "other character changed", f"{r!r}")
    elif k == "hesc":
        r = html_escape(op[1])
        if any(c in r for c in "<>\"'\r") or re.search(r"&(?!amp;|lt;|gt;|quot;|#39;|#13;)", r) \
                or XML_ILLEGAL.search(r):
            bad("html_escape", "metacharacter left", f"{r!r}")
        import html as _html
        want = XML_ILLEGAL.sub("?", op[1])
        if _html.unescape(r) != want:
            bad("html_escape", "round trip", f"{r!r} does not decode to the value")
    elif k in ("split", "explode", "text", "len", "width"):
        frags = [tuple(f) for f in op[1]]
        real = to_real_frags(op[1])
        lines = [from_real_frags(l) for l in split_lines(real)]
        ex = [tuple(f) for f in from_real_frags(explode_text_fragments(real))]
        if ex != explode_py(frags):
            bad("explode_text_fragments", "characters", "explode is not the per-character list")
        # each line holds no newline; exploded lines = the exploded input cut at its newlines
        want, cur = [], []
        for f in explode_py(frags):
            if f[1] == "\n":
                want.append(cur)
                cur = []
            else:
                cur.append(f)
        want.append(cur)
        got = [explode_py([tuple(f) for f in l]) for l in lines]
        if got != want:
            bad("split_lines", "lines", f"lines {lines!r} are not the input cut at its newlines")
        # re-joining with newlines is the identity on the text
        joined = "\n".join("".join(f[1] for f in l) for l in lines)
        if joined != "".join(f[1] for f in frags):
            bad("split_lines", "join identity", "re-joined text differs")
        vis = [f for f in frags if "[ZeroWidthEscape]" not in f[0]]
        if fragment_list_to_text(real) != "".join(f[1] for f in vis):
            bad("fragment_list_to_text", "concat", "text is not the concatenation of visible fragments")
        if fragment_list_len(real) != len(fragment_list_to_text(real)):
            bad("fragment_list_len", "length", "len != len(text)")
        if fragment_list_len(explode_text_fragments(real)) != fragment_list_len(real):
            bad("fragment_list_len", "explode", "len changes under explode")
    elif k == "tft":
        try:
            r = run_op(op)
        except Exception as e:
            bad("to_formatted_text", "raises", f"{type(e).__name__}: {e}")
            return
        base = run_op(["tft", "", op[2]])
        if [f[1] for f in r] != [f[1] for f in base]:
            bad("to_formatted_text", "style argument changes text", "")
        if op[1] and any(not f[0].startswith(op[1] + " ") for f in r):
            bad("to_formatted_text", "style prefix", "")
    elif k == "plain":
        v = op[1]
        r = run_op(op)
        if v[1] == "str" and r != v[2]:
            bad("to_plain_text", "str", "plain text of a str is not the str")
        if v[1] == "ansi" and r != visible_reference(v[2]):
            bad("to_plain_text", "ANSI", "plain text != input minus control sequences")
    elif k in ("templ", "merge"):
        vals = op[2] if k == "templ" else op[1]
        try:
            r = run_op(op)
        except AssertionError:
            return
        texts = [to_plain_text(real_any(v)) for v in vals]
        if k == "merge":
            want = "".join(texts)
        else:
            parts = op[1].split("{}")
            want = "".join(p + t for p, t in zip(parts, texts)) + parts[-1]
        if fragment_list_to_text(to_real_frags(r)) != want:
            bad("Template.format" if k == "templ" else "merge_formatted_text", "text",
                "plain text is not the interleaving of the parts")
    elif k in ("html", "hfmt", "hmod", "hmod1"):
        oracle_html(op, viol)


XML_ILLEGAL = re.compile("[^\t\n\r\x20-\ud7ff\ue000-\ufffd\U00010000-\U0010ffff]")


def html_cells(h):
    return [(st, c) for st, tx in to_formatted_text(h) for c in tx]


def oracle_html(op, viol):
    import html as _html
    import xml.etree.ElementTree as ET
    k = op[0]
    if k == "html":
        # markup -> fragments -> plain text keeps the character data, in order (reference: a
        # different DOM builder)
        try:
            h = HTML(op[1])
        except Exception:
            return
        try:
            want = "".join(ET.fromstring("<r>" + op[1] + "</r>").itertext())
        except Exception:
            return
        if to_plain_text(h) != want:
            viol.append({"signature": "HTML.__init__ | character data",
                         "msg": f"plain text {to_plain_text(h)!r} != character data {want!r}: op={op!r}"})
        return
    items = op[1]
    vals = [op[2]] if k.endswith("1") else list(op[2])
    percent = k != "hfmt"
    site = "HTML.format" if k == "hfmt" else "HTML.__mod__"
    holes = [it for it in items if it[0] == "hole"]
    if percent:
        if len(holes) != len(vals):
            return
        picks = list(range(len(holes)))
    else:
        idxs = [h[1] for h in holes]
        if any(i is None for i in idxs) and any(i is not None for i in idxs):
            return
        picks = [i if i is not None else n for n, i in enumerate(idxs)]
        if any(p >= len(vals) for p in picks):
            return
    used = [vals[p] for p in picks]

    def fill(subst):
        n = 0
        parts = []
        for it in items:
            if it[0] == "lit":
                parts.append(it[1])
            else:
                parts.append(subst(n, it))
                n += 1
        return "".join(parts)

    try:
        HTML(op_template(op))
    except Exception:
        return      # the template itself is not acceptable: nothing is claimed
    wp = percent and any((holes[i][2] or "").strip("-") and html_escape(used[i]) != used[i]
                         for i in range(len(holes)))

    # template-dependent corners: the literal text right before / after a hole
    lit_before, lit_after = [], []
    for j, it in enumerate(items):
        if it[0] == "hole":
            lit_before.append(items[j - 1][1] if j > 0 and items[j - 1][0] == "lit" else "")
            lit_after.append(items[j + 1][1] if j + 1 < len(items) and items[j + 1][0] == "lit" else "")

    # template-dependent corners, found on the characters with their provenance (L = template
    # literal, V = interpolated value; a value can never contribute '>' or '<': they are escaped)
    prov = []
    n_ = 0
    for j, it in enumerate(items):
        if it[0] == "lit":
            prov += [(c, "L", j) for c in it[1]]
        else:
            prov += [(c, "V", j) for c in py_format_value(used[n_], it[2], percent) if c not in "<>&"]
            n_ += 1
    # a literal CR that ends a template part, directly followed by a LF from the value or (across
    # an empty value) from the next template part
    cr_lf = any(prov[i][:2] == ("\r", "L") and prov[i + 1][0] == "\n" and prov[i + 1][2] != prov[i][2]
                for i in range(len(prov) - 1))
    rbr = any(prov[i][0] == "]" and prov[i + 1][0] == "]" and prov[i + 2][:2] == (">", "L")
              for i in range(len(prov) - 2))

    def classify(default, raised=False):
        if rbr and raised:
            return "HTML.format | value ending in ] before a literal >"
        if cr_lf:
            return "HTML.format | literal CR before the hole merges with a leading LF of the value"
        if wp:
            return "HTML.__mod__ | width or precision counts the escaped characters"
        if raised and any(XML_ILLEGAL.search(v) for v in used):
            return "HTML.format | XML-illegal character in value"
        return default

    sent = [chr(0xE000 + i) for i in range(len(holes))]
    try:
        pf = html_cells(HTML(fill(lambda n, it: sent[n])))
        text_holes = sorted(c for _, c in pf if c in sent) == sorted(sent)
    except Exception:
        pf, text_holes = None, False

    # reference: format first, then escape with the standard library (both kinds of quotes), CR as
    # a character reference, characters XML cannot carry replaced
    def ref_piece(n, it):
        t = XML_ILLEGAL.sub("?", py_format_value(used[n], it[2], percent))
        return _html.escape(t, quote=True).replace("\r", "&#13;")

    try:
        ideal = html_cells(HTML(fill(ref_piece)))
        ideal_exc = None
    except Exception as e:
        ideal, ideal_exc = None, type(e).__name__
    try:
        got = html_cells(_run_html(op))
    except Exception as e:
        name = type(e).__name__
        if name != ideal_exc or text_holes:
            viol.append({"signature": classify(f"{site} | raises", True), "msg": f"{name}: {e} op={op!r}"})
        return
    if ideal_exc is not None:
        dflt = f"{site} | value not inert"
        if any("'" in v for v in used):
            dflt = "HTML.format | apostrophe in value closes a single-quoted attribute"
        viol.append({"signature": classify(dflt),
                     "msg": f"reference raises {ideal_exc}, real code returns {got!r}: op={op!r}"})
        return
    if got != ideal:
        sig = f"{site} | value not inert"
        crn = [(st, "\n" if c == "\r" else c) for st, c in ideal]
        if any("\r" in v for v in used) and [f for f in crn] == [(st, c) for st, c in got] + [] and got != ideal:
            sig = "HTML.format | carriage return in value becomes newline"
        elif any("'" in v for v in used):
            sig = "HTML.format | apostrophe in value closes a single-quoted attribute"
        viol.append({"signature": classify(sig), "msg": f"{site}: op={op!r} got={got!r} reference={ideal!r}"})
        return
    # independent of any escaper: with a private-use sentinel in every hole the template shows
    # where (and in which style) each hole sits; if all holes surface as text, the result must be
    # that output with the value's characters in place of the sentinel
    if not text_holes or wp:
        return
    expected = []
    for st, c in pf:
        if c in sent:
            i = sent.index(c)
            e = XML_ILLEGAL.sub("?", py_format_value(used[i], holes[i][2], percent))
            expected += [(st, ch) for ch in e]
        else:
            expected.append((st, c))
    if got != expected:
        viol.append({"signature": classify(f"{site} | value not inert"),
                     "msg": f"op={op!r} got={got!r} expected={expected!r}"})


def _run_html(op):
    k = op[0]
    if k == "hfmt":
        return HTML(op_template(op)).format(*op[2])
    if k == "hmod":
        return HTML(op_template(op)) % tuple(op[2])
    return HTML(op_template(op)) % op[2]


def oracle(case):
    v = []
    for op in case["ops"]:
        oracle_op(op, v)
    seen, out = set(), []
    for x in v:
        if x["signature"] not in seen:
            seen.add(x["signature"])
            out.append(x)
    return out


# ------------------------------------------------------------------ generators
ANSI_ALPHA = [ESC, CSI8, "[", "1", ";", "m", "C", SOH, STX, "a", "²"]
ANSI_ALPHA_SMALL = [ESC, "[", "3", ";", "m", SOH, STX]
VALUE_ALPHA = ["a", " ", "<", ">", "&", '"', ESC, CSI8, "[", "1", "m", SOH, STX, BS, "{", "%"]
VALUE_EXTRA = ["}", "s", ":", "!", "3", ";", "C", "'", "世", "\n", "\t", "é", "\x7f", "\x85"]

# complete tokens (leave the parser at ground) and incomplete ones
TOKENS_COMPLETE = ["a", "b ", "{", "}", "%", "{}", "%s", ESC + "[1m", ESC + "[31m", ESC + "[0m", CSI8 + "4m",
                   ESC + "[38;5;9m", ESC + "[48;2;1;2;3m", ESC + "[2C", SOH + "zw" + STX + "x", ESC + "Z",
                   ESC + "[5n", "\n", "世", ESC + "[;m", ESC + "[39;49m"]
TOKENS_INCOMPLETE = [ESC, ESC + "[", ESC + "[3", CSI8 + "1;", SOH + "q", SOH + "q" + STX, ESC + "[38;5;"]

FORMAT_SPECS = [None, "", "s", "5", ">4", "^5", "*<3", ".1", "6.2", "x^4.1s", "<", "\x1b>3", "\x9b^3", "\x01<2",
                "0<3", "1"]
PERCENT_SPECS = [None, "", "3", "-3", ".1", "4.1", "-4.2", "."]


def chunked(ops, n=30):
    for i in range(0, len(ops), n):
        yield {"ops": ops[i:i + n]}


def sgr_cases():
    ops = []
    for n in range(0, 111):
        ops.append(["ansi", f"{ESC}[{n}mX"])
        ops.append(["ansi", f"{ESC}[1;{n};4mX{ESC}[{n}mY"])
    for n in list(range(0, 20)) + [100, 231, 232, 252, 253, 254, 255, 256, 300, 9999, 10000, 123456789012345678901]:
        ops.append(["ansi", f"{ESC}[38;5;{n}mX{ESC}[48;5;{n}mY"])
        ops.append(["ansi", f"{CSI8}38;2;{n};1;2mX{ESC}[48;2;3;{n};{n}mY{ESC}[{n}CZ"])
    for tail in ["38", "38;5", "38;2", "38;2;1", "38;2;1;2", "38;5;1;1", "38;2;1;2;3;4", "48;5", "48;2;1;2",
                 "38;7;1", "38;38;5;1", "38;5;38;5;1", "", ";", ";;", "0;1", "1;0", "1;;4", "38;2;38;2;1;2;3",
                 "38;5;2;2;3;4;5", "38;2;5;1;2", "30;40;90;100", "39;49", "1;3;4;5;6;7;8;9", "22;23;24;25;27;28;29",
                 "2", "21", "26", "10", "00", "01", "007", "38;5;007", "48;2;300;400;9999"]:
        ops.append(["ansi", f"{ESC}[1;3;4;5;7;8;9;31;41mA{ESC}[{tail}mB"])
        ops.append(["ansi", f"{ESC}[{tail}mB{ESC}[{tail}CQ"])
    return ops


def rand_ansi(rng, n):
    out = []
    for _ in range(n):
        r = rng.random()
        if r < 0.35:
            out.append(rng.choice(["a", "b", " ", "世", "\n", "[", "m", "1", ";", "C", "²", "{", "%"]))
        elif r < 0.6:
            params = ";".join(rng.choice(["", "0", "1", "3", "4", "7", "22", "31", "42", "38", "48", "5", "2", "90",
                                          "107", "255", "12345", "39", "49", "9"])
                              for _ in range(rng.randrange(0, 6)))
            out.append(rng.choice([ESC + "[", CSI8]) + params + rng.choice(["m", "m", "m", "C", "n", "H", "²", ESC, " "]))
        elif r < 0.7:
            out.append(SOH + "".join(rng.choice(["a", ESC, "[", SOH, "1"]) for _ in range(rng.randrange(0, 3))) + STX)
        elif r < 0.8:
            out.append(ESC + rng.choice(["a", ESC, "]", "(", SOH, CSI8]))
        else:
            out.append(rng.choice(ANSI_ALPHA))
    return "".join(out)


def rand_value(rng, maxlen=6):
    al = VALUE_ALPHA + VALUE_EXTRA
    return "".join(rng.choice(al) for _ in range(rng.randrange(0, maxlen + 1)))


def rand_template(rng, specs, allow_incomplete=True, explicit=False):
    items = []
    nholes = 0
    for _ in range(rng.randrange(1, 6)):
        if rng.random() < 0.45:
            idx = None
            if explicit:
                idx = rng.randrange(0, 3)
            items.append(["hole", idx, rng.choice(specs)])
            nholes += 1
        else:
            pool = TOKENS_COMPLETE
            if allow_incomplete and rng.random() < 0.15:
                pool = TOKENS_INCOMPLETE
            lit = "".join(rng.choice(pool) for _ in range(rng.randrange(1, 4)))
            if items and items[-1][0] == "lit":
                items[-1][1] += lit
            else:
                items.append(["lit", lit])
    return items, nholes


# ---- HTML
HTML_ALPHA = ["<", ">", "/", "b", "=", '"', "'", " ", "&", ";", "a", "]"]
HTML_VALUE_ALPHA = ["a", " ", "<", ">", "&", '"', "'", "\r", "\n", "]", ESC, "\x00", "{", "%", ";", "#"]
HTML_NAMES = ["b", "i", "u", "style", "html-root", "username", "x-1.y_z"]
HTML_TEXTS = ["a", "b c", "&amp;", "&lt;x&gt;", "]]", ">", "'", '"', "\n", "\r\n", "\r", "\u4e16", "&#65;", "&#x41;",
              "&apos;&quot;", "{", "}", "%", "\t", "&#13;", "&#39;"]
HTML_ATTR_VALUES = ["ansired", "#ff0000", "", "a b", "x&amp;y", "a'b", 'a"b', "a\tb", "a>b", "&#10;", "]]>"]


def html_element(rng, depth, hole_factory):
    """markup pieces (strings) and holes of one element"""
    name = rng.choice(HTML_NAMES)
    out = ["<" + name]
    keys = rng.sample(["fg", "bg", "color", "other"], rng.randrange(0, 3))
    for k in keys:
        q = rng.choice(['"', "'"])
        out.append(" " * rng.choice([1, 1, 1, 2]) + k + rng.choice(["=", "=", " = "]) + q)
        if hole_factory is not None and rng.random() < 0.3:
            out.append(hole_factory())
        else:
            v = rng.choice(HTML_ATTR_VALUES)
            if q in v:
                v = v.replace(q, "")
            out.append(v)
        out.append(q)
    if rng.random() < 0.15:
        out.append(rng.choice(["/>", " />"]))
        return out
    out.append(rng.choice([">", ">", " >"]))
    out += html_content(rng, depth + 1, hole_factory)
    out.append("</" + name + rng.choice([">", ">", " >"]))
    return out


def html_content(rng, depth, hole_factory):
    out = []
    for _ in range(rng.randrange(0, 4 if depth < 3 else 2)):
        r = rng.random()
        if r < 0.45:
            out.append(rng.choice(HTML_TEXTS))
        elif r < 0.65 and hole_factory is not None:
            out.append(hole_factory())
        elif depth < 3:
            out += html_element(rng, depth, hole_factory)
    return out


def rand_html_string(rng):
    s = "".join(html_content(rng, 0, None))
    if rng.random() < 0.25 and s:
        # damage it: delete / insert / replace one character
        s = "".join(c for c in s if ord(c) < 128) or "a"   # non-ASCII names are outside the model
        i = rng.randrange(len(s))
        s = s[:i] + rng.choice(["", rng.choice(HTML_ALPHA), rng.choice(HTML_ALPHA) + s[i]]) + s[i + 1:]
    return s


def rand_html_template(rng, specs, explicit=False):
    """items of a format / % template whose literal parts are HTML markup"""
    holes = []

    def hole():
        idx = rng.randrange(0, 3) if explicit else None
        h = ["hole", idx, rng.choice(specs)]
        holes.append(h)
        return h

    pieces = html_content(rng, 0, hole)
    if not any(isinstance(p, list) for p in pieces):
        pieces.append(hole())
    items = []
    for p in pieces:
        if isinstance(p, list):
            items.append(p)
        elif items and items[-1][0] == "lit":
            items[-1][1] += p
        else:
            items.append(["lit", p])
    return items, len(holes)


HTML_FORMAT_SPECS = [None, None, "", "s", "5", ">4", "^5", "*>3", ".1", "6.2", "x^4.1s", ">", "<"]
HTML_FMT_POOL = [
    [["hole", None, None]],
    [["lit", "<b>x"], ["hole", None, None], ["lit", "y</b>z"]],
    [["lit", '<style fg="ansired">'], ["hole", None, ">3"], ["lit", "</style><u>"], ["hole", None, None], ["lit", "</u>"]],
    [["lit", "<style fg='"], ["hole", None, None], ["lit", "'>x</style>"]],          # single-quoted attribute
    [["lit", '<style bg="'], ["hole", None, None], ["lit", '">x</style>']],          # double-quoted attribute
    [["lit", "<i>a]"], ["hole", None, None], ["lit", "&gt;</i>"]],
    [["lit", "<"], ["hole", None, None], ["lit", ">x</b>"]],                          # hole as tag name
    [["lit", "a"], ["hole", None, None], ["lit", ">b"]],                              # value ]] + literal >
    [["lit", "x\r"], ["hole", None, None], ["lit", "y"]],                             # literal CR + value LF
]
HTML_MOD_POOL = [
    [["hole", None, None]],
    [["lit", "<b>x"], ["hole", None, None], ["lit", "y</b>z"]],
    [["lit", "<style color='"], ["hole", None, None], ["lit", "'>x</style>"], ["hole", None, "-3"]],
    [["lit", "<i>100%"], ["hole", None, ".2"], ["lit", "</i>"]],
]

STYLES = ["", "b", "[ZeroWidthEscape]", "class:x [ZeroWidthEscape]"]
FRAG_TEXT_ALPHA = ["a", "\n", "世"]


def frag_lists(max_frags, max_len):
    texts = [""]
    for n in range(1, max_len + 1):
        texts += ["".join(t) for t in itertools.product(FRAG_TEXT_ALPHA, repeat=n)]
    single = [[st, tx, None] for st in STYLES for tx in texts]
    for k in range(0, max_frags + 1):
        if k <= 1:
            for combo in itertools.product(single, repeat=k):
                yield [list(f) for f in combo]
        else:
            # >= 2 fragments: texts up to length 2 to keep the product small
            short = [f for f in single if len(f[1]) <= (2 if k == 2 else 1)]
            for combo in itertools.product(short, repeat=k):
                yield [list(f) for f in combo]


def rand_frags(rng, maxn=6):
    out = []
    for _ in range(rng.randrange(0, maxn + 1)):
        tx = "".join(rng.choice(["a", "b", "\n", "\n", "\u4e16", " ", "\u0301", "\x1b", "\t"]) for _ in range(rng.randrange(0, 6)))
        st = rng.choice(STYLES + ["bold", "class:a,b fg:red", "x[ZeroWidthEscape]"])
        out.append([st, tx, rng.choice([None, None, 0, 1, 2])])
    return out


def rand_any(rng):
    kind = rng.choice(["none", "str", "list", "ft", "ansi"])
    d = rng.choice([0, 0, 0, 1, 2])
    if kind == "none":
        return [d, "none", None]
    if kind == "str":
        return [d, "str", rand_value(rng)]
    if kind == "ansi":
        return [d, "ansi", rand_ansi(rng, rng.randrange(0, 5))]
    return [d, kind, rand_frags(rng, 3)]


def cases(tier, rng):
    quick = tier == "quick"
    # ---- 1. ANSI inputs, exhaustive
    ops = []
    maxlen = 4 if quick else 5
    for n in range(0, maxlen + 1):
        for tup in itertools.product(ANSI_ALPHA, repeat=n):
            ops.append(["ansi", "".join(tup)])
    if not quick:
        for tup in itertools.product(ANSI_ALPHA_SMALL, repeat=6):
            ops.append(["ansi", "".join(tup)])
    ops += sgr_cases()
    yield from chunked(ops, 60)

    # ---- 2. escape functions + interpolation, exhaustive over short values
    vmax = 2 if quick else 3
    values = [""]
    for n in range(1, vmax + 1):
        values += ["".join(t) for t in itertools.product(VALUE_ALPHA, repeat=n)]
    ops = []
    for v in values:
        ops.append(["aesc", v])
        ops.append(["hesc", v])
    yield from chunked(ops, 60)
    fmt_pool = [
        [["hole", None, None]],
        [["lit", "a"], ["hole", None, None], ["lit", "b"]],
        [["lit", ESC + "[1ma"], ["hole", None, None], ["lit", "b" + ESC + "[0mc"]],
        [["lit", ESC + "[31m"], ["hole", None, ">3"], ["lit", ESC + "[42m"], ["hole", None, None], ["lit", "z"]],
        [["lit", SOH + "p" + STX + "x"], ["hole", 0, None], ["lit", "{}%"], ["hole", 0, "^4"]],
        [["lit", ESC + "["], ["hole", None, None], ["lit", "mX"]],                 # hole inside a CSI: not inert
        [["lit", SOH + "p" + STX], ["hole", None, None], ["lit", SOH + "q" + STX]],  # hole right after a zw block
        [["lit", SOH], ["hole", None, None], ["lit", STX + "y"]],                 # hole inside a zw block
    ]
    mod_pool = [
        [["hole", None, None]],
        [["lit", "a"], ["hole", None, None], ["lit", "b"]],
        [["lit", ESC + "[1ma%"], ["hole", None, "3"], ["lit", "b" + ESC + "[0mc"]],
        [["lit", CSI8 + "4m"], ["hole", None, "-3"], ["lit", ESC + "[42m"], ["hole", None, ".1"], ["lit", "z"]],
        [["lit", ESC + "[3"], ["hole", None, None], ["lit", "mX"]],
    ]
    ops = []
    for v in values:
        for t in fmt_pool:
            nh = sum(1 for it in t if it[0] == "hole" and it[1] is None) or 1
            ops.append(["afmt", t, [v] + ["w" + v] * (nh - 1)])
        for t in mod_pool:
            nh = sum(1 for it in t if it[0] == "hole")
            if nh == 1:
                ops.append(["amod1", t, v])
            ops.append(["amod", t, [v] + ["w" + v] * (nh - 1)])
    yield from chunked(ops, 40)
    # every spec x a few values
    ops = []
    for sp in FORMAT_SPECS:
        for v in ["", "a", "abc", ESC + "[1m", "ab" + CSI8, "世界", SOH + "x" + STX, "abcdefg"]:
            ops.append(["afmt", [["lit", ESC + "[4m<"], ["hole", None, sp], ["lit", ">"]], [v]])
    for sp in PERCENT_SPECS:
        for v in ["", "a", "abc", ESC + "[1m", "ab" + CSI8, "世界", SOH + "x" + STX, "abcdefg"]:
            ops.append(["amod", [["lit", ESC + "[4m<"], ["hole", None, sp], ["lit", ">"]], [v]])
    # argument count / numbering errors
    for t, vs in [([["hole", None, None], ["hole", None, None]], ["a"]),
                  ([["hole", 0, None], ["hole", None, None]], ["a", "b"]),
                  ([["hole", None, None], ["hole", 0, None]], ["a", "b"]),
                  ([["hole", 1, None], ["hole", 0, None], ["hole", 1, None]], ["a", "b"]),
                  ([["hole", 2, None]], ["a", "b"]),
                  ([["lit", "x"]], ["a"]), ([["lit", "x"]], [])]:
        ops.append(["afmt", t, vs])
        ops.append(["amod", [[it[0], None, None] if it[0] == "hole" else it for it in t], vs])
    yield from chunked(ops, 40)

    # ---- 2b. HTML: every string over a 12-symbol markup alphabet, then templates x values
    ops = []
    hmax = 4 if quick else 5
    for n in range(0, hmax + 1):
        for tup in itertools.product(HTML_ALPHA, repeat=n):
            ops.append(["html", "".join(tup)])
    for t in ["<b>a</b>", "<b fg='x' bg=\"y\">a<i>b</i>c</b>d", "<style fg='a b'>x</style>", "<b><i>x</b></i>",
              "<b fg='x' fg='y'>z</b>", "a]]>b", "a]]&gt;b", "<b/>x<i></i>", "<html-root>x</html-root>",
              "<b color='y' fg='x'>2</b>", "&#0;", "&#27;", "&#xfffe;", "&#65;&#x41;", "&amp", "&foo;", "&#;",
              "x\ry\r\nz", "<b fg='a\r\nb'>x</b>", "<b fg='a&#10;b'>x</b>", "\x1b", "<b fg='a<b'>x</b>",
              "<b  fg = 'x' >y</b >", "<b\nfg='x'>y</b>", "<b fg='x'bg='y'>z</b>", "<b fg>z</b>", "<b>"]:
        ops.append(["html", t])
    yield from chunked(ops, 60)
    hvalues = [""]
    for n in range(1, vmax + 1):
        hvalues += ["".join(t) for t in itertools.product(HTML_VALUE_ALPHA, repeat=n)]
    ops = []
    for v in hvalues:
        ops.append(["hesc", v])
        for t in HTML_FMT_POOL:
            nh = sum(1 for it in t if it[0] == "hole")
            ops.append(["hfmt", t, [v] + ["w" + v] * (nh - 1)])
        for t in HTML_MOD_POOL:
            nh = sum(1 for it in t if it[0] == "hole")
            if nh == 1:
                ops.append(["hmod1", t, v])
            ops.append(["hmod", t, [v] + ["w" + v] * (nh - 1)])
    yield from chunked(ops, 40)

    # ---- 3. fragment utilities, exhaustive
    ops = []
    for fl in frag_lists(2 if quick else 3, 3):
        ops.append(["split", fl])
        ops.append(["explode", fl])
        ops.append(["text", fl])
        ops.append(["len", fl])
        ops.append(["width", fl])
    yield from chunked(ops, 60)

    # ---- 4. random
    nrand = 1500 if quick else 80000
    ops = []
    for _ in range(nrand):
        ops.append(["ansi", rand_ansi(rng, rng.choice([1, 2, 3, 5, 8, 20]))])
        items, nh = rand_template(rng, FORMAT_SPECS, explicit=rng.random() < 0.2)
        nvals = max(nh, 3) if any(it[0] == "hole" and it[1] is not None for it in items) else \
            nh + rng.choice([0, 0, 0, 0, 1, -1])
        ops.append(["afmt", items, [rand_value(rng) for _ in range(max(0, nvals))]])
        items, nh = rand_template(rng, PERCENT_SPECS)
        nvals = nh + rng.choice([0, 0, 0, 0, 0, 1, -1])
        vals = [rand_value(rng) for _ in range(max(0, nvals))]
        if len(vals) == 1 and rng.random() < 0.5:
            ops.append(["amod1", items, vals[0]])
        else:
            ops.append(["amod", items, vals])
        v = rand_value(rng, 10)
        ops.append(["aesc", v])
        ops.append(["hesc", v])
        ops.append(["html", rand_html_string(rng)])
        items, nh = rand_html_template(rng, HTML_FORMAT_SPECS, explicit=rng.random() < 0.2)
        nvals = 3 if any(it[0] == "hole" and it[1] is not None for it in items) else nh
        ops.append(["hfmt", items, ["".join(rng.choice(HTML_VALUE_ALPHA + ["b", "1", "\u4e16"])
                                            for _ in range(rng.randrange(0, 5))) for _ in range(nvals)]])
        items, nh = rand_html_template(rng, PERCENT_SPECS)
        vals = ["".join(rng.choice(HTML_VALUE_ALPHA + ["b", "1", "\u4e16"]) for _ in range(rng.randrange(0, 5)))
                for _ in range(nh)]
        ops.append(["hmod1", items, vals[0]] if len(vals) == 1 and rng.random() < 0.5 else ["hmod", items, vals])
        fl = rand_frags(rng)
        ops.append([rng.choice(["split", "split", "explode", "text", "len", "width"]), fl])
        ops.append(["tft", rng.choice(["", "", "bold", "class:x y"]), rand_any(rng)])
        ops.append(["plain", rand_any(rng)])
        nparts = rng.randrange(0, 4)
        text = "".join(rng.choice(["a", "{", "}", "{}", " ", "{0", "}{"]) for _ in range(rng.randrange(0, 6)))
        nv = text.count("{}") + rng.choice([0, 0, 0, 0, 1])
        ops.append(["templ", text, [rand_any(rng) for _ in range(nv)]])
        ops.append(["merge", [rand_any(rng) for _ in range(nparts)]])
    yield from chunked(ops, 60)


# ------------------------------------------------------------------ evidence helpers
def sample_view(case):
    ops = case["ops"]
    return {"ops": ops[:3] + ([f"... {len(ops)} ops in this case"] if len(ops) > 3 else [])}


def _op_nontrivial(op):
    k = op[0]
    if k in ("ansi", "aesc", "hesc", "html"):
        return any(ord(c) < 32 or c in (CSI8, "<", "&", ">", '"', "'") for c in op[1])
    if k in ("afmt", "amod", "amod1", "hfmt", "hmod", "hmod1"):
        return any(it[0] == "hole" for it in op[1])
    if k in ("split", "explode", "text", "len", "width"):
        return len(op[1]) > 1 or any("\n" in f[1] for f in op[1])
    return True


def nontrivial(case):
    return any(_op_nontrivial(op) for op in case["ops"])


def distribution(cases_):
    d = {"ops": {}, "ansi_len": {}, "html_len": {}, "values_with_introducer": 0, "values_with_markup": 0, "holes": 0}
    for c in cases_:
        for op in c["ops"]:
            d["ops"][op[0]] = d["ops"].get(op[0], 0) + 1
            if op[0] == "ansi":
                n = len(op[1])
                key = str(n) if n < 7 else "7+"
                d["ansi_len"][key] = d["ansi_len"].get(key, 0) + 1
            if op[0] == "html":
                n = len(op[1])
                key = str(n) if n < 7 else "7+"
                d["html_len"][key] = d["html_len"].get(key, 0) + 1
            if op[0] in ("afmt", "amod", "amod1", "hfmt", "hmod", "hmod1"):
                d["holes"] += sum(1 for it in op[1] if it[0] == "hole")
                vals = [op[2]] if op[0].endswith("1") else op[2]
                if any(any(ch in v for ch in (ESC, CSI8, SOH, STX)) for v in vals):
                    d["values_with_introducer"] += 1
                if any(any(ch in v for ch in "<>&\"'\r") for v in vals):
                    d["values_with_markup"] += 1
    return d


if __name__ == "__main__":
    sys.exit(core.main(sys.modules[__name__]))
