#!/venv/bin/python
"""C18 — formatted-text conversions: correspondence with Ptk.Model.C18 (+C18Html) and the property oracle."""
from __future__ import annotations

import itertools
import json
import os
import pickle
import re
import sys

sys.path.insert(0, os.path.dirname(os.path.abspath(__file__)))
import core
from core import enc_str

from prompt_toolkit.formatted_text import ANSI, HTML, FormattedText, PygmentsTokens, Template, \
    merge_formatted_text, to_formatted_text, to_plain_text
from prompt_toolkit.formatted_text.ansi import ansi_escape
from prompt_toolkit.formatted_text.html import html_escape
from prompt_toolkit.formatted_text.utils import fragment_list_len, fragment_list_to_text, \
    fragment_list_width, split_lines
from prompt_toolkit.layout.utils import explode_text_fragments

ID = "C18"
DRIVER = "drv_c18"
PROPS = ["Ptk.Props.C18Frag", "Ptk.Props.C18", "Ptk.Props.C18Tok", "Ptk.Props.C18Html", "Ptk.Props.C18Sess",
         "Ptk.Props.C18Expl", "Ptk.Props.C18Round", "Ptk.Props.C18Int"]
TECHNIQUE = "Lean 4 proof over hand-written executable model + differential correspondence with the real code"
LEVEL_TEXT = ("Lean 4 theorems over an executable model of the formatted-text layer: the ANSI parser as an explicit "
              "state machine proved equal to the interpretation of a token grammar of its input (visible text = input "
              "minus recognised control sequences, in order; plain strings verbatim; at most 9999 fragments per input "
              "character), ANSI(ansi_escape(v)) and HTML(html_escape(v)) show the text of v for every string v with "
              "the exact set of replaced code points, and both escape functions are proved equal to the source's own "
              "chain of .replace calls (tables regenerated from /repo); interpolation inertness for ANSI / HTML .format(*args, **kwargs) "
              "and % (tuples of mixed values under every conversion: either the call raises or every value is inert) "
              "with automatic, numbered and keyword fields, !r !s !a conversions and format specs (any number "
              "of holes at ground state / in text position: each escaped value is spliced in with the surrounding "
              "style, parser state unchanged; only the referenced values matter; format pads the value, % pads the "
              "escaped text); sessions: in any sequence of constructions and format / % / to_formatted_text calls in "
              "one process the result of a call is a function of the template text of its object and of this call's "
              "own values (fresh or reused object, any history), with the inventory of module / class / instance "
              "state of the anchored modules pinned; HTML on a modelled XML sub-grammar incl. comments, CDATA "
              "sections, processing instructions, all character references; split_lines = cut at line feeds only, "
              "every character's style and handler kept, join identity; explode / fragment_list_* / Template / merge "
              "/ PygmentsTokens / to_formatted_text(auto_convert) laws; every mutator _ExplodedList defines keeps "
              "the one-character invariant. Three statements that are FALSE of the current code are refuted on "
              "witnesses in Lean and replayed on the real code (int() of an over-long CSI parameter raises: known "
              "finding with a proposed fix proved value-preserving; the inherited += and l[-1] = x of _ExplodedList: "
              "observations). Tied to /repo on every run by generated tables and pins, a differential "
              "correspondence in which every case runs in its own process image (exhaustive small scope + random, "
              "incl. call sequences on the same template text) and a model-independent property oracle")
LEVEL_NOTE = ("trusted: Lean kernel, axioms propext/Classical.choice/Quot.sound only; the hand-written model "
              "(validated by the correspondence, not proved equal to the Python); CPython str / format / % / repr / "
              "str.isprintable / int-string-conversion-limit semantics (runtime tables regenerated per run); "
              "HTML is partial: xml.dom.minidom/expat is modelled on a sub-grammar only (sampled against the real "
              "parser, not verified)")
RULE = ("exhaustive: every ANSI input over an 11-symbol alphabet (ESC, 8-bit CSI, '[', digit, ';', 'm', 'C', "
        "SOH, STX, letter, superscript two) up to the tier's length; every SGR code 0..110 and the 38/48 "
        "extended forms incl. truncated ones; CSI parameters of limit-1, limit, limit+1 digits (int-string "
        "limit); every markup string over a 12-symbol XML alphabet up to the tier's length and every "
        "concatenation of up to 3 (thorough: 4) of 17 markup tokens (comment / CDATA / PI delimiters, tags, "
        "references, CR, LF); every template from fixed pools (holes at ground, inside a CSI, inside / right "
        "after a zero-width block; HTML holes in text, in single- and double-quoted attributes, as tag name) x "
        "every value over 16-symbol alphabets (printable, markup metacharacters, both quotes, CR/LF, ESC, NUL, "
        "CSI 7/8-bit, zero-width markers, BS, format-spec characters) up to the tier's length via format() and %; "
        "sessions: 11 templates (keyword, numbered, automatic, mixed fields, conversion, attribute hole, %) x "
        "every ordered pair of 9 values as consecutive calls x {one reused object, a fresh object per call, two "
        "templates interleaved}, plus non-str pairs (1/True, 0/False, '1'/1, None, lists, hashable and "
        "unhashable objects); every fragment list up to 3 fragments over 4 styles x texts up to length 3 over "
        "{a, newline, wide}; every single _ExplodedList operation from a pool of ~400 (all int indexes -3..3, all "
        "slice bounds in {None,-2,-1,0,1,2,5}^2, fragment / list / self values) on 3 lists; "
        "to_formatted_text(auto_convert) over depth 0..2 x flag x style x value kind; then seeded random larger "
        "cases (ANSI streams, well-formed and damaged markup, templates with keyword / numbered / automatic "
        "fields, conversions, specs, non-str values, missing arguments, sessions of up to 8 calls on up to 3 "
        "objects, fragment lists with handlers, mutator sequences, to_formatted_text / Template / merge / "
        "PygmentsTokens trees, repr / ascii). Every case is evaluated in its own process (fork of a fresh "
        "interpreter). A case is non-trivial when some op has a control or markup character, a hole, a newline "
        "or more than one fragment")
EXHAUSTIVE = True
EXHAUSTIVE_SCOPE = {
    "quick": "ANSI strings len<=4 over 11 symbols; markup strings len<=4 over 12 symbols, <=3 of 17 markup tokens; "
             "values len<=2 over 16 symbols x template pools; 11 session templates x 81 ordered value pairs x 3 "
             "object disciplines; fragment lists <=2 frags, texts len<=3; ~400 single _ExplodedList operations x 3 lists",
    "thorough": "ANSI strings len<=5 over 11 symbols (+len 6 over 7 symbols); markup strings len<=5 over 12 "
                "symbols, <=4 of 17 markup tokens; values len<=3 over 16 symbols x template pools; sessions as "
                "quick; fragment lists <=3 frags, texts len<=3; _ExplodedList as quick"}
TRUSTED = ["harness/c18.py compares fragment lists (style, text, handler id) / strings / error class per op; each case "
           "runs in a fork of a freshly started interpreter that has only imported the library",
           "Ptk/Model/C18.lean, C18Html.lean, C18Sess.lean, C18Expl.lean are hand translations of "
           "formatted_text/{ansi,html,base,utils,pygments}.py and layout/utils.py (correspondence-checked)",
           "harness/gen_c18.py prints _fg_colors/_bg_colors/_256_colors, the wcwidth of the test characters, "
           "str.isprintable ranges, sys.get_int_max_str_digits(), the .replace(a, b) chains of html_escape / "
           "ansi_escape in source order, the pattern of _XML_ILLEGAL_CHARS_RE, the expression appended to params in "
           "_parse_corot and the state inventory of the anchored modules; tablesOK (no '[' in a colour name), "
           "ChainOK of the replace chains (htmlEscape_eq_chain / ansiEscape_eq_chain: the model's escape functions "
           "ARE the source's replace chains) and the pins (moduleState_pinned, htmlTbl_pinned, ansiTbl_pinned, "
           "xmlIllegalPattern_pinned, ansiParamExpr_pinned) are re-decided by the kernel on every run"]
ASSUMPTIONS = ["CPython str.format / Formatter.vformat / % semantics on the modelled sub-grammar "
               "(literal, {{, }}, {[n|name][!r|!s|!a][:[[fill]align][width][.prec][s]]}; %%, %[flags][width][.prec][hlL] with s r a c; d i u o x X e E f F g G, * and (key) = TypeError, any "
               "other character = ValueError, as str.__mod__ does on the tuple of ESCAPED strings the code passes); "
               "repr(str) / ascii as in unicode_repr with str.isprintable as a generated table",
               "non-str values enter through str(v) / repr(v) as computed by CPython (passed to the model as data); "
               "format(v, spec) of numbers with a non-empty spec is not modelled (never generated)",
               "wcwidth is a parameter of fragment_list_width (table of the test characters regenerated per run)",
               "xml.dom.minidom/expat on the modelled sub-grammar (elements, quoted attributes, the five predefined "
               "entities, numeric character references, comments, CDATA sections, processing instructions, line-end "
               "and attribute-value normalisation, ban of ]]> and of characters outside the XML Char production; "
               "adjacent character data forms one text node; an empty CDATA section leaves no node)",
               "list.__setitem__(slice) / list.__iadd__ as CPython defines them (step-1 slices)",
               "int(s) raises ValueError exactly when s has more than sys.get_int_max_str_digits() digits"]
PARTIAL_SCOPE = ["HTML: minidom/expat is modelled on a sub-grammar only: names with ':' (namespace scoping and the "
                 "duplicate-by-URI rule of expat's namespace mode), xmlns declarations, non-ASCII names (XML 1.0 "
                 "4th-edition name classes), DOCTYPE / entity declarations stay out; the theorems are about that "
                 "model. Comments, non-empty CDATA sections and processing instructions are modelled as the code "
                 "treats them: AttributeError from process_node (observation, not claimed as a violation)",
                 "interpolation inertness is claimed (and proved) for holes at parser ground state only: a hole "
                 "inside a template control sequence (e.g. ESC[{}m), right after a zero-width block, or inside an "
                 "HTML tag / attribute is template-controlled, not inert",
                 "known findings (status known): ANSI('ESC[' + 4301 digits + 'm') raises ValueError (int-string "
                 "limit; ansi_total_partial excludes inputs with a longer digit run; fix proposed and proved "
                 "value-preserving: clampParam_eq); HTML.__mod__ applies %-width/precision to the escaped text "
                 "(format_pads_value_percent_pads_escaped); a value ending in ] followed by a literal > forms ]]>; "
                 "a literal CR directly before a hole merges with a leading LF of the value",
                 "HTML %: the inertness theorem (htmlMod_inert) covers plain %s / %c; with a width / precision or "
                 "%r / %a the escaped text is padded / cut / repr'd (known finding; modelled and compared, ANSI side "
                 "proved inert for all of them)",
                 "format(): nested fields ({:{}}), attribute / index lookups ({a.b}, {a[0]}), field numbers of more "
                 "than 9 digits, non-identifier keyword names, format specs of numbers are not modelled",
                 "sessions: only the state inventoried by gen_c18.py is pinned (module-level objects, cached "
                 "functions, class-level containers, instance attributes of HTML / ANSI); the FormattedText that "
                 "to_formatted_text(HTML(...)) returns is the object's own list (aliasing: a caller that mutates it "
                 "changes the HTML object) - not modelled",
                 "_ExplodedList: slices with a step other than 1 and the inherited list methods other than += are "
                 "not modelled; observations proved on witnesses: += does not explode (iadd_breaks_exploded), "
                 "l[-1] = x inserts before the last element and an index past the end appends "
                 "(setItem_minus_one_inserts)",
                 "lone surrogates (a Python str can hold them, a Lean Char cannot) are exercised by the oracle on "
                 "the real code only",
                 "to_formatted_text: auto_convert is not passed on to the value a callable returns "
                 "(toFormattedTextAC_call_other; modelled as it is)"]
ANCHORS = ["src/prompt_toolkit/formatted_text/ansi.py", "src/prompt_toolkit/formatted_text/html.py",
           "src/prompt_toolkit/formatted_text/base.py", "src/prompt_toolkit/formatted_text/utils.py",
           "src/prompt_toolkit/formatted_text/pygments.py", "src/prompt_toolkit/layout/utils.py",
           "src/prompt_toolkit/styles/pygments.py"]
MODELLED = {
    "src/prompt_toolkit/formatted_text/ansi.py": [
        "ANSI.__init__", "ANSI._parse_corot", "ANSI._select_graphic_rendition", "ANSI._create_style_string",
        "ANSI.__pt_formatted_text__", "ANSI.format", "ANSI.__mod__", "ANSIFormatter.format_field", "ansi_escape"],
    "src/prompt_toolkit/formatted_text/html.py": [
        "HTML.__init__", "HTML.__init__.get_current_style", "HTML.__init__.process_node",
        "HTML.__pt_formatted_text__", "HTML.format", "HTML.__mod__", "HTMLFormatter.format_field", "html_escape"],
    "src/prompt_toolkit/formatted_text/base.py": [
        "to_formatted_text", "FormattedText.__pt_formatted_text__", "Template.__init__", "Template.format",
        "Template.format.get_result", "merge_formatted_text", "merge_formatted_text._merge_formatted_text"],
    "src/prompt_toolkit/formatted_text/utils.py": [
        "to_plain_text", "fragment_list_len", "fragment_list_width", "fragment_list_to_text", "split_lines"],
    "src/prompt_toolkit/formatted_text/pygments.py": ["PygmentsTokens.__init__", "PygmentsTokens.__pt_formatted_text__"],
    "src/prompt_toolkit/styles/pygments.py": ["pygments_token_to_classname"],
    "src/prompt_toolkit/layout/utils.py": [
        "explode_text_fragments", "_ExplodedList.append", "_ExplodedList.extend", "_ExplodedList.insert",
        "_ExplodedList.__setitem__"],
}

ESC, CSI8, SOH, STX, BS = "\x1b", "\x9b", "\x01", "\x02", "\x08"


# ------------------------------------------------------------------ handlers (opaque ids)
def _mk_handler(i):
    def h(mouse_event):
        return NotImplemented
    h.hid = i
    return h


HANDLERS = [_mk_handler(i) for i in range(4)]


def to_real_frags(frags):
    out = []
    for st, tx, h in frags:
        out.append((st, tx) if h is None else (st, tx, HANDLERS[h]))
    return out


def from_real_frags(frags):
    out = []
    for item in frags:
        if len(item) == 2:
            out.append([item[0], item[1], None])
        else:
            out.append([item[0], item[1], item[2].hid])
    return out


def enc_frag(f):
    return f"{enc_str(f[0])} {enc_str(f[1])} " + ("N" if f[2] is None else str(f[2]))


def enc_frags(frags):
    return " ".join([str(len(frags))] + [enc_frag(f) for f in frags])


def enc_any(v):
    d, kind, payload = v
    if kind == "none":
        return f"{d} none"
    if kind in ("str", "ansi", "html"):
        return f"{d} {kind} {enc_str(payload)}"
    return f"{d} {kind} {enc_frags(payload)}"


def real_any(v):
    d, kind, payload = v
    if kind == "none":
        val = None
    elif kind == "str":
        val = payload
    elif kind == "list":
        val = to_real_frags(payload)
    elif kind == "ft":
        val = FormattedText(to_real_frags(payload))
    elif kind == "ansi":
        val = ANSI(payload)
    elif kind == "html":
        val = HTML(payload)
    else:
        raise ValueError(kind)
    for _ in range(d):
        val = (lambda x: (lambda: x))(val)
    return val


# ------------------------------------------------------------------ interpolated values
# a value is a JSON string (a Python str) or a one-entry dict describing a non-str Python value:
#   {"int": 3} {"bool": true} {"none": 1} {"list": ["a", "<"]}          built-in types
#   {"obj": [str_text, repr_text]}   instance of a user class (hashable, object.__format__)
#   {"uobj": [str_text, repr_text]}  the same, unhashable
class _Obj:
    def __init__(self, s, r):
        self._s, self._r = s, r

    def __str__(self):
        return self._s

    def __repr__(self):
        return self._r


class _UObj(_Obj):
    __hash__ = None


def real_val(v):
    if isinstance(v, str):
        return v
    (k, x), = v.items()
    if k == "int":
        return int(x)
    if k == "bool":
        return bool(x)
    if k == "float":
        return float(x)
    if k == "none":
        return None
    if k == "list":
        return list(x)
    if k == "obj":
        return _Obj(x[0], x[1])
    if k == "uobj":
        return _UObj(x[0], x[1])
    raise ValueError(v)


def enc_val(v):
    """wire form: what format()/str()/repr() can see of the value (str and repr are CPython's)"""
    if isinstance(v, str):
        return "S " + enc_str(v)
    rv = real_val(v)
    kind = "N" if isinstance(rv, (int, float)) else "P"
    return f"{kind} {enc_str(str(rv))} {enc_str(repr(rv))}"


def enc_vals(vs):
    return " ".join([str(len(vs))] + [enc_val(v) for v in vs])


def enc_kwargs(kw):
    kw = kw or {}
    return " ".join([str(len(kw))] + [enc_str(k) + " " + enc_val(v) for k, v in kw.items()])


def op_args(op):
    """(positional values, keyword values) of a format / % op"""
    k = op[0]
    if k in ("amod1", "hmod1", "smod1"):
        return [op[2]], {}
    kw = op[3] if len(op) > 3 and op[3] else {}
    return list(op[2]), dict(kw)


# ------------------------------------------------------------------ templates
# a template is a list of items: ["lit", text] | ["hole", arg, spec] | ["hole", arg, spec, conv];
# arg = None (automatic) | int (numbered) | str (keyword); spec is the raw spec text
# (format: after ':' ; percent: between '%' and 's'); conv = None | "r" | "s" | "a"
def render_format_template(items):
    out = []
    for it in items:
        if it[0] == "lit":
            out.append(it[1].replace("{", "{{").replace("}", "}}"))
        else:
            idx = "" if it[1] is None else str(it[1])
            conv = "!" + it[3] if len(it) > 3 and it[3] else ""
            out.append("{" + idx + conv + (":" + it[2] if it[2] is not None else "") + "}")
    return "".join(out)


def render_percent_template(items):
    out = []
    for it in items:
        if it[0] == "lit":
            out.append(it[1].replace("%", "%%"))
        elif it[0] == "raw":        # verbatim %-syntax: %(key)s, %*s, %z, a trailing %, %5% ...
            out.append(it[1])
        else:
            out.append("%" + (it[2] or "") + (it[3] if len(it) > 3 and it[3] else "s"))
    return "".join(out)


def op_template(op):
    """the raw template string of a format / % op"""
    k = op[0]
    if k in ("afmt", "hfmt"):
        return render_format_template(op[1])
    if k in ("amod", "amod1", "hmod", "hmod1"):
        return render_percent_template(op[1])
    raise ValueError(k)


# ------------------------------------------------------------------ protocol
def op_line(op):
    k = op[0]
    if k in ("ansi", "aesc", "hesc", "html"):
        return f"{k} {enc_str(op[1])}"
    if k in ("afmt", "hfmt"):
        args, kw = op_args(op)
        return f"{k} {enc_str(op_template(op))} {enc_vals(args)} {enc_kwargs(kw)}"
    if k in ("amod", "hmod"):
        return f"{k} {enc_str(op_template(op))} {enc_vals(op[2])}"
    if k in ("amod1", "hmod1"):
        return f"{k[:-1]} {enc_str(op_template(op))} 1 {enc_val(op[2])}"
    if k in ("repr", "ascii"):
        return f"{k} {enc_str(op[1])}"
    if k == "snew":
        return f"snew {op[1]} {op[2]} {enc_str(sess_template(op))}"
    if k == "sfmt":
        args, kw = op_args(op)
        return f"sfmt {op[1]} {enc_vals(args)} {enc_kwargs(kw)}"
    if k == "smod":
        return f"smod {op[1]} {enc_vals(op[2])}"
    if k == "smod1":
        return f"smod {op[1]} 1 {enc_val(op[2])}"
    if k == "sget":
        return f"sget {op[1]}"
    if k in ("split", "explode", "text", "len", "width"):
        return f"{k} {enc_frags(op[1])}"
    if k == "tft":
        return f"tft {enc_str(op[1])} {enc_any(op[2])}"
    if k == "plain":
        return f"plain {enc_any(op[1])}"
    if k == "templ":
        return f"templ {enc_str(op[1])} " + " ".join([str(len(op[2]))] + [enc_any(v) for v in op[2]])
    if k == "merge":
        return "merge " + " ".join([str(len(op[1]))] + [enc_any(v) for v in op[1]])
    if k == "el":
        return f"el {enc_frags(op[1])} " + " ".join([str(len(op[2]))] + [enc_el_op(o) for o in op[2]])
    if k == "tfta":
        return f"tfta {enc_str(op[1])} {1 if op[2] else 0} {enc_anyv(op[3])}"
    if k == "pyg":
        return "pyg " + " ".join([str(len(op[1]))] + [
            " ".join([str(len(names))] + [enc_str(n) for n in names]) + " " + enc_str(tx) for names, tx in op[1]])
    raise ValueError(op)


def enc_opt_int(v):
    return "N" if v is None else str(v)


def enc_el_arg(a):
    return "S" if a[0] == "S" else "P " + enc_frags(a[1])


def enc_el_op(o):
    k = o[0]
    if k == "A":
        return "A " + enc_frag(o[1])
    if k == "E":
        return "E " + enc_el_arg(o[1])
    if k in ("I", "S"):
        return f"{k} {o[1]} {enc_frag(o[2])}"
    if k == "SL":
        return f"SL {o[1]} {enc_el_arg(o[2])}"
    if k == "SS":
        return f"SS {enc_opt_int(o[1])} {enc_opt_int(o[2])} {enc_el_arg(o[3])}"
    if k == "ST":
        return f"ST {enc_opt_int(o[1])} {enc_opt_int(o[2])} {enc_frag(o[3])}"
    if k == "IA":
        return "IA " + enc_frags(o[1])
    if k == "X":
        return "X"
    raise ValueError(o)


def enc_anyv(v):
    d, kind, payload = v
    if kind == "other":
        return f"{d} other {enc_str(str(real_val(payload)))}"
    return enc_any(v)


def real_anyv(v):
    d, kind, payload = v
    if kind != "other":
        return real_any(v)
    val = real_val(payload)
    for _ in range(d):
        val = (lambda x: (lambda: x))(val)
    return val


def run_el(init, ops):
    """explode_text_fragments(init), then the operations on the _ExplodedList"""
    l = explode_text_fragments(to_real_frags(init))

    def arg(a):
        return l if a[0] == "S" else to_real_frags(a[1])

    def frag(f):
        return to_real_frags([f])[0]

    errs = []
    for o in ops:
        k = o[0]
        try:
            if k == "A":
                l.append(frag(o[1]))
            elif k == "E":
                l.extend(arg(o[1]))
            elif k == "I":
                l.insert(o[1], frag(o[2]))
            elif k == "S":
                l[o[1]] = frag(o[2])
            elif k == "SL":
                l[o[1]] = arg(o[2])
            elif k == "SS":
                l[o[1]:o[2]] = arg(o[3])
            elif k == "ST":
                l[o[1]:o[2]] = frag(o[3])
            elif k == "IA":
                l += to_real_frags(o[1])
            elif k == "X":
                l = explode_text_fragments(l)
            errs.append(False)
        except NotImplementedError:
            errs.append(True)
    return from_real_frags(l), errs


def sess_template(op):
    """the template text of a session `snew` op: ["snew", id, kind, items, "f" | "p"]"""
    return render_format_template(op[3]) if op[4] == "f" else render_percent_template(op[3])


def model_lines(case):
    # every case is one process image: the model's session state starts empty
    return ["reset"] + [op_line(op) for op in case["ops"]]


ERR_NAMES = {"IndexError", "ValueError", "TypeError", "AssertionError"}


class NoObject(Exception):
    """a session op names an object whose construction failed"""


FMT_OPS = ("afmt", "amod", "amod1", "hfmt", "hmod", "hmod1", "sfmt", "smod", "smod1")


def fmt_object(op, objs=None):
    """the HTML / ANSI object a format / % op returns on the real code"""
    k = op[0]
    args, kw = op_args(op)
    rargs = [real_val(v) for v in args]
    rkw = {n: real_val(v) for n, v in kw.items()}
    if k in ("sfmt", "smod", "smod1"):
        if objs is None or op[1] not in objs:
            raise NoObject()
        base = objs[op[1]]
    elif k.startswith("a"):
        base = ANSI(op_template(op))
    else:
        base = HTML(op_template(op))
    if k in ("afmt", "hfmt", "sfmt"):
        return base.format(*rargs, **rkw)
    if k in ("amod", "hmod", "smod"):
        return base % tuple(rargs)
    return base % rargs[0]


def run_op(op, objs=None):
    """run one op on the real code; returns a python value (frags list / str / int / lines)"""
    k = op[0]
    if k == "ansi":
        return from_real_frags(to_formatted_text(ANSI(op[1])))
    if k == "html":
        return from_real_frags(to_formatted_text(HTML(op[1])))
    if k == "aesc":
        return ansi_escape(op[1])
    if k == "hesc":
        return html_escape(op[1])
    if k == "repr":
        return repr(op[1])
    if k == "ascii":
        return ascii(op[1])
    if k in FMT_OPS:
        return from_real_frags(to_formatted_text(fmt_object(op, objs)))
    if k == "snew":
        objs[op[1]] = (HTML if op[2] == "html" else ANSI)(sess_template(op))
        return "ok"
    if k == "sget":
        if op[1] not in objs:
            raise NoObject()
        return from_real_frags(to_formatted_text(objs[op[1]]))
    if k == "split":
        return [from_real_frags(l) for l in split_lines(to_real_frags(op[1]))]
    if k == "explode":
        return from_real_frags(explode_text_fragments(to_real_frags(op[1])))
    if k == "text":
        return fragment_list_to_text(to_real_frags(op[1]))
    if k == "len":
        return fragment_list_len(to_real_frags(op[1]))
    if k == "width":
        return fragment_list_width(to_real_frags(op[1]))
    if k == "tft":
        return from_real_frags(to_formatted_text(real_any(op[2]), style=op[1]))
    if k == "plain":
        return to_plain_text(real_any(op[1]))
    if k == "templ":
        return from_real_frags(to_formatted_text(Template(op[1]).format(*[real_any(v) for v in op[2]])))
    if k == "merge":
        return from_real_frags(to_formatted_text(merge_formatted_text([real_any(v) for v in op[1]])))
    if k == "el":
        return run_el(op[1], op[2])
    if k == "tfta":
        return from_real_frags(to_formatted_text(real_anyv(op[3]), style=op[1], auto_convert=bool(op[2])))
    if k == "pyg":
        return from_real_frags(to_formatted_text(PygmentsTokens([(tuple(n), t) for n, t in op[1]])))
    raise ValueError(op)


def enc_result(op, r):
    k = op[0]
    if k in ("aesc", "hesc", "text", "plain", "repr", "ascii"):
        return enc_str(r)
    if k in ("len", "width"):
        return str(r)
    if k == "snew":
        return "ok"
    if k == "el":
        return enc_frags(r[0]) + " " + " ".join([str(len(r[1]))] + ["1" if e else "0" for e in r[1]])
    if k == "split":
        return " ".join([str(len(r))] + [enc_frags(l) for l in r])
    return enc_frags(r)


def eval_case(case):
    """One process image: run the ops of the case in order on the real code (the objects created by
    `snew` live until the end of the case), then judge every op with the property oracle.  For the
    session ops the oracle judges the result obtained in sequence."""
    objs = {}
    lines = ["ok"]          # reply to `reset`
    captured = []
    for op in case["ops"]:
        try:
            if op[0] in ("sfmt", "smod", "smod1"):
                o = fmt_object(op, objs)
                captured.append(("ok", o))
                r = from_real_frags(to_formatted_text(o))
            else:
                r = run_op(op, objs)
                captured.append(("val", r) if op[0] == "sget" else None)
            lines.append(enc_result(op, r))
        except Exception as e:
            captured.append(("exc", e))
            lines.append("err:" + type(e).__name__)
    try:
        viol = oracle_case(case, captured)
    except Exception as e:
        import traceback
        viol = [{"signature": "oracle-exception|" + type(e).__name__, "msg": traceback.format_exc()[-1500:]}]
    return lines, viol


# Every case is evaluated in its own process image: a fork of a freshly started interpreter (a
# "zygote") that has imported the library and never calls it.  Module-level state of the library
# (a cache, a memo, a counter) that one case leaves behind can then neither hide nor fake a failure
# of another case, and a failing case replays alone.  The zygotes are small, so forking them is
# cheap (forking the harness process itself, which holds all cases, costs 5-50 ms here).
#
# core.py evaluates case by case (SERIAL): on the first request for a case produced by `cases()`
# the plugin evaluates ALL cases produced so far, in batches over several zygotes in parallel, and
# answers from the stored results; cases that did not come from `cases()` (corpus, shrinking,
# replay) go to a zygote one at a time.  VERIF_C18_NOFORK=1 evaluates in-process (debugging).
SERIAL = True
_REG = []           # cases in generation order
_IDX = {}           # id(case) -> index in _REG   (the objects stay alive in _REG)
_RES = {}           # index -> ("ok", (lines, violations)) | ("exc", message)
_LAST = [None, None]
_OWN = []           # the zygote of this process for single requests
BATCH = 24


def _read_exact(fd, n):
    buf = b""
    while len(buf) < n:
        chunk = os.read(fd, n - len(buf))
        if not chunk:
            raise EOFError
        buf += chunk
    return buf


def _write_frame(fd, data):
    data = len(data).to_bytes(4, "little") + data
    while data:
        n = os.write(fd, data)
        data = data[n:]


def _read_frame(fd):
    n = int.from_bytes(_read_exact(fd, 4), "little")
    return _read_exact(fd, n)


def zygote_main(rfd, wfd):
    """runs in a freshly started interpreter: a request is a list of cases; one forked child per
    case, one response frame per case"""
    while True:
        try:
            batch = pickle.loads(_read_frame(rfd))
        except EOFError:
            os._exit(0)
        for case in batch:
            pid = os.fork()
            if pid == 0:
                try:
                    try:
                        import signal
                        signal.alarm(600)       # a case that never returns kills only its own process
                        payload = ("ok", eval_case(case))
                    except BaseException as e:      # noqa: BLE001
                        payload = ("exc", type(e).__name__ + ": " + str(e)[:300])
                    _write_frame(wfd, pickle.dumps(payload))
                finally:
                    os._exit(0)
            _, status = os.waitpid(pid, 0)
            if status != 0:
                _write_frame(wfd, pickle.dumps(("exc", f"child exited with status {status}")))


class _Zygote:
    def __init__(self):
        import subprocess
        r1, w1 = os.pipe()
        r2, w2 = os.pipe()
        self.proc = subprocess.Popen([sys.executable, os.path.abspath(__file__), "--zygote", str(r1), str(w2)],
                                     pass_fds=(r1, w2), stdin=subprocess.DEVNULL)
        os.close(r1)
        os.close(w2)
        self.w, self.r = w1, r2

    def run(self, batch):
        _write_frame(self.w, pickle.dumps(batch))
        return [pickle.loads(_read_frame(self.r)) for _ in batch]

    def close(self):
        for fd in (self.w, self.r):
            try:
                os.close(fd)
            except OSError:
                pass
        try:
            self.proc.wait(timeout=10)
        except Exception:
            self.proc.kill()


def _bulk():
    """evaluate every registered case that has no result yet"""
    import queue
    import threading
    todo = [i for i in range(len(_REG)) if i not in _RES]
    if not todo:
        return
    procs = int(os.environ.get("VERIF_PROCS", "0")) or min(16, os.cpu_count() or 4)
    q = queue.Queue()
    for j in range(0, len(todo), BATCH):
        q.put(todo[j:j + BATCH])

    def worker():
        z = None
        try:
            z = _Zygote()
            while True:
                try:
                    b = q.get_nowait()
                except queue.Empty:
                    return
                try:
                    for i, payload in zip(b, z.run([_REG[i] for i in b])):
                        _RES[i] = payload
                except Exception as e:      # the zygote died: report on every case of the batch
                    for i in b:
                        _RES.setdefault(i, ("exc", f"zygote failed: {type(e).__name__}: {e}"))
                    z.close()
                    z = _Zygote()
        finally:
            if z is not None:
                z.close()

    threads = [threading.Thread(target=worker) for _ in range(max(1, min(procs, q.qsize())))]
    for t in threads:
        t.start()
    for t in threads:
        t.join()


def evaluate(case):
    if os.environ.get("VERIF_C18_NOFORK") == "1":
        return eval_case(case)
    i = _IDX.get(id(case))
    if i is not None and _REG[i] is case:
        if i not in _RES:
            _bulk()
        payload = _RES[i]
    else:
        key = json.dumps(case, sort_keys=True, default=str)
        if _LAST[0] == key:
            payload = _LAST[1]
        else:
            if not _OWN or _OWN[0].proc.poll() is not None:
                _OWN[:] = [_Zygote()]
            payload = _OWN[0].run([case])[0]
            _LAST[0], _LAST[1] = key, payload
    if payload[0] != "ok":
        raise RuntimeError("C18 child: " + payload[1])
    return payload[1]


def impl_lines(case):
    return evaluate(case)[0]


# ------------------------------------------------------------------ oracle (independent of the model)
_TOKEN = re.compile(
    "\x01[^\x02]*\x02(?P<lit1>\x01)?"               # zero-width block; a SOH right after it is literal
    "|(?:\x1b\\[|\x9b)(?P<params>[0-9;]*)(?P<final>[^0-9;])"   # CSI … final
    "|\x1b[^\\[]"                                    # ESC + one other character
    "|(?P<ch>[^\x1b\x9b\x01])", re.S)


def visible_reference(s):
    """The visible text an ANSI input must produce: the input minus recognised control sequences,
    cursor-forward (CSI n C) standing for n spaces.  Written from the documentation of the format,
    with a regex, not from the parser."""
    out, pos = [], 0
    while pos < len(s):
        m = _TOKEN.match(s, pos)
        if not m:
            break           # truncated sequence at the end of the input: nothing visible
        if m.group("ch") is not None:
            out.append(m.group("ch"))
        elif m.group("lit1"):
            out.append("\x01")
        elif m.group("final") == "C":
            first = m.group("params").split(";")[0]
            out.append(" " * min(int(first or 0), 9999))
        pos = m.end()
    return "".join(out)


INTRODUCERS = (ESC, CSI8, SOH)


def expected_escape(s):
    return "".join("?" if c in (ESC, CSI8, SOH, STX, BS) else c for c in s)


def ansi_frags(s):
    return [tuple(f) for f in to_formatted_text(ANSI(s))]


def at_ground(prefix):
    """observational test on the real parser: is it at the top of its loop after `prefix`?
    (a probe character is emitted as one fragment and a probe zero-width block is recognised)"""
    base = ansi_frags(prefix)
    p1 = ansi_frags(prefix + "X")
    if len(p1) != len(base) + 1 or p1[:len(base)] != base or p1[-1][1] != "X":
        return None
    p2 = ansi_frags(prefix + "\x01q\x02")
    if p2 != base + [("[ZeroWidthEscape]", "q")]:
        return None
    return p1[-1][0]    # the style current at the hole


def py_format_value(v, spec, percent, conv="s"):
    if percent:
        return ("%" + (spec or "") + (conv or "s")) % (v,)
    return format(v, spec or "")


NUM_CONVS = "diuoxXeEfFgG"


def percent_oracle_view(kind, items, vals):
    """For the oracles, a %-template is seen as a template of plain string holes: per hole the text
    that has to appear (before escaping), the width/precision that applies to it and the conversion.
    None = nothing is claimed beyond the correspondence (the call has to raise, or the conversion
    shows a repr of the escaped text).  Also says whether raising TypeError / ValueError is what the
    code as it is does for this template (a numeric conversion always sees a string)."""
    may_raise = any(it[0] == "raw" for it in items)
    holes = [it for it in items if it[0] == "hole"]
    view, used = [], []
    ok = not may_raise and vals is not None
    n = 0
    for it in items:
        if it[0] != "hole":
            view.append(it)
            continue
        conv = it[3] if len(it) > 3 and it[3] else "s"
        v = real_val(vals[n]) if ok and n < len(vals) else None
        n += 1
        if conv in NUM_CONVS:
            may_raise = True
            if ok and isinstance(v, (int, float)):
                try:
                    used.append(("%" + (it[2] or "") + conv) % (v,))
                    view.append(["hole", None, None, "s"])
                    continue
                except Exception:
                    pass
            ok = False
        elif conv == "c":
            may_raise = True
            sv = str(v)
            if ok and len(sv) == 1 and len(html_escape(sv) if kind == "html" else ansi_escape(sv)) == 1:
                used.append(sv)
                view.append(["hole", None, (it[2] or "").split(".")[0], "s"])
            else:
                ok = False
        elif conv in "ra":
            if ok and kind == "ansi":
                used.append(str(v))
                view.append(["hole", None, it[2], conv])
            else:
                ok = False
        else:
            if ok:
                used.append(str(v))
            view.append(["hole", None, it[2], "s"])
    return (view if ok else None), (used if ok else None), may_raise


def resolve_holes(items, percent, args, kw):
    """per hole the value CPython's rules select (automatic / numbered / keyword fields), or None when
    the call is an error by these rules (errors are not part of the property)"""
    holes = [it for it in items if it[0] == "hole"]
    if percent:
        if any(it[0] == "raw" for it in items):
            return None
        return list(args) if len(holes) == len(args) else None
    idxs = [h[1] for h in holes]
    if any(i is None for i in idxs) and any(isinstance(i, int) for i in idxs):
        return None
    out, n = [], 0
    for h in holes:
        key = h[1]
        if key is None:
            key, n = n, n + 1
        if isinstance(key, int):
            if key >= len(args):
                return None
            out.append(args[key])
        else:
            if key not in kw:
                return None
            out.append(kw[key])
    return out


def hole_text(v, hole, percent):
    """the text that has to appear for this hole, before padding: the value itself, converted as the
    field asks (!r !s !a; str() of a non-str value).  None = format(non-str, non-empty spec), the
    type's own mini-language: not claimed."""
    rv = real_val(v)
    conv = hole[3] if len(hole) > 3 else None
    if percent:
        return str(rv)
    if conv == "r":
        return repr(rv)
    if conv == "s":
        return str(rv)
    if conv == "a":
        return ascii(rv)
    if isinstance(rv, str):
        return rv
    return str(rv) if hole[2] in (None, "") else None


def make_call(op, captured=None, tmpl=None):
    """a format / % call in the form the oracles use; `tmpl` = (kind, items, style) of the session
    object, `captured` = the result obtained when the session ran"""
    k = op[0]
    args, kw = op_args(op)
    if k in ("sfmt", "smod", "smod1"):
        kind, items, style = tmpl
        percent = k != "sfmt"
        if (style == "p") != percent:
            return None     # a format template used with % (or the reverse): nothing is claimed

        def run():
            if captured[0] == "exc":
                raise captured[1]
            return captured[1]
    else:
        kind = "ansi" if k.startswith("a") else "html"
        items = op[1]
        percent = k not in ("afmt", "hfmt")

        def run():
            return fmt_object(op)
    site = ("ANSI" if kind == "ansi" else "HTML") + (".__mod__" if percent else ".format")
    template = (render_percent_template if percent else render_format_template)(items)
    holes = [it for it in items if it[0] == "hole"]
    vals = resolve_holes(items, percent, args, kw)
    used = None
    may_raise = False
    if percent:
        view, used, may_raise = percent_oracle_view(kind, items, vals)
        if view is not None:
            items = view
            holes = [it for it in items if it[0] == "hole"]
    elif vals is not None:
        used = [hole_text(v, h, percent) for v, h in zip(vals, holes)]
        if any(u is None for u in used):
            used = None
    return {"kind": kind, "items": items, "percent": percent, "site": site, "holes": holes, "used": used,
            "run": run, "op": op, "template": template, "may_raise": may_raise}


def oracle_ansi_call(call, viol):
    items, percent, site, used, op = call["items"], call["percent"], call["site"], call["used"], call["op"]
    if used is None:
        return
    try:
        got = [(f[0], f[1]) for f in to_formatted_text(call["run"]())]
    except Exception as e:
        if call.get("may_raise") and isinstance(e, (TypeError, ValueError)):
            return      # a numeric / %c conversion on the escaped string: the call may raise
        viol.append({"signature": f"{site} | raises", "msg": f"{type(e).__name__}: {e} op={op!r}"})
        return
    # the template's own output, and the splice points
    lits = ""
    base_prev = []
    expected = []
    n = 0
    for it in items:
        if it[0] == "lit":
            lits += it[1]
            cur = ansi_frags(lits)
            expected += cur[len(base_prev):]
            base_prev = cur
        else:
            style = at_ground(lits)
            if style is None:
                return      # hole inside a template control sequence: template-controlled, not claimed
            v = used[n]
            n += 1
            if percent:
                e = py_format_value(expected_escape(v), it[2], True, it[3] if len(it) > 3 else "s")
            else:
                e = expected_escape(py_format_value(v, it[2], False))
            expected += [(style, c) for c in e]
    if got != expected:
        sig = "value not inert"
        for v in used:
            if CSI8 in v:
                sig = "8-bit CSI passes"
            elif SOH in v or STX in v:
                sig = "zero-width markers pass"
        viol.append({"signature": f"{site} | {sig}",
                     "msg": f"interpolated value changed more than its own characters: op={op!r} "
                            f"template={call['template']!r} got={got!r} expected={expected!r}"})


def explode_py(frags):
    return [(f[0], c, f[2]) for f in frags for c in f[1]]


def oracle_op(op, viol):
    k = op[0]

    def bad(site, cond, msg):
        viol.append({"signature": f"{site} | {cond}", "msg": f"{msg}: op={op!r}"})

    if k == "ansi":
        s = op[1]
        try:
            fr = ansi_frags(s)
        except Exception as e:
            cond = "raises"
            if isinstance(e, ValueError):
                cond = "non-ASCII digit in CSI parameters"
                lim = sys.get_int_max_str_digits() if hasattr(sys, "get_int_max_str_digits") else 0
                if lim and re.search("[0-9]{%d}" % (lim + 1), s) and "Exceeds the limit" in str(e):
                    cond = "CSI parameter longer than the int-string-conversion limit"
            bad("ANSI.__init__", cond, f"{type(e).__name__}: {str(e)[:120]}")
            return
        for st, tx in fr:
            if "[ZeroWidthEscape]" not in st and len(tx) != 1:
                bad("ANSI.__init__", "fragment shape", "visible fragment is not one character")
        text = fragment_list_to_text(fr)
        if text != visible_reference(s):
            bad("ANSI.__init__", "visible text", f"plain text {text!r} != input minus control sequences "
                                                 f"{visible_reference(s)!r}")
        if to_plain_text(ANSI(s)) != text:
            bad("to_plain_text", "ANSI", "to_plain_text != fragment_list_to_text")
        if not any(c in s for c in INTRODUCERS) and fr != [("", c) for c in s]:
            bad("ANSI.__init__", "plain string", "a string without introducers is not reproduced verbatim")
    elif k in ("afmt", "amod", "amod1"):
        oracle_ansi_call(make_call(op), viol)
    elif k in ("repr", "ascii"):
        import ast
        r = run_op(op)
        if ast.literal_eval(r) != op[1]:
            bad("repr", "round trip", f"{r!r} does not evaluate to the value")
    elif k == "aesc":
        r = ansi_escape(op[1])
        if len(r) != len(op[1]) or any(c in r for c in (ESC, CSI8, SOH, STX)):
            bad("ansi_escape", "introducer left", f"escaped value {r!r} still contains an introducer")
        if any(a != b and b != "?" for a, b in zip(op[1], r)):
            bad("ansi_escape", "other character changed", f"{r!r}")
        for extra in ("", "\ud800\udfff"):
            v = op[1] + extra
            fr = ansi_frags(ansi_escape(v))
            if fr != [("", "?" if c in (ESC, CSI8, SOH, STX, BS) else c) for c in v]:
                bad("ansi_escape", "parse(escape(v)) != v", f"value={v!r} got={fr!r}")
                break
    elif k == "hesc":
        r = html_escape(op[1])
        if any(c in r for c in "<>\"'\r") or re.search(r"&(?!amp;|lt;|gt;|quot;|#39;|#13;)", r) \
                or XML_ILLEGAL.search(r):
            bad("html_escape", "metacharacter left", f"{r!r}")
        import html as _html
        want = XML_ILLEGAL.sub("?", op[1])
        if _html.unescape(r) != want:
            bad("html_escape", "round trip", f"{r!r} does not decode to the value")
        # the escaped value, parsed, shows the value (all code points; a Python str can also hold
        # lone surrogates, which the Lean model cannot represent: probed here on the real code only)
        for extra in ("", "\ud800", "\udfff", "\ufffe\uffff"):
            v = op[1] + extra
            try:
                got = to_plain_text(HTML(html_escape(v)))
            except Exception as e:
                bad("html_escape", "escaped value rejected by the parser", f"{type(e).__name__}: {e} value={v!r}")
                break
            if got != XML_ILLEGAL.sub("?", v):
                bad("html_escape", "parse(escape(v)) != v", f"value={v!r} got={got!r}")
                break
    elif k in ("split", "explode", "text", "len", "width"):
        frags = [tuple(f) for f in op[1]]
        real = to_real_frags(op[1])
        lines = [from_real_frags(l) for l in split_lines(real)]
        ex = [tuple(f) for f in from_real_frags(explode_text_fragments(real))]
        if ex != explode_py(frags):
            bad("explode_text_fragments", "characters", "explode is not the per-character list")
        # each line holds no newline; exploded lines = the exploded input cut at its newlines
        want, cur = [], []
        for f in explode_py(frags):
            if f[1] == "\n":
                want.append(cur)
                cur = []
            else:
                cur.append(f)
        want.append(cur)
        got = [explode_py([tuple(f) for f in l]) for l in lines]
        if got != want:
            bad("split_lines", "lines", f"lines {lines!r} are not the input cut at its newlines")
        # re-joining with newlines is the identity on the text
        joined = "\n".join("".join(f[1] for f in l) for l in lines)
        if joined != "".join(f[1] for f in frags):
            bad("split_lines", "join identity", "re-joined text differs")
        vis = [f for f in frags if "[ZeroWidthEscape]" not in f[0]]
        if fragment_list_to_text(real) != "".join(f[1] for f in vis):
            bad("fragment_list_to_text", "concat", "text is not the concatenation of visible fragments")
        if fragment_list_len(real) != len(fragment_list_to_text(real)):
            bad("fragment_list_len", "length", "len != len(text)")
        if fragment_list_len(explode_text_fragments(real)) != fragment_list_len(real):
            bad("fragment_list_len", "explode", "len changes under explode")
    elif k == "tft":
        try:
            r = run_op(op)
        except Exception as e:
            bad("to_formatted_text", "raises", f"{type(e).__name__}: {e}")
            return
        base = run_op(["tft", "", op[2]])
        if [f[1] for f in r] != [f[1] for f in base]:
            bad("to_formatted_text", "style argument changes text", "")
        if op[1] and any(not f[0].startswith(op[1] + " ") for f in r):
            bad("to_formatted_text", "style prefix", "")
    elif k == "plain":
        v = op[1]
        r = run_op(op)
        if v[1] == "str" and r != v[2]:
            bad("to_plain_text", "str", "plain text of a str is not the str")
        if v[1] == "ansi" and r != visible_reference(v[2]):
            bad("to_plain_text", "ANSI", "plain text != input minus control sequences")
    elif k in ("templ", "merge"):
        vals = op[2] if k == "templ" else op[1]
        try:
            r = run_op(op)
        except AssertionError:
            return
        texts = [to_plain_text(real_any(v)) for v in vals]
        if k == "merge":
            want = "".join(texts)
        else:
            parts = op[1].split("{}")
            want = "".join(p + t for p, t in zip(parts, texts)) + parts[-1]
        if fragment_list_to_text(to_real_frags(r)) != want:
            bad("Template.format" if k == "templ" else "merge_formatted_text", "text",
                "plain text is not the interleaving of the parts")
    elif k in ("html", "hfmt", "hmod", "hmod1"):
        oracle_html(op, viol)
    elif k == "el":
        # the documented contract of an exploded list: every string is exactly one character, also
        # after the list's own mutators (the inherited `+=` is outside it, see the known observation)
        own = [o for o in op[2] if o[0] != "IA"]
        cut = next((i for i, o in enumerate(op[2]) if o[0] == "IA"), len(op[2]))
        fr, _ = run_el(op[1], op[2][:cut])
        if any(len(f[1]) != 1 for f in fr):
            bad("_ExplodedList", "fragment longer than one character", f"{fr!r}")
        # append / extend add exactly the characters of the argument
        for i, o in enumerate(op[2][:cut]):
            if o[0] in ("A", "E") and (o[0] == "A" or o[1][0] == "P"):
                before, _ = run_el(op[1], op[2][:i])
                after, _ = run_el(op[1], op[2][:i + 1])
                add = [o[1]] if o[0] == "A" else o[1][1]
                if [tuple(f) for f in after] != [tuple(f) for f in before] + explode_py([tuple(f) for f in add]):
                    bad("_ExplodedList", "append/extend content", f"{after!r}")
    elif k == "pyg":
        r = run_op(op)
        if "".join(f[1] for f in r) != "".join(t for _, t in op[1]) or len(r) != len(op[1]):
            bad("PygmentsTokens", "text", "texts of the tokens are not preserved")
    elif k == "tfta":
        d, kind, payload = op[3]
        if kind == "other" and d == 0 and op[2]:
            r = run_op(op)
            if [f[1] for f in r] != [str(real_val(payload))]:
                bad("to_formatted_text", "auto_convert", f"{r!r}")


XML_ILLEGAL = re.compile("[^\t\n\r\x20-\ud7ff\ue000-\ufffd\U00010000-\U0010ffff]")


def html_cells(h):
    return [(st, c) for st, tx in to_formatted_text(h) for c in tx]


def oracle_html(op, viol):
    import html as _html
    import xml.etree.ElementTree as ET
    k = op[0]
    if k == "html":
        # markup -> fragments -> plain text keeps the character data, in order (reference: a
        # different DOM builder)
        try:
            h = HTML(op[1])
        except Exception:
            return
        try:
            want = "".join(ET.fromstring("<r>" + op[1] + "</r>").itertext())
        except Exception:
            return
        if to_plain_text(h) != want:
            viol.append({"signature": "HTML.__init__ | character data",
                         "msg": f"plain text {to_plain_text(h)!r} != character data {want!r}: op={op!r}"})
        return
    oracle_html_call(make_call(op), viol)


def oracle_html_call(call, viol):
    import html as _html
    if call["used"] is None:
        return
    items, percent, site, holes, used, op = (call["items"], call["percent"], call["site"], call["holes"],
                                             call["used"], call["op"])

    def fill(subst):
        n = 0
        parts = []
        for it in items:
            if it[0] == "lit":
                parts.append(it[1])
            else:
                parts.append(subst(n, it))
                n += 1
        return "".join(parts)

    try:
        HTML(call["template"])
    except Exception:
        return      # the template itself is not acceptable: nothing is claimed
    wp = percent and any((holes[i][2] or "").strip("-") and html_escape(used[i]) != used[i]
                         for i in range(len(holes)))

    # template-dependent corners: the literal text right before / after a hole
    lit_before, lit_after = [], []
    for j, it in enumerate(items):
        if it[0] == "hole":
            lit_before.append(items[j - 1][1] if j > 0 and items[j - 1][0] == "lit" else "")
            lit_after.append(items[j + 1][1] if j + 1 < len(items) and items[j + 1][0] == "lit" else "")

    # template-dependent corners, found on the characters with their provenance (L = template
    # literal, V = interpolated value; a value can never contribute '>' or '<': they are escaped)
    prov = []
    n_ = 0
    for j, it in enumerate(items):
        if it[0] == "lit":
            prov += [(c, "L", j) for c in it[1]]
        else:
            prov += [(c, "V", j) for c in py_format_value(used[n_], it[2], percent) if c not in "<>&"]
            n_ += 1
    # a literal CR that ends a template part, directly followed by a LF from the value or (across
    # an empty value) from the next template part
    cr_lf = any(prov[i][:2] == ("\r", "L") and prov[i + 1][0] == "\n" and prov[i + 1][2] != prov[i][2]
                for i in range(len(prov) - 1))
    rbr = any(prov[i][0] == "]" and prov[i + 1][0] == "]" and prov[i + 2][:2] == (">", "L")
              for i in range(len(prov) - 2))

    def classify(default, raised=False):
        if rbr and raised:
            return "HTML.format | value ending in ] before a literal >"
        if cr_lf:
            return "HTML.format | literal CR before the hole merges with a leading LF of the value"
        if wp:
            return "HTML.__mod__ | width or precision counts the escaped characters"
        if raised and any(XML_ILLEGAL.search(v) for v in used):
            return "HTML.format | XML-illegal character in value"
        return default

    sent = [chr(0xE000 + i) for i in range(len(holes))]
    try:
        pf = html_cells(HTML(fill(lambda n, it: sent[n])))
        text_holes = sorted(c for _, c in pf if c in sent) == sorted(sent)
    except Exception:
        pf, text_holes = None, False

    # reference: format first, then escape with the standard library (both kinds of quotes), CR as
    # a character reference, characters XML cannot carry replaced
    def ref_piece(n, it):
        t = XML_ILLEGAL.sub("?", py_format_value(used[n], it[2], percent))
        return _html.escape(t, quote=True).replace("\r", "&#13;")

    try:
        ideal = html_cells(HTML(fill(ref_piece)))
        ideal_exc = None
    except Exception as e:
        ideal, ideal_exc = None, type(e).__name__
    try:
        got = html_cells(call["run"]())
    except Exception as e:
        name = type(e).__name__
        if call.get("may_raise") and name in ("TypeError", "ValueError") and "attribute contains a space" not in str(e):
            return      # a numeric / %c conversion on the escaped string: the call may raise
        if name != ideal_exc or text_holes:
            # the known corners are all rejections by the XML parser; any other exception is its own class
            sig = classify(f"{site} | raises", True) if name == "ExpatError" else f"{site} | raises {name}"
            viol.append({"signature": sig, "msg": f"{name}: {e} op={op!r} template={call['template']!r}"})
        return
    # a value in an attribute position (fg= / bg= / color=) may select ONE style word, as the template
    # asks, or be rejected (ValueError); it can never add style words of its own.  Independent of any
    # reference parse of the value: the style words of the result must be the style words the template
    # shows with a neutral sentinel in each hole, with the whole value in place of the sentinel.
    if pf is not None and not wp:
        whole = [XML_ILLEGAL.sub("?", py_format_value(used[i], holes[i][2], percent)) for i in range(len(holes))]

        def subst(word):
            for i, sc in enumerate(sent):
                word = word.replace(sc, whole[i])
            return word

        # (an empty value is not a word: `if fg:` then shows what the template has underneath)
        try:
            neutral = html_cells(HTML(fill(lambda n, it: sent[n] if whole[n] else "")))
        except Exception:
            neutral = None
        # (words as the style machinery sees them: str.split(), i.e. any white space separates)
        allowed = {subst(w) for st, _ in (neutral or []) for w in st.split()}
        foreign = sorted({w for st, _ in got for w in st.split() if w and w not in allowed})
        if neutral is not None and foreign and any(sc in st for st, _ in neutral for sc in sent):
            viol.append({"signature": f"{site} | interpolated value adds style words",
                         "msg": f"style words {foreign!r} come from the interpolated value, not from the template: "
                                f"op={op!r} template={call['template']!r} got={got!r}"})
            return
    if ideal_exc is not None:
        dflt = f"{site} | value not inert"
        if any("'" in v for v in used):
            dflt = "HTML.format | apostrophe in value closes a single-quoted attribute"
        viol.append({"signature": classify(dflt),
                     "msg": f"reference raises {ideal_exc}, real code returns {got!r}: op={op!r}"})
        return
    if got != ideal:
        sig = f"{site} | value not inert"
        crn = [(st, "\n" if c == "\r" else c) for st, c in ideal]
        if any("\r" in v for v in used) and [f for f in crn] == [(st, c) for st, c in got] + [] and got != ideal:
            sig = "HTML.format | carriage return in value becomes newline"
        elif any("'" in v for v in used):
            sig = "HTML.format | apostrophe in value closes a single-quoted attribute"
        viol.append({"signature": classify(sig), "msg": f"{site}: op={op!r} got={got!r} reference={ideal!r}"})
        return
    # independent of any escaper: with a private-use sentinel in every hole the template shows
    # where (and in which style) each hole sits; if all holes surface as text, the result must be
    # that output with the value's characters in place of the sentinel
    if not text_holes or wp:
        return
    expected = []
    for st, c in pf:
        if c in sent:
            i = sent.index(c)
            e = XML_ILLEGAL.sub("?", py_format_value(used[i], holes[i][2], percent))
            expected += [(st, ch) for ch in e]
        else:
            expected.append((st, c))
    if got != expected:
        viol.append({"signature": classify(f"{site} | value not inert"),
                     "msg": f"op={op!r} got={got!r} expected={expected!r}"})


def ET_text(markup):
    """character data of a markup string by a different DOM builder (None: not well-formed)"""
    import xml.etree.ElementTree as ET
    try:
        return "".join(ET.fromstring("<r>" + markup + "</r>").itertext())
    except Exception:
        return None


def oracle_case(case, captured):
    """the property on every op of the case (in the process image the ops ran in)"""
    v = []
    tmpls = {}
    for i, op in enumerate(case["ops"]):
        k = op[0]
        if k == "snew":
            if captured[i] is None:         # construction succeeded
                tmpls[op[1]] = (op[2], op[3], op[4])
            else:
                tmpls.pop(op[1], None)
        elif k in ("sfmt", "smod", "smod1"):
            if op[1] not in tmpls:
                continue
            call = make_call(op, captured[i], tmpls[op[1]])
            if call is not None:
                (oracle_ansi_call if call["kind"] == "ansi" else oracle_html_call)(call, v)
        elif k == "sget":
            # an object that was formatted / read before still shows its own template text
            if op[1] in tmpls and captured[i][0] == "val":
                kind, items, style = tmpls[op[1]]
                text = sess_template(["snew", op[1], kind, items, style])
                want = ET_text(text) if kind == "html" else visible_reference(text)
                got = "".join(f[1] for f in captured[i][1] if "[ZeroWidthEscape]" not in f[0])
                if want is not None and got != want:
                    v.append({"signature": "to_formatted_text | object changed by earlier calls",
                              "msg": f"op={op!r} template={text!r} text={got!r} expected={want!r}"})
        else:
            oracle_op(op, v)
    seen, out = set(), []
    for x in v:
        if x["signature"] not in seen:
            seen.add(x["signature"])
            out.append(x)
    return out


def oracle(case):
    return evaluate(case)[1]


# ------------------------------------------------------------------ generators
ANSI_ALPHA = [ESC, CSI8, "[", "1", ";", "m", "C", SOH, STX, "a", "²"]
ANSI_ALPHA_SMALL = [ESC, "[", "3", ";", "m", SOH, STX]
VALUE_ALPHA = ["a", " ", "<", ">", "&", '"', ESC, CSI8, "[", "1", "m", SOH, STX, BS, "{", "%"]
VALUE_EXTRA = ["}", "s", ":", "!", "3", ";", "C", "'", "世", "\n", "\t", "é", "\x7f", "\x85"]

# complete tokens (leave the parser at ground) and incomplete ones
TOKENS_COMPLETE = ["a", "b ", "{", "}", "%", "{}", "%s", ESC + "[1m", ESC + "[31m", ESC + "[0m", CSI8 + "4m",
                   ESC + "[38;5;9m", ESC + "[48;2;1;2;3m", ESC + "[2C", SOH + "zw" + STX + "x", ESC + "Z",
                   ESC + "[5n", "\n", "世", ESC + "[;m", ESC + "[39;49m"]
TOKENS_INCOMPLETE = [ESC, ESC + "[", ESC + "[3", CSI8 + "1;", SOH + "q", SOH + "q" + STX, ESC + "[38;5;"]

FORMAT_SPECS = [None, "", "s", "5", ">4", "^5", "*<3", ".1", "6.2", "x^4.1s", "<", "\x1b>3", "\x9b^3", "\x01<2",
                "0<3", "1"]
PERCENT_SPECS = [None, "", "3", "-3", ".1", "4.1", "-4.2", "."]


def chunked(ops, n=60):
    for i in range(0, len(ops), n):
        yield {"ops": ops[i:i + n]}


def int_limit_cases():
    """control-sequence parameters around the interpreter's int-string-conversion limit"""
    lim = sys.get_int_max_str_digits() if hasattr(sys, "get_int_max_str_digits") else 0
    lim = lim or 4300
    ops = []
    for n in (lim - 1, lim, lim + 1, lim + 700):
        ops.append(["ansi", ESC + "[" + "1" * n + "mX"])
        ops.append(["ansi", CSI8 + "0" * n + "1;4mX"])
        ops.append(["ansi", ESC + "[31;" + "0" * (n - 1) + "2CX"])
        ops.append(["ansi", "a" + ESC + "[" + "7" * n])              # unterminated: int() is never called
        ops.append(["ansi", "9" * n + ESC + "[1m" + "9" * n])        # digits outside a control sequence
        ops.append(["ansi", SOH + "5" * n + STX + "x"])
    return ops


def sgr_cases():
    ops = []
    for n in range(0, 111):
        ops.append(["ansi", f"{ESC}[{n}mX"])
        ops.append(["ansi", f"{ESC}[1;{n};4mX{ESC}[{n}mY"])
    for n in list(range(0, 20)) + [100, 231, 232, 252, 253, 254, 255, 256, 300, 9999, 10000, 123456789012345678901]:
        ops.append(["ansi", f"{ESC}[38;5;{n}mX{ESC}[48;5;{n}mY"])
        ops.append(["ansi", f"{CSI8}38;2;{n};1;2mX{ESC}[48;2;3;{n};{n}mY{ESC}[{n}CZ"])
    for tail in ["38", "38;5", "38;2", "38;2;1", "38;2;1;2", "38;5;1;1", "38;2;1;2;3;4", "48;5", "48;2;1;2",
                 "38;7;1", "38;38;5;1", "38;5;38;5;1", "", ";", ";;", "0;1", "1;0", "1;;4", "38;2;38;2;1;2;3",
                 "38;5;2;2;3;4;5", "38;2;5;1;2", "30;40;90;100", "39;49", "1;3;4;5;6;7;8;9", "22;23;24;25;27;28;29",
                 "2", "21", "26", "10", "00", "01", "007", "38;5;007", "48;2;300;400;9999"]:
        ops.append(["ansi", f"{ESC}[1;3;4;5;7;8;9;31;41mA{ESC}[{tail}mB"])
        ops.append(["ansi", f"{ESC}[{tail}mB{ESC}[{tail}CQ"])
    return ops


def rand_ansi(rng, n):
    out = []
    for _ in range(n):
        r = rng.random()
        if r < 0.35:
            out.append(rng.choice(["a", "b", " ", "世", "\n", "[", "m", "1", ";", "C", "²", "{", "%"]))
        elif r < 0.6:
            params = ";".join(rng.choice(["", "0", "1", "3", "4", "7", "22", "31", "42", "38", "48", "5", "2", "90",
                                          "107", "255", "12345", "39", "49", "9"])
                              for _ in range(rng.randrange(0, 6)))
            out.append(rng.choice([ESC + "[", CSI8]) + params + rng.choice(["m", "m", "m", "C", "n", "H", "²", ESC, " "]))
        elif r < 0.7:
            out.append(SOH + "".join(rng.choice(["a", ESC, "[", SOH, "1"]) for _ in range(rng.randrange(0, 3))) + STX)
        elif r < 0.8:
            out.append(ESC + rng.choice(["a", ESC, "]", "(", SOH, CSI8]))
        else:
            out.append(rng.choice(ANSI_ALPHA))
    return "".join(out)


def rand_value(rng, maxlen=6):
    al = VALUE_ALPHA + VALUE_EXTRA
    return "".join(rng.choice(al) for _ in range(rng.randrange(0, maxlen + 1)))


def rand_template(rng, specs, allow_incomplete=True, explicit=False):
    items = []
    nholes = 0
    for _ in range(rng.randrange(1, 6)):
        if rng.random() < 0.45:
            idx = None
            if explicit:
                idx = rng.randrange(0, 3)
            items.append(["hole", idx, rng.choice(specs)])
            nholes += 1
        else:
            pool = TOKENS_COMPLETE
            if allow_incomplete and rng.random() < 0.15:
                pool = TOKENS_INCOMPLETE
            lit = "".join(rng.choice(pool) for _ in range(rng.randrange(1, 4)))
            if items and items[-1][0] == "lit":
                items[-1][1] += lit
            else:
                items.append(["lit", lit])
    return items, nholes


FIELD_NAMES = ["name", "x", "k_1", "msg"]
NONSTR_P = [{"none": 1}, {"list": ["<", "a"]}, {"list": []}, {"obj": ["<o&>", "R'\"" + ESC]}, {"uobj": ["u" + SOH, "<U>"]}]
NONSTR_N = [{"int": 0}, {"int": 1}, {"bool": True}, {"bool": False}, {"int": -12}, {"int": 10 ** 20}]


def decorate_holes(rng, items, mode):
    """give the holes of a format template their argument names and conversions:
    mode auto | explicit | kw | auto+kw | explicit+kw"""
    for it in items:
        if it[0] != "hole":
            continue
        while len(it) < 4:
            it.append(None)
        named = mode == "kw" or (mode.endswith("+kw") and rng.random() < 0.5)
        if named:
            it[1] = rng.choice(FIELD_NAMES)
        elif mode.startswith("explicit"):
            it[1] = rng.randrange(0, 3)
        else:
            it[1] = None
        if rng.random() < 0.25:
            it[3] = rng.choice(["r", "s", "a"])
    return items


def format_call_values(rng, items, value, nonstr=0.12):
    """positional and keyword values for a format template (mostly complete, sometimes one missing);
    numbers only where every field that could receive one has an empty spec or a conversion"""
    holes = [it for it in items if it[0] == "hole"]
    num_ok = all(h[2] in (None, "") or (len(h) > 3 and h[3]) for h in holes)

    def val():
        r = rng.random()
        if r < nonstr:
            return rng.choice(NONSTR_P + (NONSTR_N if num_ok else []))
        return value()

    npos = 0
    for h in holes:
        if h[1] is None:
            npos += 1
    if any(isinstance(h[1], int) for h in holes):
        npos = 3
    npos = max(0, npos + rng.choice([0, 0, 0, 0, 0, 0, 1, -1]))
    args = [val() for _ in range(npos)]
    names = sorted({h[1] for h in holes if isinstance(h[1], str)})
    kw = {n: val() for n in names}
    if names and rng.random() < 0.06:
        del kw[rng.choice(names)]
    if rng.random() < 0.1:
        kw["unused"] = val()
    return args, kw


HOLE_MODES = ["auto", "auto", "auto", "explicit", "kw", "kw", "auto+kw", "explicit+kw"]

# ---- % with mixed tuples: numbers under numeric conversions next to hostile strings
PCT_NUMBERS = [{"int": 3}, {"int": -1}, {"float": 1.5}, {"bool": True}, {"int": 65}]
PCT_HOSTILE = ["<i>x</i>", "&", "</b>", "<", "a", "'", ESC + "[1m", CSI8 + "4m", SOH + "z" + STX, "%d", "ab",
               {"obj": ["<o>", "R"]}, {"none": 1}]
PCT_CONVS = ["s", "s", "r", "a", "c", "d", "i", "f", "x", "e", "g", "u", "o", "X"]
PCT_RAW = ["%(a)s", "%*s", "%.*s", "%z", "%", "%5", "%5.", "%5%", "%-%", "%ls", "%lls", "%1$s", "%(a"]
PCT_MIXED_TEMPLATES = [
    # (literal before, [(spec, conv), ...] with literals between)
    [["lit", "<b>"], ["hole", None, None, "d"], ["lit", "</b> items: "], ["hole", None, None, "s"]],
    [["hole", None, None, "s"], ["lit", "<i>"], ["hole", None, "5.1", "f"], ["lit", "</i>"]],
    [["lit", "<u>"], ["hole", None, "-4", "x"], ["lit", "|"], ["hole", None, "3", "c"], ["lit", "|"],
     ["hole", None, None, "r"], ["lit", "</u>"]],
    [["hole", None, None, "c"], ["hole", None, ".3", "a"], ["hole", None, "05", "i"]],
    [["lit", "a%"], ["hole", None, "+", "e"], ["lit", "b"], ["hole", None, None, "s"], ["lit", "c"]],
]


def mixed_percent_cases(quick, rng):
    """`HTML % tuple` / `ANSI % tuple` with mixed components under every conversion"""
    ops = []

    def ansi_items(items):
        # the same holes between ANSI literals
        out = []
        for it in items:
            if it[0] == "lit":
                out.append(["lit", it[1].replace("<b>", ESC + "[1m").replace("</b>", ESC + "[0m")
                            .replace("<i>", ESC + "[3m").replace("</i>", ESC + "[23m")
                            .replace("<u>", CSI8 + "4m").replace("</u>", ESC + "[24m")])
            else:
                out.append(list(it))
        return out

    for t in PCT_MIXED_TEMPLATES:
        nh = sum(1 for it in t if it[0] == "hole")
        for num in PCT_NUMBERS:
            for hv in PCT_HOSTILE:
                # the number in every position, hostile strings elsewhere; and the reverse
                for pos in range(nh):
                    vals = [hv] * nh
                    vals[pos] = num
                    ops.append(["hmod", t, vals])
                    ops.append(["amod", ansi_items(t), vals])
                ops.append(["hmod", t, [num] * nh])
            ops.append(["hmod", t, [num] * (nh - 1)])
            ops.append(["amod", ansi_items(t), [num] * (nh + 1)])
    # every conversion alone, with width / precision, on a number and on strings
    for conv in sorted(set(PCT_CONVS)) + ["E", "F", "G"]:
        for spec in [None, "5", "-5", ".1", "6.2", "05", "+", " ", "#", "l", "h", "L"]:
            for v in [{"int": 3}, {"float": 2.5}, "a", "<", "ab", "", ESC, "é", {"obj": ["&", "R"]}]:
                items = [["lit", "<b>"], ["hole", None, spec, conv], ["lit", "</b>"]]
                ops.append(["hmod1", items, v] if not isinstance(v, dict) or "obj" in v else ["hmod", items, [v]])
                ops.append(["amod", [["lit", ESC + "[1m"], ["hole", None, spec, conv], ["lit", "x"]], [v]])
    for raw in PCT_RAW:
        for vals in ([], ["a"], ["<", {"int": 1}]):
            ops.append(["hmod", [["lit", "<b>"], ["hole", None, None, "s"], ["raw", raw], ["lit", "</b>"]], ["p"] + vals])
            ops.append(["hmod", [["raw", raw], ["lit", "x"]], vals])
            ops.append(["amod", [["lit", "x"], ["raw", raw]], vals])
    for _ in range(150 if quick else 6000):
        for kind in ("hmod", "amod"):
            items, nh = (rand_html_template if kind == "hmod" else rand_template)(rng, PERCENT_SPECS)
            for it in items:
                if it[0] == "hole":
                    while len(it) < 4:
                        it.append(None)
                    if rng.random() < 0.6:
                        it[3] = rng.choice(PCT_CONVS)
            if rng.random() < 0.08:
                items.insert(rng.randrange(len(items) + 1), ["raw", rng.choice(PCT_RAW)])
            vals = [rng.choice(PCT_NUMBERS) if rng.random() < 0.35 else rng.choice(PCT_HOSTILE + [rand_value(rng, 4)])
                    for _ in range(max(0, nh + rng.choice([0, 0, 0, 0, 1, -1])))]
            ops.append([kind, items, vals])
    yield from chunked(ops, 150)

# ---- sessions: several calls in one process on the same template text
SESS_VALUES = ["", "a", "b", "<", "&", "'", ESC, "{", "ab"]
SESS_NONSTR_PAIRS = [({"int": 1}, {"bool": True}), ({"bool": True}, {"int": 1}), ({"int": 0}, {"bool": False}),
                     ("1", {"int": 1}), ({"none": 1}, "None"), ({"list": ["<"]}, "['<']"),
                     ({"obj": ["p", "P"]}, {"obj": ["q", "Q"]}), ({"uobj": ["p", "P"]}, {"uobj": ["q", "Q"]}),
                     ({"list": ["a"]}, {"list": ["b"]})]
# (kind, style, items)
SESS_TEMPLATES = [
    ("html", "f", [["lit", "<b>"], ["hole", "name", None], ["lit", "</b>"]]),
    ("html", "f", [["lit", "<i>"], ["hole", "a", None], ["lit", "</i>"], ["hole", "b", ">3"]]),
    ("html", "f", [["hole", 0, None], ["lit", "<u>"], ["hole", "k", None], ["lit", "</u>"], ["hole", 0, None]]),
    ("html", "f", [["hole", None, None], ["lit", "<b>"], ["hole", "x", None, "r"], ["lit", "</b>"], ["hole", None, None]]),
    ("html", "f", [["lit", '<style fg="'], ["hole", "c", None], ["lit", '">'], ["hole", "t", None], ["lit", "</style>"]]),
    ("html", "f", [["lit", "<b>"], ["hole", None, None], ["lit", "</b>-<u>"], ["hole", None, None], ["lit", "</u>"]]),
    ("ansi", "f", [["lit", ESC + "[1m"], ["hole", "name", None], ["lit", ESC + "[0m"], ["hole", None, None]]),
    ("ansi", "f", [["hole", "a", None], ["hole", "b", "^3", "s"]]),
    ("ansi", "f", [["hole", 0, None], ["lit", CSI8 + "4m"], ["hole", "k", None]]),
    ("html", "p", [["lit", "<b>"], ["hole", None, None], ["lit", "</b>"]]),
    ("ansi", "p", [["hole", None, None], ["lit", "-" + ESC + "[31m"], ["hole", None, None]]),
]


def sess_call(tmpl, oid, v, alt="w"):
    """one call on object `oid` of template `tmpl` with `v` as the value of the first field of each
    kind and derived values for the others"""
    kind, style, items = tmpl
    holes = [it for it in items if it[0] == "hole"]

    def derived(j):
        if j == 0 or not isinstance(v, str):
            return v
        return alt + v

    if style == "p":
        return ["smod", oid, [derived(j) for j in range(len(holes))]]
    npos = sum(1 for h in holes if h[1] is None)
    if any(isinstance(h[1], int) for h in holes):
        npos = 1 + max(h[1] for h in holes if isinstance(h[1], int))
    names = []
    for h in holes:
        if isinstance(h[1], str) and h[1] not in names:
            names.append(h[1])
    return ["sfmt", oid, [derived(j) for j in range(npos)], {n: derived(j) for j, n in enumerate(names)}]


def sess_new(tmpl, oid):
    return ["snew", oid, tmpl[0], tmpl[2], tmpl[1]]


def de_bruijn(k, n):
    """cyclic sequence over range(k) in which every word of length n occurs exactly once"""
    a = [0] * (k * n)
    seq = []

    def db(t, p):
        if t > n:
            if n % p == 0:
                seq.extend(a[1:p + 1])
        else:
            a[t] = a[t - p]
            db(t + 1, p)
            for j in range(a[t - p] + 1, k):
                a[t] = j
                db(t + 1, t)

    db(1, 1)
    return seq


def session_cases(quick, rng):
    # exhaustive: every template x every ordered pair of values (as consecutive calls) x three
    # object disciplines.  Per template and discipline one long session walks through all ordered
    # pairs (a de Bruijn sequence over the values); short sessions start from a fresh process for
    # the pairs (v, next v) and for the non-str pairs.
    walk = [SESS_VALUES[i] for i in de_bruijn(len(SESS_VALUES), 2)]
    walk.append(walk[0])
    ring = list(zip(SESS_VALUES, SESS_VALUES[1:] + SESS_VALUES[:1]))
    for ti, tmpl in enumerate(SESS_TEMPLATES):
        other = next(t for t in SESS_TEMPLATES[ti + 1:] + SESS_TEMPLATES if t[1] == tmpl[1] and t is not tmpl)
        holes = [it for it in tmpl[2] if it[0] == "hole"]
        num_ok = all(h[2] in (None, "") or (len(h) > 3 and h[3]) for h in holes) and \
            all(h[2] in (None, "") or (len(h) > 3 and h[3]) for h in other[2] if h[0] == "hole")

        def is_num(v):
            return isinstance(v, dict) and ("int" in v or "bool" in v)

        # one object, formatted with every value after every value
        yield {"ops": [sess_new(tmpl, 0)] + [sess_call(tmpl, 0, v) for v in walk] + [["sget", 0]]}
        # a fresh object of the same template text for every call
        ops = []
        for j, v in enumerate(walk):
            ops += [sess_new(tmpl, j % 3), sess_call(tmpl, j % 3, v)]
        yield {"ops": ops}
        # two templates, interleaved
        ops = [sess_new(tmpl, 0), sess_new(other, 1)]
        for v in walk:
            ops += [sess_call(tmpl, 0, v), sess_call(other, 1, v)]
        yield {"ops": ops + [["sget", 1], ["sget", 0]]}
        for v1, v2 in ring:
            # from a fresh process: one object, formatted three times (v1, v2, v1 again), then read
            yield {"ops": [sess_new(tmpl, 0), sess_call(tmpl, 0, v1), sess_call(tmpl, 0, v2),
                           sess_call(tmpl, 0, v1), ["sget", 0]]}
            # a fresh object of the same template text for every call
            yield {"ops": [sess_new(tmpl, 0), sess_call(tmpl, 0, v1), sess_new(tmpl, 1), sess_call(tmpl, 1, v2),
                           sess_new(tmpl, 2), sess_call(tmpl, 2, v1)]}
        for v1, v2 in [pr for pr in SESS_NONSTR_PAIRS if num_ok or not (is_num(pr[0]) or is_num(pr[1]))]:
            # non-str values: equal-but-different (1 / True), unhashable, str() of the other
            yield {"ops": [sess_new(tmpl, 0), sess_new(other, 1), sess_call(tmpl, 0, v1), sess_call(tmpl, 0, v2),
                           sess_call(other, 1, v2), sess_call(tmpl, 0, v1), sess_new(tmpl, 2),
                           sess_call(tmpl, 2, v2), ["sget", 0]]}
    # random sessions: 1-3 objects, a small pool of values, so equal names meet different values
    for _ in range(250 if quick else 9000):
        nobj = rng.randrange(1, 4)
        tmpls, ops = [], []
        for oid in range(nobj):
            kind = rng.choice(["html", "ansi"])
            style = rng.choice(["f", "f", "f", "p"])
            if tmpls and rng.random() < 0.4:
                kind, style, items = tmpls[rng.randrange(len(tmpls))]      # the same text again
                items = json.loads(json.dumps(items))
            elif kind == "ansi":
                items, _ = rand_template(rng, FORMAT_SPECS if style == "f" else PERCENT_SPECS,
                                         allow_incomplete=False)
            else:
                items, _ = rand_html_template(rng, HTML_FORMAT_SPECS if style == "f" else PERCENT_SPECS)
            if style == "f":
                decorate_holes(rng, items, rng.choice(HOLE_MODES))
            tmpls.append((kind, style, items))
            ops.append(["snew", oid, kind, items, style])
        pool = [rand_value(rng, 3) for _ in range(3)]
        for _ in range(rng.randrange(2, 9)):
            oid = rng.randrange(nobj)
            kind, style, items = tmpls[oid]
            r = rng.random()
            if r < 0.12:
                ops.append(["sget", oid])
            elif style == "f":
                args, kw = format_call_values(rng, items, lambda: rng.choice(pool))
                ops.append(["sfmt", oid, args, kw])
            else:
                nh = sum(1 for it in items if it[0] == "hole")
                vals = [rng.choice(pool + NONSTR_P + NONSTR_N) if rng.random() < 0.1 else rng.choice(pool)
                        for _ in range(nh)]
                ops.append(["smod1", oid, vals[0]] if len(vals) == 1 and rng.random() < 0.5 and
                           not isinstance(vals[0], dict) else ["smod", oid, vals])
        yield {"ops": ops}


# ---- HTML
HTML_ALPHA = ["<", ">", "/", "b", "=", '"', "'", " ", "&", ";", "a", "]"]
HTML_VALUE_ALPHA = ["a", " ", "<", ">", "&", '"', "'", "\r", "\n", "]", ESC, "\x00", "{", "%", ";", "#"]
HTML_NAMES = ["b", "i", "u", "style", "html-root", "username", "x-1.y_z"]
HTML_TEXTS = ["a", "b c", "&amp;", "&lt;x&gt;", "]]", ">", "'", '"', "\n", "\r\n", "\r", "\u4e16", "&#65;", "&#x41;",
              "&apos;&quot;", "{", "}", "%", "\t", "&#13;", "&#39;"]
HTML_ATTR_VALUES = ["ansired", "#ff0000", "", "a b", "x&amp;y", "a'b", 'a"b', "a\tb", "a>b", "&#10;", "]]>"]


def html_element(rng, depth, hole_factory):
    """markup pieces (strings) and holes of one element"""
    name = rng.choice(HTML_NAMES)
    out = ["<" + name]
    keys = rng.sample(["fg", "bg", "color", "other"], rng.randrange(0, 3))
    for k in keys:
        q = rng.choice(['"', "'"])
        out.append(" " * rng.choice([1, 1, 1, 2]) + k + rng.choice(["=", "=", " = "]) + q)
        if hole_factory is not None and rng.random() < 0.3:
            out.append(hole_factory())
        else:
            v = rng.choice(HTML_ATTR_VALUES)
            if q in v:
                v = v.replace(q, "")
            out.append(v)
        out.append(q)
    if rng.random() < 0.15:
        out.append(rng.choice(["/>", " />"]))
        return out
    out.append(rng.choice([">", ">", " >"]))
    out += html_content(rng, depth + 1, hole_factory)
    out.append("</" + name + rng.choice([">", ">", " >"]))
    return out


def html_content(rng, depth, hole_factory):
    out = []
    for _ in range(rng.randrange(0, 4 if depth < 3 else 2)):
        r = rng.random()
        if r < 0.45:
            out.append(rng.choice(HTML_TEXTS))
        elif r < 0.65 and hole_factory is not None:
            out.append(hole_factory())
        elif depth < 3:
            out += html_element(rng, depth, hole_factory)
    return out


def rand_html_string(rng):
    s = "".join(html_content(rng, 0, None))
    if rng.random() < 0.25 and s:
        # damage it: delete / insert / replace one character
        s = "".join(c for c in s if ord(c) < 128) or "a"   # non-ASCII names are outside the model
        i = rng.randrange(len(s))
        s = s[:i] + rng.choice(["", rng.choice(HTML_ALPHA), rng.choice(HTML_ALPHA) + s[i]]) + s[i + 1:]
    return s


def rand_html_template(rng, specs, explicit=False):
    """items of a format / % template whose literal parts are HTML markup"""
    holes = []

    def hole():
        idx = rng.randrange(0, 3) if explicit else None
        h = ["hole", idx, rng.choice(specs)]
        holes.append(h)
        return h

    pieces = html_content(rng, 0, hole)
    if not any(isinstance(p, list) for p in pieces):
        pieces.append(hole())
    items = []
    for p in pieces:
        if isinstance(p, list):
            items.append(p)
        elif items and items[-1][0] == "lit":
            items[-1][1] += p
        else:
            items.append(["lit", p])
    return items, len(holes)


HTML_TOKENS = ["<!--", "-->", "-", "<![CDATA[", "]]>", "]", "<?p", "?>", "?", " ", "a", "<b>", "</b>", ">", "&amp;",
               "\r", "\n"]
HTML_EXTRA = ["<xml>x</xml>", "<xmlns>x</xmlns>", "<XmL a='1'>x</XmL>", "<b xmlnsx='1' xml='2' XMLNS='3'>x</b>",
              "<b><b>x</b>y<b>z</b></b>", "<style><style>x</style></style>", "<b><style fg='r'><b>x</b></style></b>",
              "<?xml?>", "<?xml version='1.0'?>", "<?XML?>", "<?xmlx?>", "<?p?x>", "<?1?>", "<?p:q?>", "<?p-q.r_s?>",
              "<? p?>", "<!DOCTYPE a>", "<!a>", "<![IGNORE[x]]>", "<![CDATA [x]]>", "<!- -x-->", "<!--->", "<!--a--->",
              "<b fg='a b'>x</b><!-- c -->", "<!-- c --><b fg='a b'>x</b>", "<b><!-- c --></b>", "<b><?p?></b>y",
              "<![CDATA[\r]]>", "a\r<![CDATA[]]>\nb", "a]<![CDATA[]]>]>b", "a]]<!---->>b", "a&#13;<![CDATA[]]>\nb",
              "<![CDATA[]]]>", "<![CDATA[]]]]>", "<![CDATA[]]>]]>", "<![CDATA[<b>&]]>", "<b fg='<!--'>x</b>",
              "<b fg='x'><![CDATA[]]></b>", "&#x10FFFF;", "&#x110000;", "&#xD800;", "&#xFFFE;", "&#00065;", "&#X41;",
              "&#99999999999999999999;", "&#x0000000041;", "<b fg=\"a'b\" bg='c\"d'>x</b>", "<b  fg='r'\n\tbg='s'\r>x</b>",
              " a  b ", "<b> </b>", "\t\n", "<b/><b />", "<b fg=''>x</b>", "<b color='c' fg='f'>x</b>", "<b fg='f' color='c'>x</b>"]
HTML_FORMAT_SPECS = [None, None, "", "s", "5", ">4", "^5", "*>3", ".1", "6.2", "x^4.1s", ">", "<"]
HTML_FMT_POOL = [
    [["hole", None, None]],
    [["lit", "<b>x"], ["hole", None, None], ["lit", "y</b>z"]],
    [["lit", '<style fg="ansired">'], ["hole", None, ">3"], ["lit", "</style><u>"], ["hole", None, None], ["lit", "</u>"]],
    [["lit", "<style fg='"], ["hole", None, None], ["lit", "'>x</style>"]],          # single-quoted attribute
    [["lit", '<style bg="'], ["hole", None, None], ["lit", '">x</style>']],          # double-quoted attribute
    [["lit", '<style color="'], ["hole", None, None], ["lit", '">t</style>u']],       # the alias of fg=
    [["lit", "<b color='c' fg='"], ["hole", None, None], ["lit", "'>t</b>"]],
    [["lit", "<b fg='f' color='"], ["hole", None, None], ["lit", "'>t</b>"]],
    [["lit", "<i>a]"], ["hole", None, None], ["lit", "&gt;</i>"]],
    [["lit", "<"], ["hole", None, None], ["lit", ">x</b>"]],                          # hole as tag name
    [["lit", "a"], ["hole", None, None], ["lit", ">b"]],                              # value ]] + literal >
    [["lit", "x\r"], ["hole", None, None], ["lit", "y"]],                             # literal CR + value LF
]
HTML_MOD_POOL = [
    [["hole", None, None]],
    [["lit", "<b>x"], ["hole", None, None], ["lit", "y</b>z"]],
    [["lit", "<style color='"], ["hole", None, None], ["lit", "'>x</style>"], ["hole", None, "-3"]],
    [["lit", "<i>100%"], ["hole", None, ".2"], ["lit", "</i>"]],
    [["lit", '<style fg="'], ["hole", None, None], ["lit", '" bg=\''], ["hole", None, None], ["lit", "'>t</style>"]],
    [["lit", '<style color="'], ["hole", None, None], ["lit", '">t</style>']],
]
# values made of style words, for the attribute holes of the pools
STYLE_WORD_VALUES = ["ansired", "ansired bold", "ansired bold underline", " bold", "bold ", "a  b", "#ff0000 reverse",
                     "x\tbold", "x\nbold", "bg:ansiblue", "x bg:ansiblue", "class:q", "x class:q"]
# every class of white space that str.split() separates style words at (str.isspace), followed by a
# style word; plus look-alikes that are NOT white space (zero-width space, BOM, word joiner)
WS_CHARS = ["\r", "\x0b", "\x0c", "\x1c", "\x1d", "\x1e", "\x1f", "\x85", "\u00a0", "\u1680", "\u2000", "\u2003",
            "\u200a", "\u2028", "\u2029", "\u202f", "\u205f", "\u3000", "\t", "\n", " "]
NOT_WS_CHARS = ["\u200b", "\ufeff", "\u2060", "\u180e", "\x7f"]
STYLE_WORD_VALUES += ["ansired" + c + "bold" for c in WS_CHARS + NOT_WS_CHARS] + \
    [c + "underline" for c in WS_CHARS[:8]] + ["#00ff00" + WS_CHARS[8] + "reverse" + WS_CHARS[11] + "bold"]

STYLES = ["", "b", "[ZeroWidthEscape]", "class:x [ZeroWidthEscape]"]
FRAG_TEXT_ALPHA = ["a", "\n", "世", "\r"]
# multi-character patterns around the line feed and the other characters str.splitlines() breaks at:
# inside ONE fragment only "\n" may split, and nothing may be dropped
FRAG_LINE_TEXTS = ["\r\n", "\n\r", "\r\r\n", "\n\n", "\r", "\u2028", "\u2029", "\x0b", "\x0c", "\x1c", "\x85",
                   "a\r\nb", "dos\r\nline", "a\r\n", "\r\nb", "a\rb", "a\n\rb", "a\r\n\r\nb", "a\x0bb\x0cc",
                   "a\x85b\u2028c", "x\r\ny\nz\r"]


def frag_lists(max_frags, max_len):
    texts = [""]
    for n in range(1, max_len + 1):
        texts += ["".join(t) for t in itertools.product(FRAG_TEXT_ALPHA, repeat=n)]
    single = [[st, tx, None] for st in STYLES for tx in texts]
    for st in STYLES + ["class:a"]:
        for tx in FRAG_LINE_TEXTS:
            yield [[st, tx, None]]
            yield [["b", "p\r", 1], [st, tx, None], ["", "\nq", None]]
    for k in range(0, max_frags + 1):
        if k <= 1:
            for combo in itertools.product(single, repeat=k):
                yield [list(f) for f in combo]
        else:
            # >= 2 fragments: texts up to length 2 to keep the product small
            short = [f for f in single if len(f[1]) <= (2 if k == 2 else 1)]
            for combo in itertools.product(short, repeat=k):
                yield [list(f) for f in combo]


def rand_frags(rng, maxn=6):
    out = []
    for _ in range(rng.randrange(0, maxn + 1)):
        tx = "".join(rng.choice(["a", "b", "\n", "\n", "\u4e16", " ", "\u0301", "\x1b", "\t", "\r", "\r\n", "\r\n",
                                 "\u2028", "\x0c", "\x85"]) for _ in range(rng.randrange(0, 6)))
        st = rng.choice(STYLES + ["bold", "class:a,b fg:red", "x[ZeroWidthEscape]"])
        out.append([st, tx, rng.choice([None, None, 0, 1, 2])])
    return out


EL_INITS = [[], [["", "ab", None]], [["s", "a", None], ["t", "bc", 0]]]
EL_FRAGS = [["u", "", None], ["u", "x", None], ["u", "xyz", 1]]
EL_ARGS = [["S"], ["P", []], ["P", [["v", "pq", None]]], ["P", [["v", "p", None], ["w", "", None], ["w", "qr", 2]]]]
EL_INDEXES = [-3, -2, -1, 0, 1, 2, 3]
EL_BOUNDS = [None, -2, -1, 0, 1, 2, 5]


def el_op_pool():
    pool = [["A", f] for f in EL_FRAGS] + [["E", a] for a in EL_ARGS]
    pool += [["I", 0, EL_FRAGS[1]], ["I", -1, EL_FRAGS[2]], ["X"]]
    pool += [["S", i, f] for i in EL_INDEXES for f in EL_FRAGS]
    pool += [["SL", i, a] for i in EL_INDEXES for a in EL_ARGS]
    pool += [["SS", a, b, x] for a in EL_BOUNDS for b in EL_BOUNDS for x in EL_ARGS]
    pool += [["ST", a, b, f] for a in EL_BOUNDS for b in EL_BOUNDS for f in EL_FRAGS]
    pool += [["IA", []], ["IA", [["z", "long", None], ["z", "", None]]]]
    return pool


def rand_el_op(rng):
    k = rng.choice(["A", "E", "E", "I", "S", "S", "SL", "SS", "SS", "ST", "IA", "X"])
    f = rng.choice(EL_FRAGS + [["w", "\n世", 3]])
    a = rng.choice(EL_ARGS + [["P", rand_frags(rng, 3)]])
    i = rng.randrange(-6, 7)
    b1, b2 = rng.choice(EL_BOUNDS + [-7, 9]), rng.choice(EL_BOUNDS + [-7, 9])
    return {"A": ["A", f], "E": ["E", a], "I": ["I", i, f], "S": ["S", i, f], "SL": ["SL", i, a],
            "SS": ["SS", b1, b2, a], "ST": ["ST", b1, b2, f], "IA": ["IA", rand_frags(rng, 2)], "X": ["X"]}[k]


OTHER_VALUES = [{"int": 5}, {"bool": False}, {"obj": ["<o>", "R"]}, {"uobj": ["u\n", "U"]}]
PYG_NAMES = ["Name", "Function", "Keyword", "A", "b_c", "X1"]


def frag_extra_cases(quick, rng):
    """_ExplodedList mutators, to_formatted_text(auto_convert), PygmentsTokens"""
    ops = []
    pool = el_op_pool()
    for init in EL_INITS:
        for o in pool:
            ops.append(["el", init, [o]])
            ops.append(["el", init, [["A", EL_FRAGS[2]], o, ["X"]]])
    for _ in range(300 if quick else 20000):
        ops.append(["el", rng.choice(EL_INITS + [rand_frags(rng, 3)]),
                    [rng.choice(pool) if rng.random() < 0.5 else rand_el_op(rng) for _ in range(rng.randrange(1, 7))]])
    for d in range(0, 3):
        for ac in (False, True):
            for st in ("", "b"):
                for pay in OTHER_VALUES:
                    ops.append(["tfta", st, ac, [d, "other", pay]])
                ops.append(["tfta", st, ac, [d, "str", "x"]])
                ops.append(["tfta", st, ac, [d, "none", None]])
                ops.append(["tfta", st, ac, [d, "list", [["s", "ab", None], ["t", "c", 1]]]])
    # Template.format / merge_formatted_text, repeated on the same template text with other values
    for text in ["a{}b", "{}{}", "x{}y{}z", "{}"]:
        n = text.count("{}")
        for v1, v2 in [("p", "q"), ("<b>", ""), ("{}", "{0}")]:
            for vals in ([v1] * n, [v2] * n, [v1] * n):
                ops.append(["templ", text, [[0, "str", v] for v in vals]])
                ops.append(["merge", [[1, "str", v] for v in vals]])
    for n in range(0, 4):
        for names in itertools.product(PYG_NAMES[:3], repeat=n):
            ops.append(["pyg", [[list(names), "t" * n], [[], ""], [["A"], "x\ny"]]])
    for _ in range(100 if quick else 5000):
        ops.append(["tfta", rng.choice(["", "bold", "class:x y"]), rng.random() < 0.5,
                    [rng.choice([0, 0, 1, 2]), "other", rng.choice(OTHER_VALUES)] if rng.random() < 0.5
                    else rand_any(rng)])
        ops.append(["pyg", [[[rng.choice(PYG_NAMES) for _ in range(rng.randrange(0, 4))], rand_value(rng, 4)]
                            for _ in range(rng.randrange(0, 4))]])
    yield from chunked(ops, 150)


def rand_any(rng):
    kind = rng.choice(["none", "str", "list", "ft", "ansi"])
    d = rng.choice([0, 0, 0, 1, 2])
    if kind == "none":
        return [d, "none", None]
    if kind == "str":
        return [d, "str", rand_value(rng)]
    if kind == "ansi":
        return [d, "ansi", rand_ansi(rng, rng.randrange(0, 5))]
    return [d, kind, rand_frags(rng, 3)]


_GENERATED = {}     # tier -> [first index in _REG, end index, set of case keys or None]


def _case_key(c):
    import hashlib
    return hashlib.sha1(json.dumps(c, sort_keys=True, default=str).encode()).digest()


def cases(tier, rng):
    """all cases of a tier.  core.py asks again with other seeds when an anchored source changed
    (escalation): the exhaustive families are the same for every seed and are then dropped."""
    prev = _GENERATED.get(tier)
    if prev is not None and prev[2] is None:
        prev[2] = {_case_key(c) for c in _REG[prev[0]:prev[1]]}
    start = len(_REG)
    for c in gen_cases(tier, rng):
        if prev is not None:
            k = _case_key(c)
            if k in prev[2]:
                continue
            prev[2].add(k)
        _IDX[id(c)] = len(_REG)
        _REG.append(c)
        yield c
    if prev is None:
        _GENERATED[tier] = [start, len(_REG), None]


def gen_cases(tier, rng):
    quick = tier == "quick"
    # ---- 1. ANSI inputs, exhaustive
    ops = []
    maxlen = 4 if quick else 5
    for n in range(0, maxlen + 1):
        for tup in itertools.product(ANSI_ALPHA, repeat=n):
            ops.append(["ansi", "".join(tup)])
    if not quick:
        for tup in itertools.product(ANSI_ALPHA_SMALL, repeat=6):
            ops.append(["ansi", "".join(tup)])
    ops += sgr_cases()
    yield from chunked(ops, 150)
    yield from chunked(int_limit_cases(), 6)

    # ---- 2. escape functions + interpolation, exhaustive over short values
    vmax = 2 if quick else 3
    values = [""]
    for n in range(1, vmax + 1):
        values += ["".join(t) for t in itertools.product(VALUE_ALPHA, repeat=n)]
    ops = []
    for v in values:
        ops.append(["aesc", v])
        ops.append(["hesc", v])
    yield from chunked(ops, 150)
    fmt_pool = [
        [["hole", None, None]],
        [["lit", "a"], ["hole", None, None], ["lit", "b"]],
        [["lit", ESC + "[1ma"], ["hole", None, None], ["lit", "b" + ESC + "[0mc"]],
        [["lit", ESC + "[31m"], ["hole", None, ">3"], ["lit", ESC + "[42m"], ["hole", None, None], ["lit", "z"]],
        [["lit", SOH + "p" + STX + "x"], ["hole", 0, None], ["lit", "{}%"], ["hole", 0, "^4"]],
        [["lit", ESC + "["], ["hole", None, None], ["lit", "mX"]],                 # hole inside a CSI: not inert
        [["lit", SOH + "p" + STX], ["hole", None, None], ["lit", SOH + "q" + STX]],  # hole right after a zw block
        [["lit", SOH], ["hole", None, None], ["lit", STX + "y"]],                 # hole inside a zw block
    ]
    mod_pool = [
        [["hole", None, None]],
        [["lit", "a"], ["hole", None, None], ["lit", "b"]],
        [["lit", ESC + "[1ma%"], ["hole", None, "3"], ["lit", "b" + ESC + "[0mc"]],
        [["lit", CSI8 + "4m"], ["hole", None, "-3"], ["lit", ESC + "[42m"], ["hole", None, ".1"], ["lit", "z"]],
        [["lit", ESC + "[3"], ["hole", None, None], ["lit", "mX"]],
    ]
    ops = []
    for v in values:
        for t in fmt_pool:
            nh = sum(1 for it in t if it[0] == "hole" and it[1] is None) or 1
            ops.append(["afmt", t, [v] + ["w" + v] * (nh - 1)])
        for t in mod_pool:
            nh = sum(1 for it in t if it[0] == "hole")
            if nh == 1:
                ops.append(["amod1", t, v])
            ops.append(["amod", t, [v] + ["w" + v] * (nh - 1)])
    yield from chunked(ops, 100)
    # every spec x a few values
    ops = []
    for sp in FORMAT_SPECS:
        for v in ["", "a", "abc", ESC + "[1m", "ab" + CSI8, "世界", SOH + "x" + STX, "abcdefg"]:
            ops.append(["afmt", [["lit", ESC + "[4m<"], ["hole", None, sp], ["lit", ">"]], [v]])
    for sp in PERCENT_SPECS:
        for v in ["", "a", "abc", ESC + "[1m", "ab" + CSI8, "世界", SOH + "x" + STX, "abcdefg"]:
            ops.append(["amod", [["lit", ESC + "[4m<"], ["hole", None, sp], ["lit", ">"]], [v]])
    # argument count / numbering errors
    for t, vs in [([["hole", None, None], ["hole", None, None]], ["a"]),
                  ([["hole", 0, None], ["hole", None, None]], ["a", "b"]),
                  ([["hole", None, None], ["hole", 0, None]], ["a", "b"]),
                  ([["hole", 1, None], ["hole", 0, None], ["hole", 1, None]], ["a", "b"]),
                  ([["hole", 2, None]], ["a", "b"]),
                  ([["lit", "x"]], ["a"]), ([["lit", "x"]], [])]:
        ops.append(["afmt", t, vs])
        ops.append(["amod", [[it[0], None, None] if it[0] == "hole" else it for it in t], vs])
    yield from chunked(ops, 100)

    # ---- 2b. HTML: every string over a 12-symbol markup alphabet, then templates x values
    ops = []
    hmax = 4 if quick else 5
    for n in range(0, hmax + 1):
        for tup in itertools.product(HTML_ALPHA, repeat=n):
            ops.append(["html", "".join(tup)])
    for t in ["<b>a</b>", "<b fg='x' bg=\"y\">a<i>b</i>c</b>d", "<style fg='a b'>x</style>", "<b><i>x</b></i>",
              "<b fg='x' fg='y'>z</b>", "a]]>b", "a]]&gt;b", "<b/>x<i></i>", "<html-root>x</html-root>",
              "<b color='y' fg='x'>2</b>", "&#0;", "&#27;", "&#xfffe;", "&#65;&#x41;", "&amp", "&foo;", "&#;",
              "x\ry\r\nz", "<b fg='a\r\nb'>x</b>", "<b fg='a&#10;b'>x</b>", "\x1b", "<b fg='a<b'>x</b>",
              "<b  fg = 'x' >y</b >", "<b\nfg='x'>y</b>", "<b fg='x'bg='y'>z</b>", "<b fg>z</b>", "<b>"]:
        ops.append(["html", t])
    # token level: comments, CDATA sections, processing instructions, line ends, `]]>`
    for n in range(0, (3 if quick else 4) + 1):
        for tup in itertools.product(HTML_TOKENS, repeat=n):
            ops.append(["html", "".join(tup)])
    for t in HTML_EXTRA:
        ops.append(["html", t])
    yield from chunked(ops, 150)
    hvalues = [""]
    for n in range(1, vmax + 1):
        hvalues += ["".join(t) for t in itertools.product(HTML_VALUE_ALPHA, repeat=n)]
    hvalues += STYLE_WORD_VALUES
    ops = []
    for v in hvalues:
        ops.append(["hesc", v])
        for t in HTML_FMT_POOL:
            nh = sum(1 for it in t if it[0] == "hole")
            ops.append(["hfmt", t, [v] + ["w" + v] * (nh - 1)])
        for t in HTML_MOD_POOL:
            nh = sum(1 for it in t if it[0] == "hole")
            if nh == 1:
                ops.append(["hmod1", t, v])
            ops.append(["hmod", t, [v] + ["w" + v] * (nh - 1)])
    yield from chunked(ops, 100)

    # ---- 3. fragment utilities, exhaustive
    ops = []
    for fl in frag_lists(2 if quick else 3, 3):
        ops.append(["split", fl])
        ops.append(["explode", fl])
        ops.append(["text", fl])
        ops.append(["len", fl])
        ops.append(["width", fl])
    yield from chunked(ops, 150)

    # ---- 4. random
    nrand = 1500 if quick else 60000
    ops = []
    for _ in range(nrand):
        ops.append(["ansi", rand_ansi(rng, rng.choice([1, 2, 3, 5, 8, 20]))])
        items, nh = rand_template(rng, FORMAT_SPECS)
        decorate_holes(rng, items, rng.choice(HOLE_MODES))
        args, kw = format_call_values(rng, items, lambda: rand_value(rng))
        ops.append(["afmt", items, args, kw])
        items, nh = rand_template(rng, PERCENT_SPECS)
        nvals = nh + rng.choice([0, 0, 0, 0, 0, 1, -1])
        vals = [rand_value(rng) for _ in range(max(0, nvals))]
        if len(vals) == 1 and rng.random() < 0.5:
            ops.append(["amod1", items, vals[0]])
        else:
            ops.append(["amod", items, vals])
        v = rand_value(rng, 10)
        ops.append(["aesc", v])
        ops.append(["hesc", v])
        ops.append(["html", rand_html_string(rng)])
        items, nh = rand_html_template(rng, HTML_FORMAT_SPECS)
        decorate_holes(rng, items, rng.choice(HOLE_MODES))
        args, kw = format_call_values(rng, items, lambda: "".join(
            rng.choice(HTML_VALUE_ALPHA + ["b", "1", "\u4e16"]) for _ in range(rng.randrange(0, 5))))
        ops.append(["hfmt", items, args, kw])
        ops.append([rng.choice(["repr", "ascii"]), rand_value(rng, 8) + rng.choice(["", "'", '"', "\\", "\u00ad", "\U0001F600", "\u0378"])])
        items, nh = rand_html_template(rng, PERCENT_SPECS)
        vals = ["".join(rng.choice(HTML_VALUE_ALPHA + ["b", "1", "\u4e16"]) for _ in range(rng.randrange(0, 5)))
                for _ in range(nh)]
        ops.append(["hmod1", items, vals[0]] if len(vals) == 1 and rng.random() < 0.5 else ["hmod", items, vals])
        fl = rand_frags(rng)
        ops.append([rng.choice(["split", "split", "explode", "text", "len", "width"]), fl])
        ops.append(["tft", rng.choice(["", "", "bold", "class:x y"]), rand_any(rng)])
        ops.append(["plain", rand_any(rng)])
        nparts = rng.randrange(0, 4)
        text = "".join(rng.choice(["a", "{", "}", "{}", " ", "{0", "}{"]) for _ in range(rng.randrange(0, 6)))
        nv = text.count("{}") + rng.choice([0, 0, 0, 0, 1])
        ops.append(["templ", text, [rand_any(rng) for _ in range(nv)]])
        ops.append(["merge", [rand_any(rng) for _ in range(nparts)]])
    yield from chunked(ops, 150)

    # ---- 4a. % with mixed tuples under every conversion
    yield from mixed_percent_cases(quick, rng)

    # ---- 4b. _ExplodedList mutators, to_formatted_text(auto_convert), PygmentsTokens
    yield from frag_extra_cases(quick, rng)

    # ---- 5. sessions (one case = one process)
    yield from session_cases(quick, rng)


# ------------------------------------------------------------------ evidence helpers
def sample_view(case):
    ops = case["ops"]
    return {"ops": ops[:3] + ([f"... {len(ops)} ops in this case"] if len(ops) > 3 else [])}


def _op_nontrivial(op):
    k = op[0]
    if k in ("ansi", "aesc", "hesc", "html"):
        return any(ord(c) < 32 or c in (CSI8, "<", "&", ">", '"', "'") for c in op[1])
    if k in ("afmt", "amod", "amod1", "hfmt", "hmod", "hmod1"):
        return any(it[0] == "hole" for it in op[1])
    if k in ("split", "explode", "text", "len", "width"):
        return len(op[1]) > 1 or any("\n" in f[1] for f in op[1])
    return True


def nontrivial(case):
    return any(_op_nontrivial(op) for op in case["ops"])


def distribution(cases_):
    d = {"ops": {}, "ansi_len": {}, "html_len": {}, "values_with_introducer": 0, "values_with_markup": 0, "holes": 0}
    for c in cases_:
        for op in c["ops"]:
            d["ops"][op[0]] = d["ops"].get(op[0], 0) + 1
            if op[0] == "ansi":
                n = len(op[1])
                key = str(n) if n < 7 else "7+"
                d["ansi_len"][key] = d["ansi_len"].get(key, 0) + 1
            if op[0] == "html":
                n = len(op[1])
                key = str(n) if n < 7 else "7+"
                d["html_len"][key] = d["html_len"].get(key, 0) + 1
            if op[0] in ("afmt", "amod", "amod1", "hfmt", "hmod", "hmod1"):
                d["holes"] += sum(1 for it in op[1] if it[0] == "hole")
                vals = [op[2]] if op[0].endswith("1") else op[2]
                if any(any(ch in v for ch in (ESC, CSI8, SOH, STX)) for v in vals):
                    d["values_with_introducer"] += 1
                if any(any(ch in v for ch in "<>&\"'\r") for v in vals):
                    d["values_with_markup"] += 1
    return d


if __name__ == "__main__":
    if len(sys.argv) == 4 and sys.argv[1] == "--zygote":
        zygote_main(int(sys.argv[2]), int(sys.argv[3]))
    sys.exit(core.main(sys.modules[__name__]))
