#!/usr/bin/env python3
"""Write seeded/REPORT.md: one row per seeded change — what it is, what it needs, and what the check did."""
import json, os
ROOT = os.path.dirname(os.path.dirname(os.path.abspath(__file__)))
S = os.path.join(ROOT, "seeded")
res = json.load(open(os.path.join(S, "RESULTS.json")))
rows = []
for sid in sorted(d for d in os.listdir(S) if os.path.isfile(os.path.join(S, d, "meta.json"))):
    m = json.load(open(os.path.join(S, sid, "meta.json")))
    r = res.get(sid, {})
    if r.get("error"):
        verdict = "patch no longer applies"
    elif r.get("caught") and r.get("with_failing_input"):
        verdict = "caught, failing input on the real code"
    elif r.get("caught"):
        verdict = "caught (proof/correspondence broken, no-failing-input-found)"
    elif "caught" in r:
        verdict = "MISSED"
    else:
        verdict = "not run"
    extra = m.get("caught_by_other", "")
    if extra:
        verdict += "; " + extra
    what = " ".join(str(m.get("what", "")).split())[:230]
    rows.append((sid, m.get("property"), ", ".join(os.path.basename(f) for f in m.get("files", [])), what, verdict))
with open(os.path.join(S, "REPORT.md"), "w") as f:
    f.write("# Seeded breaking changes and what the checks did with them\n\n")
    f.write("Each change was written by a fresh sub-agent that saw only the property text and a scratch worktree "
            "(nothing from /verif); each compiles, passes the 151-test suite, and comes with a demo that fails with "
            "the change and passes without it (re-confirmed by `harness/seeded.py --validate`).\n\n")
    n = len(rows)
    caught = sum(1 for r in rows if r[4].startswith("caught"))
    wi = sum(1 for r in rows if r[4].startswith("caught, failing"))
    f.write(f"Total {n}; caught by the property's own quick check: {caught} ({wi} with a failing input on the real code); "
            f"missed: {sum(1 for r in rows if r[4].startswith('MISSED'))}.\n\n")
    f.write("| id | property | file(s) | change | quick check |\n|---|---|---|---|---|\n")
    for r in rows:
        f.write("| " + " | ".join(x.replace("|", "\\|") for x in r) + " |\n")
print(open(os.path.join(S, "REPORT.md")).read()[:1500])
