"""
C18 tables, re-extracted from the CURRENT /repo tree on every run:

  formatted_text/ansi.py : _fg_colors, _bg_colors, _256_colors   (SGR code -> colour name)
  utils.get_cwidth       : widths of the characters the C18 harness uses in width cases
                           (wcwidth is runtime, a parameter of the model)

Written to lean/Ptk/Gen/C18.lean.
"""
from __future__ import annotations

import gen_tables as G

# characters used by the width cases of harness/c18.py (default width for all others: 1)
WIDTH_CHARS = ["a", "b", "x", " ", "\n", "\t", "\x00", "\x01", "\x1b", "\x7f", "\x9b", "\u4e16", "\u754c",
               "\xe9", "\u0301", "\u200b", "\u3000", "\U0001F600", "\uff71", "\xad"]


def generate() -> None:
    from prompt_toolkit.formatted_text import ansi
    from prompt_toolkit.utils import get_cwidth

    def table(name, d):
        rows = ", ".join(f"({k}, {G.ltext(v)})" for k, v in sorted(d.items()) if v is not None)
        return f"def {name} : List (Nat × List Char) := [{rows}]\n\n"

    body = "namespace Ptk.Gen.C18\n\n"
    body += "/-- `formatted_text/ansi.py: _fg_colors` -/\n" + table("fgColors", ansi._fg_colors)
    body += "/-- `formatted_text/ansi.py: _bg_colors` -/\n" + table("bgColors", ansi._bg_colors)
    body += "/-- `formatted_text/ansi.py: _256_colors` -/\n" + table("colors256", ansi._256_colors)
    body += "/-- `get_cwidth(c)` for the characters used by the width cases -/\n"
    body += "def cwTable : List (Nat × Nat) := [" + ", ".join(
        f"({ord(c)}, {get_cwidth(c)})" for c in WIDTH_CHARS) + "]\n\n"
    body += "def cw (c : Char) : Nat := ((cwTable.find? fun p => p.1 == c.toNat).map (·.2)).getD 1\n"
    body += "\nend Ptk.Gen.C18\n"
    G.write("C18.lean", body)
