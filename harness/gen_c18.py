"""
C18 tables, re-extracted from the CURRENT /repo tree on every run:

  formatted_text/ansi.py : _fg_colors, _bg_colors, _256_colors   (SGR code -> colour name)
  utils.get_cwidth       : widths of the characters the C18 harness uses in width cases
                           (wcwidth is runtime, a parameter of the model)

  str.isprintable        : code point ranges of the running interpreter (repr() of a str escapes the
                           non-printable characters; a parameter of the model)
  module / class / instance state inventory of the anchored modules: every module-level object that
                           is not a function, class, module, typing construct or immutable constant,
                           every cached function, every class-level container, the instance
                           attributes of a fresh HTML / ANSI object.  The session model
                           (Model/C18Sess.lean) says that nothing is kept between calls; this
                           inventory is pinned in Props/C18Sess.lean, so a cache added anywhere in
                           these modules breaks the build at the pin.

Written to lean/Ptk/Gen/C18.lean.
"""
from __future__ import annotations

import gen_tables as G

# characters used by the width cases of harness/c18.py (default width for all others: 1)
WIDTH_CHARS = ["a", "b", "x", " ", "\n", "\t", "\x00", "\x01", "\x1b", "\x7f", "\x9b", "\u4e16", "\u754c",
               "\xe9", "\u0301", "\u200b", "\u3000", "\U0001F600", "\uff71", "\xad",
               "\r", "\x0b", "\x0c", "\x1c", "\x85", "\u2028", "\u2029"]


STATE_MODULES = ["prompt_toolkit.formatted_text.html", "prompt_toolkit.formatted_text.ansi",
                 "prompt_toolkit.formatted_text.base", "prompt_toolkit.formatted_text.utils",
                 "prompt_toolkit.formatted_text.pygments", "prompt_toolkit.layout.utils"]


def state_inventory() -> list[str]:
    """what the anchored modules could keep between two calls (see the module docstring)"""
    import importlib
    import types

    immut = (bool, int, float, str, bytes, tuple, frozenset, type(None))

    def stateful(v):
        if isinstance(v, (types.ModuleType, type, types.FunctionType, types.BuiltinFunctionType,
                          types.MethodType, staticmethod, classmethod, property)):
            return False
        if isinstance(v, immut):
            return False
        return type(v).__module__ not in ("typing", "typing_extensions", "__future__")

    def cached(v):
        return callable(v) and any(hasattr(v, a) for a in ("cache_info", "cache_clear", "__wrapped__"))

    inv = []
    for m in STATE_MODULES:
        mod = importlib.import_module(m)
        short = m.split("prompt_toolkit.")[1]
        for name, v in sorted(vars(mod).items()):
            if name.startswith("__"):
                continue
            own = getattr(v, "__module__", m) == m
            if isinstance(v, (type, types.FunctionType)) and not own:
                continue        # imported class / function
            if cached(v):
                inv.append(f"{short}.{name}:cached")
            elif stateful(v):
                inv.append(f"{short}.{name}:{type(v).__name__}")
            if isinstance(v, type):
                for an, av in sorted(vars(v).items()):
                    f = av.__func__ if isinstance(av, (staticmethod, classmethod)) else av
                    if cached(f):
                        inv.append(f"{short}.{name}.{an}:cached")
                    elif not an.startswith("__") and stateful(av):
                        inv.append(f"{short}.{name}.{an}:{type(av).__name__}")
    from prompt_toolkit.formatted_text import ANSI, HTML

    inv.append("instance HTML:" + ",".join(sorted(vars(HTML("x")))))
    inv.append("instance ANSI:" + ",".join(sorted(vars(ANSI("x")))))
    return inv


def ansi_param_expr() -> str:
    """source text of the expression `_parse_corot` appends to `params` (the int() call)"""
    import ast
    import inspect

    from prompt_toolkit.formatted_text import ansi
    src = inspect.getsource(ansi)
    found = []
    for node in ast.walk(ast.parse(src)):
        if (isinstance(node, ast.Call) and isinstance(node.func, ast.Attribute) and node.func.attr == "append"
                and isinstance(node.func.value, ast.Name) and node.func.value.id == "params" and node.args):
            found.append(ast.unparse(node.args[0]))
    return " | ".join(found)


def replace_chain(fn) -> list[tuple[str, str]]:
    """the `.replace(a, b)` calls with constant arguments in the body of `fn`, in the order in which
    they are applied (`x.replace(..).replace(..)`: the inner call ends first)"""
    import ast
    import inspect
    import textwrap

    out = []
    for node in ast.walk(ast.parse(textwrap.dedent(inspect.getsource(fn)))):
        if (isinstance(node, ast.Call) and isinstance(node.func, ast.Attribute) and node.func.attr == "replace"
                and len(node.args) == 2
                and all(isinstance(a, ast.Constant) and isinstance(a.value, str) for a in node.args)):
            out.append((node.end_lineno, node.end_col_offset, node.args[0].value, node.args[1].value))
    return [(a, b) for _, _, a, b in sorted(out)]


def generate() -> None:
    from prompt_toolkit.formatted_text import ansi
    from prompt_toolkit.utils import get_cwidth

    def table(name, d):
        rows = ", ".join(f"({k}, {G.ltext(v)})" for k, v in sorted(d.items()) if v is not None)
        return f"def {name} : List (Nat × List Char) := [{rows}]\n\n"

    body = "namespace Ptk.Gen.C18\n\n"
    body += "/-- `formatted_text/ansi.py: _fg_colors` -/\n" + table("fgColors", ansi._fg_colors)
    body += "/-- `formatted_text/ansi.py: _bg_colors` -/\n" + table("bgColors", ansi._bg_colors)
    body += "/-- `formatted_text/ansi.py: _256_colors` -/\n" + table("colors256", ansi._256_colors)
    body += "/-- `get_cwidth(c)` for the characters used by the width cases -/\n"
    body += "def cwTable : List (Nat × Nat) := [" + ", ".join(
        f"({ord(c)}, {get_cwidth(c)})" for c in WIDTH_CHARS) + "]\n\n"
    body += "def cw (c : Char) : Nat := ((cwTable.find? fun p => p.1 == c.toNat).map (·.2)).getD 1\n"
    body += "\n/-- inclusive code point ranges with `str.isprintable()` (running interpreter) -/\n"
    body += "def isPrintableRanges : List (Nat × Nat) := " + G.lranges(G.ranges(str.isprintable)) + "\n\n"
    body += ("def isPrintable (c : Char) : Bool := isPrintableRanges.any fun (a, b) => "
             "a ≤ c.toNat && c.toNat ≤ b\n\n")
    import sys as _sys
    lim = _sys.get_int_max_str_digits() if hasattr(_sys, "get_int_max_str_digits") else 0
    body += "/-- `sys.get_int_max_str_digits()` of the running interpreter (`none` = no limit) -/\n"
    body += "def intMaxStrDigits : Option Nat := " + (f"some {lim}" if lim else "none") + "\n\n"
    from prompt_toolkit.formatted_text import html as _html_mod

    def cps(s):
        return "[" + ", ".join(str(ord(c)) for c in s) + "]"

    def chain(fn):
        return "[" + ", ".join(f"({cps(a)}, {cps(b)})" for a, b in replace_chain(fn)) + "]"

    body += "/-- the `.replace(a, b)` calls of `html_escape`, in application order (code points) -/\n"
    body += "def htmlEscapeReplacements : List (List Nat × List Nat) := " + chain(_html_mod.html_escape) + "\n\n"
    body += "/-- the `.replace(a, b)` calls of `ansi_escape`, in application order (code points) -/\n"
    body += "def ansiEscapeReplacements : List (List Nat × List Nat) := " + chain(ansi.ansi_escape) + "\n\n"
    body += "/-- `_XML_ILLEGAL_CHARS_RE.pattern` (code points) -/\n"
    body += "def xmlIllegalPattern : List Nat := " + cps(_html_mod._XML_ILLEGAL_CHARS_RE.pattern) + "\n\n"
    body += "/-- the expression `ANSI._parse_corot` appends to `params` (ast.unparse of the source) -/\n"
    body += "def ansiParamExpr : String := " + G.lstr(ansi_param_expr()) + "\n\n"
    body += "/-- what the anchored modules could keep between two calls (see harness/gen_c18.py) -/\n"
    body += "def moduleState : List String := [" + ", ".join(G.lstr(x) for x in state_inventory()) + "]\n"
    body += "\nend Ptk.Gen.C18\n"
    G.write("C18.lean", body)
