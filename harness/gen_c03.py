#!/venv/bin/python
"""
C03 — translator for data: re-extracts from the CURRENT tree
  * input/ansi_escape_sequences.py : ANSI_SEQUENCES   (keys as code points, values as lists of
    the Keys enum `.value`; a single Keys value becomes a one-element list)
  * input/vt100_parser.py : the four regex pattern strings + flags (pattern pins)
  * keys.py : the three Keys values the parser hard-codes (CPRResponse, Vt100MouseEvent, BracketedPaste)
  * input/posix_utils.py : default `count` of PosixStdinReader.read, default `errors`
  * input/vt100_parser.py : the ESC… literals of Vt100Parser.feed (paste end mark)
  * the running interpreter : the code point ranges matched by regex `\\d` (str pattern)
and writes lean/Ptk/Gen/C03Ansi.lean.
"""
from __future__ import annotations

import os
import sys

HERE = os.path.dirname(os.path.abspath(__file__))
sys.path.insert(0, HERE)
import gen_tables as G  # noqa: E402  (puts VERIF_REPO/src first on sys.path)


def lstr(s: str) -> str:
    """Lean String literal; Lean knows \\xHH and \\uHHHH (not \\u{...})."""
    out = ['"']
    for c in s:
        o = ord(c)
        if c == '"':
            out.append('\\"')
        elif c == "\\":
            out.append("\\\\")
        elif 32 <= o < 127:
            out.append(c)
        elif o < 256:
            out.append("\\x%02x" % o)
        elif o < 0x10000:
            out.append("\\u%04x" % o)
        else:
            raise ValueError("non-BMP character in a string literal")
    out.append('"')
    return "".join(out)


def generate() -> None:
    import re

    from prompt_toolkit.input import vt100_parser as P
    from prompt_toolkit.input.ansi_escape_sequences import ANSI_SEQUENCES
    from prompt_toolkit.keys import Keys

    def names(v) -> list[str]:
        if isinstance(v, tuple):
            return [names(x)[0] for x in v]
        if isinstance(v, Keys):
            return [v.value]
        if isinstance(v, str):
            return [v]
        raise TypeError(f"ANSI_SEQUENCES value of unexpected type: {v!r}")

    body = "namespace Ptk.Gen.C03\n\n"
    body += "/-- `ANSI_SEQUENCES` in dict order: (sequence as code points, Keys values; tuple = several) -/\n"
    body += "def ansiTable : List (List Char × List String) := [\n"
    rows = []
    for k, v in ANSI_SEQUENCES.items():
        if not isinstance(k, str):
            raise TypeError(f"ANSI_SEQUENCES key is not a str: {k!r}")
        rows.append("  (" + G.ltext(k) + ", [" + ", ".join(lstr(n) for n in names(v)) + "])")
    body += ",\n".join(rows) + "\n]\n\n"
    body += "def cprKey : String := " + lstr(Keys.CPRResponse.value) + "\n"
    body += "def mouseKey : String := " + lstr(Keys.Vt100MouseEvent.value) + "\n"
    body += "def pasteKey : String := " + lstr(Keys.BracketedPaste.value) + "\n\n"
    for nm, attr in [("cprRe", "_cpr_response_re"), ("mouseRe", "_mouse_event_re"),
                     ("cprPrefixRe", "_cpr_response_prefix_re"), ("mousePrefixRe", "_mouse_event_prefix_re")]:
        r = getattr(P, attr)
        body += f"/-- `{attr}.pattern` / `.flags` -/\n"
        body += f"def {nm} : String := " + lstr(r.pattern) + "\n"
        body += f"def {nm}Flags : Nat := {int(r.flags)}\n"
    # constants the read path / feed hard-code
    import inspect

    from prompt_toolkit.input.posix_utils import PosixStdinReader

    count = inspect.signature(PosixStdinReader.read).parameters["count"].default
    if not isinstance(count, int):
        raise TypeError(f"PosixStdinReader.read count default is not an int: {count!r}")
    body += "\n/-- default of `count` in `PosixStdinReader.read(count)` (what `read_keys` asks `os.read` for) -/\n"
    body += f"def readCount : Nat := {count}\n"
    marks = sorted(c for c in P.Vt100Parser.feed.__code__.co_consts if isinstance(c, str) and c.startswith("\x1b"))
    body += "/-- the ESC… string literals in `Vt100Parser.feed` (the paste end mark) -/\n"
    body += "def feedMarks : List (List Char) := [" + ", ".join(G.ltext(m) for m in marks) + "]\n"
    body += "/-- `errors=` default of `PosixStdinReader.__init__` -/\n"
    body += "def readerErrors : String := " + lstr(
        inspect.signature(PosixStdinReader.__init__).parameters["errors"].default) + "\n"
    dg = re.compile(r"\d")
    body += "\n/-- inclusive code point ranges matched by regex `\\d` (str pattern) -/\n"
    body += "def reDigitRanges : List (Nat × Nat) := " + G.lranges(G.ranges(lambda c: dg.match(c) is not None)) + "\n"
    body += "def reDigit (c : Char) : Bool := reDigitRanges.any fun (a, b) => a ≤ c.toNat && c.toNat ≤ b\n"
    body += "\nend Ptk.Gen.C03\n"
    G.write("C03Ansi.lean", body)
    generate_codecs()


SINGLE_BYTE = ["latin-1", "cp1252", "iso8859-15", "koi8-r", "ascii"]


def generate_codecs() -> None:
    """single-byte code pages of the running interpreter: for every byte the code point the
    incremental decoder (errors='strict') yields, `none` where it raises (those bytes become lone
    surrogates under surrogateescape); plus the defaults of the two constructors."""
    import codecs
    import inspect

    from prompt_toolkit.input.posix_utils import PosixStdinReader

    body = "namespace Ptk.Gen.C03\n\n"
    body += "/-- (codec name, table byte -> code point; `none` = undecodable) -/\n"
    body += "def codecs : List (String × List (Option Nat)) := [\n"
    rows = []
    for name in SINGLE_BYTE:
        cls = codecs.getincrementaldecoder(name)
        tbl = []
        for b in range(256):
            d = cls(errors="strict")
            try:
                t = d.decode(bytes([b]))
                if len(t) != 1 or d.getstate()[0] != b"":
                    raise TypeError(f"{name} is not a single-byte codec at byte {b}")
                tbl.append(f"some {ord(t)}")
            except UnicodeDecodeError:
                tbl.append("none")
        rows.append("  (" + lstr(name) + ", [" + ", ".join(tbl) + "])")
    body += ",\n".join(rows) + "\n]\n\n"
    body += "/-- `encoding=` default of `PosixStdinReader.__init__` -/\n"
    body += "def readerEncoding : String := " + lstr(
        inspect.signature(PosixStdinReader.__init__).parameters["encoding"].default) + "\n"
    body += "\nend Ptk.Gen.C03\n"
    G.write("C03Codecs.lean", body)


if __name__ == "__main__":
    generate()
