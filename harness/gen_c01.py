#!/venv/bin/python
"""
C01 plug-in for gen_tables.py: re-extracts from the CURRENT /repo tree everything the C01 Lean
model would otherwise hard-code, and writes it to lean/Ptk/Gen/C01.lean:

  * pattern strings / flags of `document._FIND_WORD_RE` and `_FIND_BIG_WORD_RE` (the hand-written
    scanner of Model/C01Cmd.lean is valid for exactly these; pinned by `example ... := by decide`);
  * literals found by an AST walk of the modelled functions: the indent unit of `indent` /
    `unindent`, the strip sets of `delete-horizontal-space`, `join_next_line`, `join_selected_lines`,
    the comment character of `insert-comment`, the default width of `reshape_text`, the
    "don't exceed a million" threshold / replacement of `KeyPressEvent.arg`;
  * the size of `Buffer._document_cache` (live object);
  * the emacs / basic key bindings that are bound to *named commands* (key sequence -> readline
    command name), from the live `load_emacs_bindings()` / `load_basic_bindings()` registries:
    the end-to-end correspondence resolves the typed key through this table;
  * the API coverage pin: every public method of `Buffer` (and every module-level function of
    buffer.py taking a buffer) whose body assigns text / cursor / document / working index, found by
    an AST scan;
  * one behaviour probe (`killWordNegFixed`): does `kill-word` with a negative argument delete
    backward (after proposed_fixes/C01-kill-word-negative-arg.diff) or pass the negative relative
    position to `Buffer.delete` (before)?  The model carries both behaviours keyed on this flag so
    that the check is green before and after the fix.
"""
from __future__ import annotations

import ast
import os
from types import SimpleNamespace

import gen_tables as G


def _src(rel):
    return open(os.path.join(G.REPO, "src", "prompt_toolkit", rel), encoding="utf-8").read()


def _find_def(tree, qual):
    """FunctionDef for a dotted name (`Buffer.join_next_line`, `indent`)."""
    node = tree
    for part in qual.split("."):
        nxt = None
        for ch in ast.iter_child_nodes(node):
            if isinstance(ch, (ast.FunctionDef, ast.AsyncFunctionDef, ast.ClassDef)) and ch.name == part:
                nxt = ch
                break
        if nxt is None:
            return None
        node = nxt
    return node


def _strip_args(fn, method):
    """string constants passed as the single argument of `.method(...)` inside fn, in source order"""
    out = []
    for n in ast.walk(fn):
        if (isinstance(n, ast.Call) and isinstance(n.func, ast.Attribute) and n.func.attr == method
                and len(n.args) == 1 and isinstance(n.args[0], ast.Constant) and isinstance(n.args[0].value, str)):
            out.append((n.lineno, n.col_offset, n.args[0].value))
    return [v for _, _, v in sorted(out)]


def _str_times_name(fn):
    """the literal s of an expression `s * <name>` inside fn"""
    for n in ast.walk(fn):
        if (isinstance(n, ast.BinOp) and isinstance(n.op, ast.Mult) and isinstance(n.left, ast.Constant)
                and isinstance(n.left.value, str)):
            return n.left.value
    return None


def _int_constants(fn):
    return sorted({n.value for n in ast.walk(fn) if isinstance(n, ast.Constant) and type(n.value) is int})


# ---------------------------------------------------------------- API coverage pin
MUT_ATTRS = {"text", "cursor_position", "document", "working_index",
             "__cursor_position", "__working_index", "_working_lines"}


def _mutates(fn, owner="self"):
    """does the body assign <owner>.text / .cursor_position / .document / .working_index / the
    private storage behind them (plain or augmented assignment, subscript assignment included)?
    (direct, syntactic)"""
    for n in ast.walk(fn):
        targets = []
        if isinstance(n, ast.Assign):
            targets = n.targets
        elif isinstance(n, (ast.AugAssign, ast.AnnAssign)):
            targets = [n.target]
        for t in targets:
            for tt in ast.walk(t):
                if (isinstance(tt, ast.Attribute) and isinstance(tt.value, ast.Name) and tt.value.id == owner
                        and tt.attr in MUT_ATTRS):
                    return True
    return False


def _calls(fn, owner="self"):
    """names X of calls `<owner>.X(...)` in the body"""
    out = set()
    for n in ast.walk(fn):
        if (isinstance(n, ast.Call) and isinstance(n.func, ast.Attribute) and isinstance(n.func.value, ast.Name)
                and n.func.value.id == owner):
            out.add(n.func.attr)
    return out


def api_scan():
    """names of the public text/cursor mutators of buffer.py, found syntactically and closed under
    "calls a mutator of the same object": `Buffer.<method>` (public = no leading underscore; property
    setters are listed under the property name with a `=` suffix) and the module-level functions
    `f(buffer, ...)`."""
    tree = ast.parse(_src("buffer.py"))
    meths = {}      # name -> (node, is_setter)
    funcs = {}
    for node in tree.body:
        if isinstance(node, ast.ClassDef) and node.name == "Buffer":
            for ch in node.body:
                if not isinstance(ch, (ast.FunctionDef, ast.AsyncFunctionDef)):
                    continue
                is_setter = any(isinstance(d, ast.Attribute) and d.attr == "setter" for d in ch.decorator_list)
                is_getter = any(isinstance(d, ast.Name) and d.id == "property" for d in ch.decorator_list)
                if is_getter:
                    continue
                meths[ch.name + ("=" if is_setter else "")] = ch
        elif isinstance(node, ast.FunctionDef) and node.args.args and node.args.args[0].arg == "buffer":
            funcs[node.name] = node
    mut = {n for n, f in meths.items() if _mutates(f)}
    changed = True
    while changed:
        changed = False
        for n, f in meths.items():
            if n not in mut and (_calls(f) & {m.rstrip("=") for m in mut if not m.endswith("=")}):
                mut.add(n)
                changed = True
    out = ["Buffer." + n for n in mut if not n.startswith("_")]
    plain = {m for m in mut if not m.endswith("=")}
    for n, f in funcs.items():
        if not n.startswith("_") and (_mutates(f, owner="buffer") or (_calls(f, owner="buffer") & plain)):
            out.append(n)
    return sorted(set(out))


# ---------------------------------------------------------------- probes / live objects
def _probe_kill_word_neg():
    """`kill-word` with argument -1 on 'foo |bar baz qux': True when nothing AFTER the cursor is
    deleted (fixed behaviour: kills backward), False when text after the cursor disappears."""
    from prompt_toolkit.buffer import Buffer
    from prompt_toolkit.clipboard import InMemoryClipboard
    from prompt_toolkit.document import Document
    from prompt_toolkit.key_binding.bindings.named_commands import get_by_name

    b = Buffer(document=Document("foo bar baz qux", 4))
    ev = SimpleNamespace(current_buffer=b, arg=-1, is_repeat=False, data="",
                         app=SimpleNamespace(clipboard=InMemoryClipboard(),
                                             emacs_state=SimpleNamespace(last_kill_word_killed=False),
                                             output=SimpleNamespace(bell=lambda: None)))
    try:
        get_by_name("kill-word").handler(ev)
    except Exception:
        return False
    return b.text.endswith("bar baz qux")


def _named_bindings():
    """(key sequence, readline command name) for every emacs/basic binding whose handler is a
    registered named command"""
    from prompt_toolkit.key_binding.bindings import named_commands as NC
    from prompt_toolkit.key_binding.bindings.basic import load_basic_bindings
    from prompt_toolkit.key_binding.bindings.emacs import load_emacs_bindings

    by_handler = {}
    for name, binding in NC._readline_commands.items():
        by_handler.setdefault(binding.handler, name)
    out = []
    for kb in (load_basic_bindings(), load_emacs_bindings()):
        for b in kb.bindings:
            name = by_handler.get(b.handler)
            if name is None:
                continue
            keys = ",".join(str(getattr(k, "value", k)) for k in b.keys)
            out.append((keys, name))
    return out          # registration order: the key processor lets the LAST matching binding win


def _lean_str_list(items):
    return "[" + ", ".join(G.lstr(s) for s in items) + "]"


def generate() -> None:
    vals = dict(find_word=("", 0), find_big=("", 0), indent="", unindent="", hs_r="", hs_l="", join_next="",
                join_sel="", comment="", comment_arg=0, width=0, clamp=0, clamp_to=0, cache_size=0,
                fixed=False, bindings=[], api=[])
    try:
        import prompt_toolkit.document as D

        vals["find_word"] = (D._FIND_WORD_RE.pattern, int(D._FIND_WORD_RE.flags))
        vals["find_big"] = (D._FIND_BIG_WORD_RE.pattern, int(D._FIND_BIG_WORD_RE.flags))
        bt = ast.parse(_src("buffer.py"))
        nt = ast.parse(_src(os.path.join("key_binding", "bindings", "named_commands.py")))
        kt = ast.parse(_src(os.path.join("key_binding", "key_processor.py")))
        vals["indent"] = _str_times_name(_find_def(bt, "indent")) or ""
        vals["unindent"] = _str_times_name(_find_def(bt, "unindent")) or ""
        dhs = _find_def(nt, "delete_horizontal_space")
        vals["hs_r"] = (_strip_args(dhs, "rstrip") or [""])[0]
        vals["hs_l"] = (_strip_args(dhs, "lstrip") or [""])[0]
        vals["join_next"] = (_strip_args(_find_def(bt, "Buffer.join_next_line"), "lstrip") or [""])[0]
        vals["join_sel"] = (_strip_args(_find_def(bt, "Buffer.join_selected_lines"), "lstrip") or [""])[0]
        ic = _find_def(nt, "insert_comment")
        vals["comment"] = (_strip_args(ic, "startswith") or [""])[0]
        ints = [v for v in _int_constants(ic) if v != 0]
        vals["comment_arg"] = ints[0] if ints else 0
        rs = _find_def(bt, "reshape_text")
        cand = [v for v in _int_constants(rs) if v > 1]
        vals["width"] = cand[-1] if cand else 0
        arg = _find_def(kt, "KeyPressEvent.arg")
        ai = _int_constants(arg)
        vals["clamp"] = max(ai) if ai else 0
        # the replacement value is the constant assigned inside the `if ... >= clamp` statement
        for n in ast.walk(arg):
            if isinstance(n, ast.If):
                for s in n.body:
                    if isinstance(s, ast.Assign) and isinstance(s.value, ast.Constant) and type(s.value.value) is int:
                        vals["clamp_to"] = s.value.value
        from prompt_toolkit.buffer import Buffer

        vals["cache_size"] = int(Buffer()._document_cache.size)
        vals["fixed"] = bool(_probe_kill_word_neg())
        vals["bindings"] = _named_bindings()
        vals["api"] = api_scan()
    except Exception:  # broken tree: keep the model compilable; pins / correspondence report it
        pass

    body = "namespace Ptk.Gen.C01\n\n"
    for lean_name, key, py in [("findWordRe", "find_word", "_FIND_WORD_RE"), ("findBigWordRe", "find_big", "_FIND_BIG_WORD_RE")]:
        pat, flags = vals[key]
        body += f"/-- `document.{py}.pattern` -/\ndef {lean_name} : String := {G.lstr(pat)}\n"
        body += f"/-- `document.{py}.flags` (32 = re.UNICODE only) -/\ndef {lean_name}Flags : Nat := {flags}\n\n"
    body += "/-- the string repeated `count` times by `buffer.indent` / `buffer.unindent` -/\n"
    body += f"def indentUnit : List Char := {G.ltext(vals['indent'])}\n"
    body += f"def unindentUnit : List Char := {G.ltext(vals['unindent'])}\n\n"
    body += "/-- `delete-horizontal-space`: argument of `.rstrip(...)` / `.lstrip(...)` -/\n"
    body += f"def hspaceBefore : List Char := {G.ltext(vals['hs_r'])}\n"
    body += f"def hspaceAfter : List Char := {G.ltext(vals['hs_l'])}\n\n"
    body += "/-- argument of `.lstrip(...)` in `Buffer.join_next_line` / `Buffer.join_selected_lines` -/\n"
    body += f"def joinNextStrip : List Char := {G.ltext(vals['join_next'])}\n"
    body += f"def joinSelectedStrip : List Char := {G.ltext(vals['join_sel'])}\n\n"
    body += "/-- `insert-comment`: the comment prefix and the argument value that means \"comment\" -/\n"
    body += f"def commentPrefix : List Char := {G.ltext(vals['comment'])}\n"
    body += f"def commentArg : Int := {vals['comment_arg']}\n\n"
    body += "/-- `reshape_text`: `buffer.text_width or <this>` -/\n"
    body += f"def reshapeDefaultWidth : Nat := {vals['width']}\n\n"
    body += "/-- `KeyPressEvent.arg`: `if result >= argClamp: result = argClampTo` -/\n"
    body += f"def argClamp : Int := {vals['clamp']}\n"
    body += f"def argClampTo : Int := {vals['clamp_to']}\n\n"
    body += "/-- `Buffer._document_cache.size` -/\n"
    body += f"def documentCacheSize : Nat := {vals['cache_size']}\n\n"
    body += "/-- behaviour probe: `kill-word` with a negative argument kills backward (fix applied) -/\n"
    body += f"def killWordNegFixed : Bool := {'true' if vals['fixed'] else 'false'}\n\n"
    body += "/-- emacs/basic key bindings bound to named commands: (key sequence, readline command name) -/\n"
    body += "def namedBindings : List (String × String) := [\n"
    body += ",\n".join(f"  ({G.lstr(k)}, {G.lstr(n)})" for k, n in vals["bindings"]) + "]\n\n"
    body += "/-- API coverage pin: public text/cursor mutators of buffer.py found by the AST scan -/\n"
    body += f"def apiMutators : List String := {_lean_str_list(vals['api'])}\n\n"
    body += "end Ptk.Gen.C01\n"
    G.write("C01.lean", body)


if __name__ == "__main__":
    generate()
    print(open(os.path.join(G.GEN, "C01.lean")).read())
