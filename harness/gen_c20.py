#!/venv/bin/python
"""
C20 constants re-extracted from the CURRENT tree on every run -> lean/Ptk/Gen/C20.lean.
They are probed by RUNNING the code (no threads are started, nothing can block):

  autowrap     what `Vt100_Output.enable_autowrap(); flush()` sends to the file
  escRepl      what `Vt100_Output.write` puts in place of ESC (`data.replace("\\x1b", "?")`)
  rawKeepsEsc  `Vt100_Output.write_raw` passes ESC on unchanged
  lineBreaks   the characters after which `StdoutProxy._write` queues the line, probed over the candidates
               below (every character `str.splitlines` breaks at, and a few others)

The model's terminal text (`termText`) takes `autowrap` / `escRepl` as parameters (the driver passes these
values); `Props/C20Term.lean` re-decides the side conditions (`gen_ok`) on the regenerated values.
"""
from __future__ import annotations

import gen_tables as G

CANDIDATES = ["\n", "\r", "\x0b", "\x0c", "\x1c", "\x1d", "\x1e", "\x85", " ", " ", " ", "\t", "\x00", "\x1b"]


def probe():
    import io
    import queue

    from prompt_toolkit.data_structures import Size
    from prompt_toolkit.output.vt100 import Vt100_Output
    from prompt_toolkit.patch_stdout import StdoutProxy

    def mk():
        sio = io.StringIO()
        return sio, Vt100_Output(sio, lambda: Size(rows=24, columns=80), term="xterm")

    sio, o = mk()
    o.enable_autowrap()
    o.flush()
    autowrap = sio.getvalue()
    sio, o = mk()
    o.write("a\x1bb")
    o.flush()
    v = sio.getvalue()
    esc = v[1] if (len(v) == 3 and v[0] == "a" and v[2] == "b") else "\x1b"
    sio, o = mk()
    o.write_raw("a\x1bb")
    o.flush()
    raw_keeps = sio.getvalue() == "a\x1bb"
    breaks = []
    for c in CANDIDATES:
        p = object.__new__(StdoutProxy)        # no __init__: no flush thread
        p._buffer = []
        p._flush_queue = queue.Queue()
        StdoutProxy._write(p, "x" + c + "y")
        if p._flush_queue.qsize():
            breaks.append(c)
    return autowrap, esc, raw_keeps, breaks


def generate() -> None:
    try:
        autowrap, esc, raw_keeps, breaks = probe()
    except Exception:  # broken tree: keep the model compilable, the correspondence reports it
        autowrap, esc, raw_keeps, breaks = "\x1b[?7h", "?", True, ["\n"]
    body = "namespace Ptk.Gen.C20\n\n"
    body += "/-- what `Vt100_Output.enable_autowrap(); flush()` sends to the file -/\n"
    body += "def autowrap : List Char := [" + ", ".join("Char.ofNat %d" % ord(c) for c in autowrap) + "]\n\n"
    body += "/-- what `Vt100_Output.write` puts in place of ESC -/\n"
    body += "def escRepl : Char := Char.ofNat %d\n\n" % ord(esc)
    body += "/-- `Vt100_Output.write_raw` passes ESC on unchanged -/\n"
    body += "def rawKeepsEsc : Bool := %s\n\n" % ("true" if raw_keeps else "false")
    body += "/-- the characters after which `StdoutProxy._write` queues the line; probed: " + \
            ", ".join("U+%04X" % ord(c) for c in CANDIDATES) + " -/\n"
    body += "def lineBreaks : List Char := [" + ", ".join("Char.ofNat %d" % ord(c) for c in breaks) + "]\n\n"
    body += "end Ptk.Gen.C20\n"
    G.write("C20.lean", body)


if __name__ == "__main__":
    generate()
