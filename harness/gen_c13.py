#!/venv/bin/python
"""
C13 constants re-extracted from the CURRENT tree on every run -> lean/Ptk/Gen/C13.lean.
All of them are determined by BEHAVIOUR, not by looking at the source text.

  notifyCopies : does the loader thread of ThreadedHistory iterate over a COPY of
      `_string_load_events` when it sets the consumers' events (so that an event removed from the
      list by a finishing load() call cannot make the iteration skip the next one)?
      `_in_load_thread` is run synchronously with two fake events registered, the first of which
      unregisters itself when it is set; with a plain iteration over the live list the second fake
      event is never set.  The multi-consumer model `stepN` takes this flag.

  appendFixed : does ThreadedHistory contain the repair of F5 (proposed_fixes/C13-threaded-append.diff)?
      three observations, all must hold:
        (1) `_in_load_thread` holds `_lock` while the inner history takes its snapshot
            (the inner generator looks at `lock.locked()` when its first item is requested),
        (2) `append_string` holds `_lock` while it calls the inner `store_string`,
        (3) a `load()` call in progress skips an entry inserted at the front meanwhile and
            yields it once at the end (driven through the real async generator with a manual event).
      `appendFixed` = all three.  The harness (c13.py) compares the tree with the repaired model `stepF` /
      `stepM` as soon as observation (1) holds - a tree with only a part of the repair then fails against
      the full repair - and with `step` (code with F5) otherwise; in that case `stepF` / `stepM` are compared
      with the tree's history.py + the proposed diff.

  callHoisted : is the inner `load_history_strings()` called in front of the locked block of
      `_in_load_thread` (while its first item is requested inside)?  `Props/C13.lean` re-decides
      `callHoisted = false` on every run (`gen_call_in_lock`): for an inner history that reads its
      storage when called (FileHistory) a hoisted call loses entries (`hoisted_call_loses_entry`).

  inlineCopies : does the inline generator `History.load()` iterate over a copy of `_loaded_strings`
      (an `append_string` between two items then does not make it yield an item twice)?

  storeWrites : how many `write()` calls FileHistory.store_string issues on its file object for a
      3-line entry (4 = header + one per line; 1 = the whole record in one call).
"""
from __future__ import annotations

import gen_tables as G


def probe() -> bool:
    from prompt_toolkit.history import InMemoryHistory, ThreadedHistory

    th = ThreadedHistory(InMemoryHistory())
    lst = th._string_load_events

    class Fake:
        def __init__(self, leave):
            self.flag = False
            self.leave = leave

        def set(self):
            self.flag = True
            if self.leave and self in lst:
                lst.remove(self)

    e1, e2 = Fake(True), Fake(False)
    lst.append(e1)
    lst.append(e2)
    th._in_load_thread()
    return bool(e2.flag)


def _probe_locks(mod):
    """(the inner snapshot is taken inside the lock, the inner store_string is called inside the lock)"""
    seen = {}

    class Inner(mod.History):
        def load_history_strings(self):
            seen["snap"] = th._lock.locked()
            yield "x"

        def store_string(self, string):
            seen["store"] = th._lock.locked()

    th = mod.ThreadedHistory(Inner())
    th._in_load_thread()
    th.append_string("y")
    return bool(seen.get("snap")), bool(seen.get("store"))


def probe_call_hoisted(mod=None) -> bool:
    """is the inner `load_history_strings()` CALLED outside the lock although its first item is requested
    inside?  (matters for an inner history that reads its storage when it is called: FileHistory)"""
    try:
        if mod is None:
            import prompt_toolkit.history as mod
        seen = {}

        class Inner(mod.History):
            def load_history_strings(self):      # an ordinary function, like FileHistory's
                seen["call"] = th._lock.locked()

                def gen():
                    seen["first"] = th._lock.locked()
                    yield "x"

                return gen()

            def store_string(self, string):
                pass

        th = mod.ThreadedHistory(Inner())
        th._in_load_thread()
        return bool(seen.get("first")) and not bool(seen.get("call"))
    except Exception:
        return False


def _probe_consumer_shift(mod) -> bool:
    """strs = [b, a], not loaded; the consumer takes both; then 'c' is appended and loading ends:
    the repaired consumer yields b, a, c - the unrepaired one b, a, a"""
    import asyncio

    class Inner(mod.History):
        def load_history_strings(self):
            return []

        def store_string(self, string):
            pass

    th = mod.ThreadedHistory(Inner())
    th._load_thread = object()  # "already started": load() must not start a real thread
    th._loaded_strings = ["b", "a"]
    out = []

    async def go():
        gen = th.load()
        out.append(await gen.__anext__())
        out.append(await gen.__anext__())
        th.append_string("c")
        with th._lock:
            th._loaded = True
        for e in list(th._string_load_events):
            e.set()
        async for x in gen:
            out.append(x)

    asyncio.run(asyncio.wait_for(go(), timeout=10))
    return out == ["b", "a", "c"]


def probe_append_parts(mod=None) -> dict:
    """the three observable parts of the repair of F5"""
    res = {"snapshot": False, "store": False, "shift": False}
    try:
        if mod is None:
            import prompt_toolkit.history as mod
        res["snapshot"], res["store"] = _probe_locks(mod)
    except Exception:
        pass
    try:
        res["shift"] = _probe_consumer_shift(mod)
    except Exception:
        pass
    return res


def probe_append_fixed(mod=None) -> bool:
    return all(probe_append_parts(mod).values())


def probe_inline_copies(mod=None) -> bool:
    """does the inline `History.load()` iterate over a copy of `_loaded_strings`?  InMemoryHistory(a, b):
    take one item, append c, take the rest: over a copy -> b, a; over the live list -> b, b, a"""
    import asyncio

    try:
        if mod is None:
            import prompt_toolkit.history as mod

        async def go():
            h = mod.InMemoryHistory(["a", "b"])
            g = h.load()
            out = [await g.__anext__()]
            h.append_string("c")
            async for x in g:
                out.append(x)
            return out

        return asyncio.run(go()) == ["b", "a"]
    except Exception:
        return False


def probe_store_writes(mod=None) -> int:
    """number of write() calls on the file object for one store_string of a 3-line entry"""
    import io
    import os
    import tempfile

    try:
        if mod is None:
            import prompt_toolkit.history as mod
        calls = []
        real_open = open

        class Rec(io.RawIOBase):
            def writable(self):
                return True

            def write(self, b):
                calls.append(bytes(b))
                return len(b)

        def fake_open(file, mode="r", *a, **k):
            if "a" in mode and "b" in mode:
                return io.BufferedWriter(Rec(), buffer_size=1)  # every write() call reaches the raw file
            return real_open(file, mode, *a, **k)

        had = "open" in mod.__dict__
        old = mod.__dict__.get("open")
        mod.open = fake_open
        try:
            d = tempfile.mkdtemp(prefix="c13probe")
            mod.FileHistory(os.path.join(d, "h")).store_string("l1\nl2\nl3")
            os.rmdir(d)
        finally:
            if had:
                mod.open = old
            else:
                del mod.open
        return len(calls)
    except Exception:
        return 0


def generate() -> None:
    try:
        copies = probe()
    except Exception:  # broken tree: keep the model compilable, the correspondence reports it
        copies = False
    fixed = probe_append_fixed()
    writes = probe_store_writes()
    inline = probe_inline_copies()
    hoisted = probe_call_hoisted()
    body = "namespace Ptk.Gen.C13\n\n"
    body += ("/-- the loader thread's `for event in …: event.set()` loops run over a copy of\n"
             "    `_string_load_events` (observed by running `_in_load_thread` with self-removing events) -/\n")
    body += f"def notifyCopies : Bool := {'true' if copies else 'false'}\n\n"
    body += ("/-- ThreadedHistory contains the repair of F5: snapshot and store under the lock, the consumer\n"
             "    skips front insertions and yields them once at the end (observed on the running code) -/\n")
    body += f"def appendFixed : Bool := {'true' if fixed else 'false'}\n\n"
    body += ("/-- number of `write()` calls FileHistory.store_string issues for a 3-line entry\n"
             "    (4 = header + one per line; 1 = the whole record at once; 0 = probe failed) -/\n")
    body += f"def storeWrites : Nat := {writes}\n\n"
    body += ("/-- the inline `History.load()` generator iterates over a copy of `_loaded_strings` (observed:\n"
             "    an append between two items does not shift what it yields) -/\n")
    body += f"def inlineCopies : Bool := {'true' if inline else 'false'}\n\n"
    body += ("/-- the loader thread CALLS the inner `load_history_strings()` in front of the locked block in which\n"
             "    it requests the first item (an eager inner history then reads its storage outside the lock) -/\n")
    body += f"def callHoisted : Bool := {'true' if hoisted else 'false'}\n\n"
    body += "end Ptk.Gen.C13\n"
    G.write("C13.lean", body)


if __name__ == "__main__":
    generate()
    print(probe(), probe_append_fixed(), probe_store_writes(), probe_inline_copies(), probe_call_hoisted())
