#!/venv/bin/python
"""
C13 constant re-extracted from the CURRENT tree on every run -> lean/Ptk/Gen/C13.lean:

  notifyCopies : does the loader thread of ThreadedHistory iterate over a COPY of
  `_string_load_events` when it sets the consumers' events (so that an event removed from the
  list by a finishing load() call cannot make the iteration skip the next one)?

It is determined by behaviour, not by looking at the source text: `_in_load_thread` is run
synchronously with two fake events registered, the first of which unregisters itself when it is
set; with a plain iteration over the live list the second fake event is never set.
The multi-consumer model `stepN` takes this flag; the theorems cover both values.
"""
from __future__ import annotations

import gen_tables as G


def probe() -> bool:
    from prompt_toolkit.history import InMemoryHistory, ThreadedHistory

    th = ThreadedHistory(InMemoryHistory())
    lst = th._string_load_events

    class Fake:
        def __init__(self, leave):
            self.flag = False
            self.leave = leave

        def set(self):
            self.flag = True
            if self.leave and self in lst:
                lst.remove(self)

    e1, e2 = Fake(True), Fake(False)
    lst.append(e1)
    lst.append(e2)
    th._in_load_thread()
    return bool(e2.flag)


def generate() -> None:
    try:
        copies = probe()
    except Exception:  # broken tree: keep the model compilable, the correspondence reports it
        copies = False
    body = "namespace Ptk.Gen.C13\n\n"
    body += ("/-- the loader thread's `for event in …: event.set()` loops run over a copy of\n"
             "    `_string_load_events` (observed by running `_in_load_thread` with self-removing events) -/\n")
    body += f"def notifyCopies : Bool := {'true' if copies else 'false'}\n\n"
    body += "end Ptk.Gen.C13\n"
    G.write("C13.lean", body)


if __name__ == "__main__":
    generate()
    print(probe())
