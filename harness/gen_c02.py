"""
C02 plug-in for gen_tables.py: emits the regex pattern strings (and flags) that
`prompt_toolkit.document` compiles at import time into
lean/Ptk/Gen/C02Patterns.lean.  The hand-written scanners in
lean/Ptk/Model/C02.lean are valid for exactly these patterns; the model file
pins every string with `example : Gen.C02.xxx = "..." := by decide`, so a
changed pattern in /repo breaks the build at the pin.

Second file, lean/Ptk/Gen/C02Chars.lean: the CHARACTER CLASSES of the compiled
regex objects themselves, obtained by running `_FIND_WORD_RE` / `_FIND_BIG_WORD_RE`
over the string of all 0x110000 code points (every match is a maximal range of
consecutive code points of one class): the ranges of class 1 (`[a-zA-Z0-9_]`),
of class 0 of the word regex (matched by neither alternative) and of class 0
of the WORD regex.  `Ptk.Props.C02Gen` re-decides on every run that the
model's `isWordChar` is exactly the first table and that both blank classes are
exactly the regex-whitespace table of Gen/PyChars that the driver instantiates `sp` with.
"""
from __future__ import annotations

import gen_tables as G


def generate() -> None:
    import prompt_toolkit.document as D

    names = [
        ("findWordRe", "_FIND_WORD_RE"),
        ("findCurrentWordRe", "_FIND_CURRENT_WORD_RE"),
        ("findCurrentWordWsRe", "_FIND_CURRENT_WORD_INCLUDE_TRAILING_WHITESPACE_RE"),
        ("findBigWordRe", "_FIND_BIG_WORD_RE"),
        ("findCurrentBigWordRe", "_FIND_CURRENT_BIG_WORD_RE"),
        ("findCurrentBigWordWsRe", "_FIND_CURRENT_BIG_WORD_INCLUDE_TRAILING_WHITESPACE_RE"),
    ]
    body = "namespace Ptk.Gen.C02\n\n"
    for lean_name, py_name in names:
        rx = getattr(D, py_name)
        body += f"/-- `{py_name}.pattern` -/\n"
        body += f"def {lean_name} : String := {G.lstr(rx.pattern)}\n"
        body += f"/-- `{py_name}.flags` (32 = re.UNICODE only) -/\n"
        body += f"def {lean_name}Flags : Nat := {int(rx.flags)}\n\n"
    body += "end Ptk.Gen.C02\n"
    G.write("C02Patterns.lean", body)
    G.write("C02Chars.lean", chars_body(D))


def _complement(rs):
    out, prev = [], 0
    for a, b in sorted(rs):
        if a > prev:
            out.append((prev, a - 1))
        prev = max(prev, b + 1)
    if prev <= 0x10FFFF:
        out.append((prev, 0x10FFFF))
    return out


def chars_body(D) -> str:
    allc = "".join(map(chr, range(0x110000)))
    # every match over the string of all code points is a maximal range of one class
    word_runs = [(m.start(1), m.end(1) - 1) for m in D._FIND_WORD_RE.finditer(allc)]
    # class 1 (first alternative): the run can be continued by the word character "a"
    word_cls = [(a, b) for a, b in word_runs if D._FIND_WORD_RE.fullmatch(chr(a) + "a")]
    blank_cls = _complement(word_runs)
    big_runs = [(m.start(1), m.end(1) - 1) for m in D._FIND_BIG_WORD_RE.finditer(allc)]
    big_blank = _complement(big_runs)

    def lst(rs):
        return "[" + ", ".join(f"({a}, {b})" for a, b in rs) + "]"

    body = "namespace Ptk.Gen.C02\n\n"
    body += "/-- inclusive code point ranges of class 1 of `_FIND_WORD_RE` (first alternative), as matched by `re` -/\n"
    body += f"def wordClassRanges : List (Nat × Nat) := {lst(word_cls)}\n\n"
    body += "/-- code points matched by neither alternative of `_FIND_WORD_RE` (class 0) -/\n"
    body += f"def blankClassRanges : List (Nat × Nat) := {lst(blank_cls)}\n\n"
    body += "/-- code points not matched by `_FIND_BIG_WORD_RE` (class 0 of the WORD regex) -/\n"
    body += f"def bigBlankClassRanges : List (Nat × Nat) := {lst(big_blank)}\n\n"
    # literals that the model mirrors, read from the source of the methods themselves
    pairs = bracket_pairs(D)
    body += "/-- the bracket pairs `find_matching_bracket_position` loops over (string literals of its `for`) -/\n"
    body += ("def bracketPairs : List (Char × Char) := ["
             + ", ".join(f"({G.lchar(a)}, {G.lchar(b)})" for a, b in pairs) + "]\n\n")
    alpha = boundary_alphabet(D)
    body += ("/-- code points of the local `alphabet` of `find_boundaries_of_current_word` "
             "(`string.ascii_letters + \"0123456789_\"`), sorted -/\n")
    body += "def boundaryAlphabet : List Nat := [" + ", ".join(str(o) for o in alpha) + "]\n\n"
    writers = cache_writers(D)
    body += ("/-- qualified names of the functions of document.py that assign `<x>._cache.lines` / "
             "`<x>._cache.line_indexes`\n    (or call setattr / touch `__dict__` of a `_cache`), sorted -/\n")
    body += "def cacheWriters : List String := [" + ", ".join(G.lstr(w) for w in writers) + "]\n\n"
    body += "end Ptk.Gen.C02\n"
    return body


def cache_writers(D):
    """every def in document.py that stores into a line-table slot of a `_cache` object"""
    import ast
    import inspect

    tree = ast.parse(inspect.getsource(D))
    found = set()

    def is_cache(node):
        return isinstance(node, ast.Attribute) and node.attr == "_cache"

    def visit(node, qual):
        for child in ast.iter_child_nodes(node):
            if isinstance(child, (ast.FunctionDef, ast.AsyncFunctionDef, ast.ClassDef)):
                visit(child, qual + [child.name])
                continue
            for sub in ast.walk(child):
                targets = []
                if isinstance(sub, ast.Assign):
                    targets = sub.targets
                elif isinstance(sub, (ast.AugAssign, ast.AnnAssign)):
                    targets = [sub.target]
                elif isinstance(sub, ast.Delete):
                    targets = sub.targets
                elif (isinstance(sub, ast.Call) and isinstance(sub.func, ast.Name) and sub.func.id in ("setattr", "delattr")
                      and sub.args and is_cache(sub.args[0])):
                    found.add(".".join(qual) or "<module>")
                for tg in targets:
                    for t in ast.walk(tg):
                        if isinstance(t, ast.Attribute) and t.attr in ("lines", "line_indexes", "__dict__") and is_cache(t.value):
                            found.add(".".join(qual) or "<module>")
            # nested defs inside statements (e.g. under `if`) are rare here; walk them too
            for sub in ast.walk(child):
                if isinstance(sub, (ast.FunctionDef, ast.AsyncFunctionDef)) and sub is not child:
                    visit(sub, qual + [sub.name])

    visit(tree, [])
    return sorted(found)


def _method_ast(D, name):
    import ast
    import inspect
    import textwrap

    return ast.parse(textwrap.dedent(inspect.getsource(getattr(D.Document, name))))


def bracket_pairs(D):
    """the 2-character string constants of the `for pair in ...` loop"""
    import ast

    for node in ast.walk(_method_ast(D, "find_matching_bracket_position")):
        if isinstance(node, ast.For) and isinstance(node.iter, (ast.Tuple, ast.List)):
            vals = [e.value for e in node.iter.elts if isinstance(e, ast.Constant) and isinstance(e.value, str)]
            if vals and len(vals) == len(node.iter.elts) and all(len(v) == 2 for v in vals):
                return [(v[0], v[1]) for v in vals]
    return []


def boundary_alphabet(D):
    """value of the assignment `alphabet = ...` inside find_boundaries_of_current_word"""
    import ast
    import string

    for node in ast.walk(_method_ast(D, "find_boundaries_of_current_word")):
        if (isinstance(node, ast.Assign) and len(node.targets) == 1
                and isinstance(node.targets[0], ast.Name) and node.targets[0].id == "alphabet"):
            try:
                val = eval(compile(ast.Expression(node.value), "<alphabet>", "eval"), {"string": string})
            except Exception:
                return []
            return sorted({ord(c) for c in val})
    return []
