"""
C02 plug-in for gen_tables.py: emits the regex pattern strings (and flags) that
`prompt_toolkit.document` compiles at import time into
lean/Ptk/Gen/C02Patterns.lean.  The hand-written scanners in
lean/Ptk/Model/C02.lean are valid for exactly these patterns; the model file
pins every string with `example : Gen.C02.xxx = "..." := by decide`, so a
changed pattern in /repo breaks the build at the pin.
"""
from __future__ import annotations

import gen_tables as G


def generate() -> None:
    import prompt_toolkit.document as D

    names = [
        ("findWordRe", "_FIND_WORD_RE"),
        ("findCurrentWordRe", "_FIND_CURRENT_WORD_RE"),
        ("findCurrentWordWsRe", "_FIND_CURRENT_WORD_INCLUDE_TRAILING_WHITESPACE_RE"),
        ("findBigWordRe", "_FIND_BIG_WORD_RE"),
        ("findCurrentBigWordRe", "_FIND_CURRENT_BIG_WORD_RE"),
        ("findCurrentBigWordWsRe", "_FIND_CURRENT_BIG_WORD_INCLUDE_TRAILING_WHITESPACE_RE"),
    ]
    body = "namespace Ptk.Gen.C02\n\n"
    for lean_name, py_name in names:
        rx = getattr(D, py_name)
        body += f"/-- `{py_name}.pattern` -/\n"
        body += f"def {lean_name} : String := {G.lstr(rx.pattern)}\n"
        body += f"/-- `{py_name}.flags` (32 = re.UNICODE only) -/\n"
        body += f"def {lean_name}Flags : Nat := {int(rx.flags)}\n\n"
    body += "end Ptk.Gen.C02\n"
    G.write("C02Patterns.lean", body)
